(* C16, gradient clause on the MODEL's own functions: for a dense network with one additive skip
   connection a -> b (a < b), Network.forward records the tensors of the skip network and
   Network.backward (the repaired walk of fix 5ea5be1) returns the gradients skip_grads of
   Theory/NetDerivSkip.v, which are the derivative of the objective (skip_walk_is_derivative). *)
From NV Require Import Prelude Num NumR Random Tensor Activation Objective Optimizer Layers Network Learn.
From NV.Theory Require Import Monad Lists Build RSum Adjoint Deriv Chain ChainDense C07 C01 Forward NetDeriv NetDerivObj NetDerivSkip.
From NV.Theory Require Alist.
Require Import Reals Lra Lia List.
From Coquelicot Require Import Coquelicot.
Import ListNotations.
Local Open Scope list_scope.
Local Open Scope R_scope.
Set Implicit Arguments.

(* ---- the step functions of Network.forward and Network.backward, named ---- *)
Definition fstep (n : network NR) (st : fwd NR) (i : nat) : res (fwd NR) :=
  let layers := n_layers n in
  do x0 <- (match last_opt (fw_post st) with Some t => Ok t | None => Panic P_unwrap end);
  do x <- (match alist_get (n_connect n) i with
           | Some src =>
               do s0 <- nth_res (fw_post st) src;
               do s <- (if shape_eqb (tshape s0) (tshape x0) then Ok s0 else reshape s0 (tshape x0));
               match n_skipacc n with
               | AccAdd => add_inplace x0 s
               | AccSub => sub_inplace x0 s
               | AccMul => mul_inplace x0 s
               | AccOverwrite => Ok s
               | AccMean => mean_inplace x0 (s :: nil)
               end
           | None => Ok x0
           end);
  do r <- forward_range (sub_layers layers i (i + 1)) x;
  Ok {| fw_pre := fw_pre st ++ fw_pre r; fw_post := fw_post st ++ fw_post r;
        fw_max := fw_max st ++ fw_max r; fw_fb := fw_fb st ++ fw_fb r |}.

Lemma forward_is_fold (n : network NR) (x : tensor NR) :
  n_loopbacks n = [] ->
  forward n x = foldM (fstep n) (seq 0 (length (n_layers n)))
                      {| fw_pre := []; fw_post := x :: nil; fw_max := []; fw_fb := [] |}.
Proof.
  intros Hl. unfold forward. rewrite Hl. apply foldM_ext. intros st i _. unfold fstep.
  destruct (last_opt (fw_post st)) as [x0|]; [|reflexivity]. cbn [bind].
  match goal with |- (do x <- ?X; _) = _ => destruct X as [xx|]; [|reflexivity] end. cbn [bind].
  destruct (forward_range _ xx) as [r|]; reflexivity.
Qed.

(* a run of layers none of which is the target of a connection *)
Lemma fwd_plain_segment (n : network NR) : forall (rest done tail : list (lspec * vec)) (st : fwd NR) d (xl : list R),
  n_layers n = map mkL (done ++ rest ++ tail) ->
  (forall i, (length done <= i < length done + length rest)%nat -> alist_get (n_connect n) i = None) ->
  last_opt (fw_post st) = Some (t_single NR xl) -> chainedS rest d -> length xl = d ->
  foldM (fstep n) (seq (length done) (length rest)) st
  = Ok {| fw_pre := fw_pre st ++ map (t_single NR) (presL rest xl);
          fw_post := fw_post st ++ map (t_single NR) (List.tl (insL rest xl) ++ match rest with [] => [] | _ => predL rest xl :: nil end);
          fw_max := fw_max st ++ repeat None (length rest); fw_fb := fw_fb st |}.
Proof.
  induction rest as [|p rest IH]; intros done tail st d xl Hlayers Hnone Hlast Hch Hxl.
  - cbn [length seq foldM presL insL List.tl map app repeat]. rewrite !app_nil_r. destruct st; reflexivity.
  - cbn [length seq foldM]. unfold fstep at 1. rewrite Hlast. cbn [bind].
    rewrite (Hnone (length done)) by (cbn [length]; lia). cbn [bind].
    destruct p as [s th]. cbn [chainedS] in Hch. destruct Hch as (Hn & Ho & Hn0 & Ha & Hch).
    assert (Esub : sub_layers (n_layers n) (length done) (length done + 1) = mkL (s, th) :: nil).
    { rewrite Hlayers, map_app. cbn [app map].
      replace (length done) with (length (map mkL done)) by apply map_length. apply sub_layers_one. }
    rewrite Esub.
    rewrite (@forward_range_dense (s, th) xl ltac:(cbn [fst]; rewrite Hxl, Hn; reflexivity) Ha).
    cbn [bind fw_pre fw_post fw_max fw_fb].
    specialize (IH (done ++ (s, th) :: nil) tail
                   {| fw_pre := fw_pre st ++ t_single NR (preL (s, th) xl) :: nil;
                      fw_post := fw_post st ++ t_single NR (outL (s, th) xl) :: nil;
                      fw_max := fw_max st ++ None :: nil; fw_fb := fw_fb st ++ [] |}
                   (ls_o s) (outL (s, th) xl)).
    rewrite app_length in IH. cbn [length] in IH. rewrite Nat.add_1_r in IH.
    rewrite IH.
    + cbn [fw_pre fw_post fw_max fw_fb presL insL List.tl map]. rewrite <- !app_assoc. cbn [app]. rewrite app_nil_r.
      assert (E1 : insL rest (outL (s, th) xl) ++ predL ((s, th) :: rest) xl :: nil
                   = outL (s, th) xl :: (List.tl (insL rest (outL (s, th) xl)) ++
                        match rest with [] => [] | _ => predL rest (outL (s, th) xl) :: nil end))
        by (destruct rest; reflexivity).
      rewrite E1. reflexivity.
    + rewrite <- app_assoc. cbn [app]. exact Hlayers.
    + intros i Hi. apply Hnone. cbn [length]. lia.
    + cbn [fw_post]. apply last_opt_app.
    + exact Hch.
    + apply length_outL.
Qed.

Lemma addL_zipk (u v : list R) : length u = length v -> zipk Rplus u v = addL u v.
Proof. intros H. unfold addL. apply zipk_map2. lia. Qed.

Lemma seg_posts (rest : list (lspec * vec)) (x : list R) :
  t_single NR x :: map (t_single NR) (List.tl (insL rest x) ++ match rest with [] => [] | _ => predL rest x :: nil end)
  = map (t_single NR) (insL rest x ++ predL rest x :: nil).
Proof. destruct rest; reflexivity. Qed.

(* the same with the activation list written as (earlier inputs) ++ [current value] *)
Lemma fwd_plain_segment' (n : network NR) (rest done tail : list (lspec * vec)) (st : fwd NR) d (xl : list R) (L0 : list (list R)) :
  n_layers n = map mkL (done ++ rest ++ tail) ->
  (forall i, (length done <= i < length done + length rest)%nat -> alist_get (n_connect n) i = None) ->
  fw_post st = map (t_single NR) (L0 ++ xl :: nil) -> chainedS rest d -> length xl = d ->
  foldM (fstep n) (seq (length done) (length rest)) st
  = Ok {| fw_pre := fw_pre st ++ map (t_single NR) (presL rest xl);
          fw_post := map (t_single NR) ((L0 ++ insL rest xl) ++ predL rest xl :: nil);
          fw_max := fw_max st ++ repeat None (length rest); fw_fb := fw_fb st |}.
Proof.
  intros Hlayers Hnone Hpost Hch Hxl.
  rewrite (@fwd_plain_segment n rest done tail st d xl Hlayers Hnone); try assumption.
  - f_equal. f_equal. rewrite Hpost. rewrite map_app. cbn [map]. rewrite <- app_assoc. cbn [app].
    rewrite seg_posts. rewrite <- map_app. rewrite app_assoc. reflexivity.
  - rewrite Hpost, map_app. cbn [map]. apply last_opt_app.
Qed.

Lemma insL_app (s1 s2 : list (lspec * vec)) x : insL (s1 ++ s2) x = insL s1 x ++ insL s2 (predL s1 x).
Proof. revert x; induction s1 as [|p s1 IH]; intros x; cbn [app insL predL]; [reflexivity|]. rewrite IH. reflexivity. Qed.

(* ---- the forward pass of the skip network ---- *)
Section SkipNet.
  Variables (pre mid post : list (lspec * vec)) (lb : lspec * vec).
  Variable n : network NR.
  Let a := length pre.
  Let b := (length pre + length mid)%nat.
  Let specs := pre ++ mid ++ lb :: post.
  Hypothesis Hlay : n_layers n = map mkL specs.
  Hypothesis Hloop : n_loopbacks n = [].
  Hypothesis Hconn : n_connect n = (b, a) :: nil.
  Hypothesis Hacc : n_skipacc n = AccAdd.
  Hypothesis Hmid : mid <> [].          (* a < b *)

  Variables (d : nat) (xl : list R).
  Hypothesis Hxl : length xl = d.
  Let da := lastD pre d.
  Hypothesis Hchp : chainedS pre d.
  Hypothesis Hchm : chainedS mid da.
  Hypothesis Hda : lastD mid da = da.
  Hypothesis Hchb : chainedS (lb :: post) da.

  Let xa := predL pre xl.
  Let xb := predL mid xa.
  Let z := addL xb xa.

  (* the tensors stored as layer inputs: layer b stores its ORDINARY input xb *)
  Definition stored_inputs : list (list R) :=
    insL pre xl ++ insL mid xa ++ xb :: insL post (outL lb z).
  Definition stored_pres : list (list R) :=
    presL pre xl ++ presL mid xa ++ presL (lb :: post) z.
  Definition skip_out : list R := predL (lb :: post) z.

  Lemma conn_get i : alist_get (n_connect n) i = if (b =? i)%nat then Some a else None.
  Proof. rewrite Hconn. cbn [alist_get]. destruct (b =? i)%nat; reflexivity. Qed.

  Lemma len_mid_pos : (0 < length mid)%nat.
  Proof. destruct mid; [contradiction|cbn [length]; lia]. Qed.
  Lemma len_xa : length xa = da.
  Proof. unfold xa. apply (@length_predL pre d xl Hchp Hxl). Qed.
  Lemma len_xb : length xb = da.
  Proof. unfold xb. rewrite (@length_predL mid da xa Hchm len_xa). exact Hda. Qed.
  Lemma len_z : length z = da.
  Proof. unfold z. apply length_addL; [exact len_xb|exact len_xa]. Qed.

  Lemma nth_stored_a : nth_error (map (t_single NR) ((insL pre xl ++ insL mid xa) ++ xb :: nil)) a = Some (t_single NR xa).
  Proof.
    apply map_nth_error. rewrite <- app_assoc. rewrite nth_error_app2 by (rewrite length_insL; unfold a; lia).
    rewrite length_insL. unfold a. rewrite Nat.sub_diag.
    destruct mid as [|p0 mid0]; [contradiction|]. reflexivity.
  Qed.

  Theorem forward_skip :
    forward n (t_single NR xl)
    = Ok {| fw_pre := map (t_single NR) stored_pres;
            fw_post := map (t_single NR) (stored_inputs ++ skip_out :: nil);
            fw_max := repeat None (length specs); fw_fb := [] |}.
  Proof.
    pose proof len_mid_pos as Hmp.
    rewrite (forward_is_fold n (t_single NR xl) Hloop). rewrite Hlay, map_length. unfold specs.
    rewrite !app_length. cbn [length].
    replace (length pre + (length mid + S (length post)))%nat
      with (length pre + (length mid + (1 + length post)))%nat by lia.
    rewrite !seq_app. cbn [seq Nat.add]. rewrite !foldM_app.
    (* layers before a *)
    rewrite (@fwd_plain_segment' n pre [] (mid ++ lb :: post) _ d xl []); try assumption; try reflexivity.
    2:{ intros i Hi. rewrite conn_get. cbn [length] in Hi.
        replace (b =? i)%nat with false; [reflexivity|]. symmetry. apply Nat.eqb_neq. unfold b. lia. }
    cbn [bind fw_pre fw_post fw_max fw_fb app length Nat.add].
    (* layers a .. b-1 *)
    rewrite foldM_app.
    rewrite (@fwd_plain_segment' n mid pre (lb :: post) _ da xa (insL pre xl)); try assumption; try reflexivity.
    2:{ intros i Hi. rewrite conn_get. replace (b =? i)%nat with false; [reflexivity|].
        symmetry. apply Nat.eqb_neq. unfold b. lia. }
    2:{ exact len_xa. }
    cbn [bind fw_pre fw_post fw_max fw_fb].
    (* layer b: the skip target *)
    fold xb.
    set (st2 := {| fw_pre := _; fw_post := map (t_single NR) ((insL pre xl ++ insL mid xa) ++ xb :: nil); fw_max := _; fw_fb := _ |}).
    assert (Hlast2 : last_opt (fw_post st2) = Some (t_single NR xb)).
    { unfold st2. cbn [fw_post]. rewrite map_app. cbn [map]. apply last_opt_app. }
    assert (Hsrc : nth_res (fw_post st2) a = Ok (t_single NR xa)).
    { unfold st2, nth_res. cbn [fw_post]. rewrite nth_stored_a. reflexivity. }
    cbn [foldM]. unfold fstep at 1. rewrite Hlast2. cbn [bind].
    rewrite conn_get. fold b. rewrite Nat.eqb_refl. rewrite Hsrc. cbn [bind].
    replace (shape_eqb (tshape (t_single NR xa)) (tshape (t_single NR xb))) with true.
    2:{ symmetry. unfold t_single. cbn [tshape shape_eqb]. apply Nat.eqb_eq. exact (eq_trans len_xa (eq_sym len_xb)). }
    cbn [bind]. rewrite Hacc.
    rewrite (@add_single xb xa (eq_trans len_xb (eq_sym len_xa))). cbn [bind].
    rewrite (@addL_zipk xb xa (eq_trans len_xb (eq_sym len_xa))). fold z.
    destruct lb as [sb thb] eqn:Elb. cbn [chainedS] in Hchb. destruct Hchb as (Hnb & Hob & Hnb0 & Hab & Hchpost).
    assert (Esub : sub_layers (n_layers n) b (b + 1) = mkL (sb, thb) :: nil).
    { unfold b. rewrite Hlay. unfold specs. rewrite app_assoc, map_app. cbn [map].
      replace (length pre + length mid)%nat with (length (map mkL (pre ++ mid))) by (rewrite map_length, app_length; reflexivity).
      apply sub_layers_one. }
    rewrite Esub.
    rewrite (@forward_range_dense (sb, thb) z ltac:(cbn [fst]; rewrite len_z, Hnb; reflexivity) Hab).
    cbn [bind fw_pre fw_post fw_max fw_fb].
    (* layers behind b *)
    replace (b + 1)%nat with (length (pre ++ mid ++ (sb, thb) :: nil)) by (unfold b; rewrite !app_length; cbn [length]; lia).
    rewrite (@fwd_plain_segment' n post (pre ++ mid ++ (sb, thb) :: nil) [] _ (ls_o sb) (outL (sb, thb) z)
               ((insL pre xl ++ insL mid xa) ++ xb :: nil)).
    - unfold st2. cbn [fw_pre fw_post fw_max fw_fb bind].
      unfold stored_pres, stored_inputs, skip_out. rewrite !Elb. cbn [presL insL predL].
      f_equal. f_equal.
      + rewrite !map_app. cbn [map app]. rewrite <- !app_assoc. reflexivity.
      + f_equal. rewrite <- !app_assoc. cbn [app]. reflexivity.
      + change (@None mpval :: nil) with (repeat (@None mpval) 1). rewrite <- !repeat_app. f_equal. lia.
    - rewrite app_nil_r. rewrite Hlay. unfold specs. rewrite <- !app_assoc. reflexivity.
    - intros i Hi. rewrite conn_get. replace (b =? i)%nat with false; [reflexivity|].
      symmetry. apply Nat.eqb_neq. unfold b. rewrite !app_length in Hi. cbn [length] in Hi. lia.
    - unfold st2. cbn [fw_post]. change (t_single NR (outL (sb, thb) z) :: nil) with (map (t_single NR) (outL (sb, thb) z :: nil)).
      rewrite <- map_app. reflexivity.
    - exact Hchpost.
    - apply length_outL.
  Qed.
End SkipNet.

(* ================= the backward pass ================= *)
Definition bstate : Type :=
  (list (tensor NR) * list (grad NR) * list (option (bgrad NR))
   * list (list (tensor NR) * list (tensor NR) * list (option maxidx)) * list (tensor NR))%type.

Definition bstep (n : network NR) (f : fwd NR) (st : bstate) (il : nat * layer NR) : res bstate :=
  let len := length (n_layers n) in
  let inv := invert_net_connect (n_connect n) in
  let '(gs, wgs, bgs, fbs, ps) := st in
  let '(i, lyr) := il in
  let idx := (len - i - 1)%nat in
  do input0 <- nth_res (fw_post f) idx;
  do input <- (match alist_get (n_connect n) idx with
               | Some src =>
                   do s0 <- nth_res (fw_post f) src;
                   do s <- (if shape_eqb (tshape s0) (tshape input0) then Ok s0
                            else reshape s0 (tshape input0));
                   match n_skipacc n with
                   | AccAdd => add_inplace input0 s
                   | AccSub => sub_inplace input0 s
                   | AccMul => mul_inplace input0 s
                   | AccOverwrite => Ok s
                   | AccMean => mean_inplace input0 (s :: nil)
                   end
               | None => Ok input0
               end);
  do output <- nth_res (fw_pre f) idx;
  do lastg <- (match last_opt gs with Some t => Ok t | None => Panic P_unwrap end);
  do mx <- nth_res (fw_max f) idx;
  let fb := match lyr with LFeedback _ => last_opt fbs | _ => None end in
  let fbs' := match lyr with LFeedback _ => removelast fbs | _ => fbs end in
  do r <- layer_backward lyr lastg input output mx fb;
  let '(g, wg, bg) := r in
  let ps' := ps ++ g :: nil in
  do g' <- (match alist_get inv idx with
            | Some tos =>
                foldM (fun gacc to =>
                         do k <- csub len to;
                         do g2 <- nth_res ps' k;
                         do g2' <- reshape g2 (tshape gacc);
                         add_inplace gacc g2') tos g
            | None => Ok g
            end);
  Ok (gs ++ g' :: nil, wgs ++ wg :: nil, bgs ++ bg :: nil, fbs', ps').

Lemma backward_is_fold (n : network NR) (g : tensor NR) (f : fwd NR) :
  backward n g f =
  (do st <- foldM (bstep n f) (combine (seq 0 (length (n_layers n))) (rev (n_layers n)))
                  (g :: nil, [], [], fw_fb f, g :: nil);
   let '(gs, wgs, bgs, _, _) := st in Ok (wgs, bgs, gs)).
Proof. reflexivity. Qed.

Lemma last_gs_of (gs0 : list (tensor NR)) (seg : list (lspec * vec)) (xl gfin : list R) :
  last_opt gs0 = Some (t_single NR gfin) ->
  let '(gin, _, gins) := gradsL seg xl gfin in
  last_opt (gs0 ++ gs_of gins) = Some (t_single NR gin).
Proof.
  intros Hlast. destruct seg as [|[s th] rest].
  - cbn [gradsL gs_of map rev]. rewrite app_nil_r. exact Hlast.
  - cbn [gradsL]. destruct (gradsL rest _ gfin) as [[gm gp] gi]. unfold gs_of. cbn [map rev].
    rewrite app_assoc. apply last_opt_app.
Qed.

(* a run of layers that are neither source nor target of a connection *)
Lemma bwd_plain_segment (n : network NR) (f : fwd NR) : forall (seg : list (lspec * vec)) (k0 : nat) (xl gfin : list R) d
    (gs0 : list (tensor NR)) ws0 bs0 fbs0 (ps0 : list (tensor NR)),
  let len := length (n_layers n) in
  (k0 + length seg <= len)%nat ->
  (forall idx, (k0 <= idx < k0 + length seg)%nat ->
     alist_get (n_connect n) idx = None /\ alist_get (invert_net_connect (n_connect n)) idx = None) ->
  chainedS seg d -> length xl = d -> length gfin = lastD seg d ->
  (forall t, (t < length seg)%nat -> nth_error (fw_post f) (k0 + t) = Some (t_single NR (nth t (insL seg xl) []))) ->
  (forall t, (t < length seg)%nat -> nth_error (fw_pre f) (k0 + t) = Some (t_single NR (nth t (presL seg xl) []))) ->
  (forall t, (t < length seg)%nat -> nth_error (fw_max f) (k0 + t) = Some None) ->
  last_opt gs0 = Some (t_single NR gfin) ->
  let '(gin, gps, gins) := gradsL seg xl gfin in
  foldM (bstep n f) (combine (seq (len - k0 - length seg) (length seg)) (rev (map mkL seg))) (gs0, ws0, bs0, fbs0, ps0)
  = Ok (gs0 ++ gs_of gins, ws0 ++ ws_of seg gps, bs0 ++ bs_of seg gps, fbs0, ps0 ++ gs_of gins).
Proof.
  induction seg as [|[s th] seg IH]; intros k0 xl0 gfin d0 gs0 ws0 bs0 fbs0 ps0 len Hle Hno Hch0 Hxl0 Hg0 Hpo Hpr Hmx Hlast.
  - cbn [gradsL length seq map rev combine foldM gs_of ws_of bs_of]. rewrite !app_nil_r. reflexivity.
  - cbn [gradsL]. cbn [chainedS lastD] in Hch0, Hg0. destruct Hch0 as (Hn & Ho & Hn0 & Ha & Hch0).
    cbn [length] in Hle.
    specialize (IH (S k0) (outL (s, th) xl0) gfin (ls_o s) gs0 ws0 bs0 fbs0 ps0 ltac:(lia)).
    pose proof (@gradsL_gin_length seg (ls_o s) (outL (s, th) xl0) gfin Hch0 Hg0) as Hglen.
    pose proof (@last_gs_of gs0 seg (outL (s, th) xl0) gfin Hlast) as Elast.
    destruct (gradsL seg (outL (s, th) xl0) gfin) as [[gmid gps] gins] eqn:Eg. cbn [fst] in Hglen.
    cbn [length map rev]. rewrite seq_S.
    rewrite combine_snoc by (rewrite seq_length, rev_length, map_length; reflexivity).
    rewrite foldM_app.
    replace (len - k0 - S (length seg))%nat with (len - S k0 - length seg)%nat by lia.
    fold len in IH. rewrite IH.
    + cbn [bind foldM]. unfold bstep at 1. fold len.
      replace (len - (len - S k0 - length seg + length seg) - 1)%nat with k0 by lia.
      destruct (Hno k0 ltac:(cbn [length]; lia)) as [Hc1 Hc2]. rewrite Hc1, Hc2.
      pose proof (Hpo 0%nat ltac:(cbn [length]; lia)) as Hp0. rewrite Nat.add_0_r in Hp0. cbn [insL nth] in Hp0.
      pose proof (Hpr 0%nat ltac:(cbn [length]; lia)) as Hr0. rewrite Nat.add_0_r in Hr0. cbn [presL nth] in Hr0.
      pose proof (Hmx 0%nat ltac:(cbn [length]; lia)) as Hm0. rewrite Nat.add_0_r in Hm0.
      unfold nth_res. rewrite Hp0, Hr0, Hm0. cbn [bind]. rewrite Elast. cbn [bind mkL fst snd layer_backward].
      pose proof (@mk_dense_backward s th xl0 gmid Ho Hn0 ltac:(congruence) Hglen Ha) as Hb. cbv zeta in Hb.
      unfold preL. cbn [fst snd].
      rewrite Hb. cbn [bind fst snd]. unfold gs_of, ws_of, bs_of. cbn [combine map rev]. rewrite !app_assoc. reflexivity.
    + intros idx Hi. apply Hno. cbn [length]. lia.
    + exact Hch0.
    + apply length_outL.
    + exact Hg0.
    + intros t Ht. specialize (Hpo (S t) ltac:(cbn [length]; lia)). cbn [insL nth] in Hpo.
      rewrite <- Hpo. f_equal. lia.
    + intros t Ht. specialize (Hpr (S t) ltac:(cbn [length]; lia)). cbn [presL nth] in Hpr.
      rewrite <- Hpr. f_equal. lia.
    + intros t Ht. specialize (Hmx (S t) ltac:(cbn [length]; lia)). rewrite <- Hmx. f_equal. lia.
    + exact Hlast.
Qed.

Lemma nth_error_map_app_r A B (f : A -> B) (l1 l2 : list A) t :
  nth_error (map f (l1 ++ l2)) (length l1 + t) = nth_error (map f l2) t.
Proof. rewrite map_app, nth_error_app2 by (rewrite map_length; lia). rewrite map_length. f_equal. lia. Qed.

Lemma nth_error_map_app_l A B (f : A -> B) (l1 l2 : list A) t : (t < length l1)%nat ->
  nth_error (map f (l1 ++ l2)) t = nth_error (map f l1) t.
Proof. intros H. rewrite map_app, nth_error_app1 by (rewrite map_length; exact H). reflexivity. Qed.

Lemma nth_error_map_nth A B (f : A -> B) (l : list A) t d : (t < length l)%nat ->
  nth_error (map f l) t = Some (f (nth t l d)).
Proof. intros H. apply map_nth_error. apply nth_error_nth'. exact H. Qed.

Lemma ws_of_app (s1 s2 : list (lspec * vec)) (g1 g2 : list vec) : length g1 = length s1 ->
  ws_of (s1 ++ s2) (g1 ++ g2) = ws_of s2 g2 ++ ws_of s1 g1.
Proof.
  intros H. unfold ws_of. rewrite (@Alist.combine_app_eq _ _ s1 s2 g1 g2 (eq_sym H)). rewrite map_app, rev_app_distr. reflexivity.
Qed.
Lemma bs_of_app (s1 s2 : list (lspec * vec)) (g1 g2 : list vec) : length g1 = length s1 ->
  bs_of (s1 ++ s2) (g1 ++ g2) = bs_of s2 g2 ++ bs_of s1 g1.
Proof.
  intros H. unfold bs_of. rewrite (@Alist.combine_app_eq _ _ s1 s2 g1 g2 (eq_sym H)). rewrite map_app, rev_app_distr. reflexivity.
Qed.

(* ---- the backward pass of the skip network (a < b: layers a..b-1 = la :: mid') ---- *)
Section SkipBackward.
  Variables (pre mid' post : list (lspec * vec)) (sa sb : lspec) (tha thb : vec).
  Variable n : network NR.
  Let la : lspec * vec := (sa, tha).
  Let lb : lspec * vec := (sb, thb).
  Let mid := la :: mid'.
  Let a := length pre.
  Let b := (length pre + length mid)%nat.
  Let specs := pre ++ mid ++ lb :: post.
  Let len := length specs.
  Hypothesis Hlay : n_layers n = map mkL specs.
  Hypothesis Hconn : n_connect n = (b, a) :: nil.
  Hypothesis Hacc : n_skipacc n = AccAdd.

  Variables (d : nat) (xl gl : list R).
  Hypothesis Hxl : length xl = d.
  Let da := lastD pre d.
  Hypothesis Hchp : chainedS pre d.
  Hypothesis Hchm : chainedS mid da.
  Hypothesis Hda : lastD mid da = da.
  Hypothesis Hchb : chainedS (lb :: post) da.
  Hypothesis Hgl : length gl = lastD (lb :: post) da.

  Let xa := predL pre xl.
  Let xb := predL mid xa.
  Let z := addL xb xa.

  Variable f : fwd NR.
  Hypothesis Hfpre : fw_pre f = map (t_single NR) (stored_pres pre mid post lb xl).
  Hypothesis Hfpost : fw_post f = map (t_single NR) (stored_inputs pre mid post lb xl ++ skip_out pre mid post lb xl :: nil).
  Hypothesis Hfmax : fw_max f = repeat None len.

  Lemma inv_conn : invert_net_connect (n_connect n) = (a, b :: nil) :: nil.
  Proof. rewrite Hconn. reflexivity. Qed.

  Lemma len_eq : length (n_layers n) = len.
  Proof. rewrite Hlay, map_length. reflexivity. Qed.

  Lemma len_split : len = (length pre + (S (length mid') + S (length post)))%nat.
  Proof. unfold len, specs, mid. rewrite !app_length. cbn [length]. lia. Qed.

  Lemma lxa : length xa = da. Proof. apply (@length_predL pre d xl Hchp Hxl). Qed.
  Lemma lxb : length xb = da. Proof. unfold xb. rewrite (@length_predL mid da xa Hchm lxa). exact Hda. Qed.
  Lemma lz : length z = da. Proof. apply length_addL; [exact lxb|exact lxa]. Qed.

  Theorem backward_skip :
    let '(gps_pre, gps_mid, gps_bp) := skip_grads pre mid post lb xl gl in
    exists gs, backward n (t_single NR gl) f
               = Ok (ws_of specs (gps_pre ++ gps_mid ++ gps_bp), bs_of specs (gps_pre ++ gps_mid ++ gps_bp), gs).
  Proof.
    pose proof len_split as Hls. pose proof len_eq as Hle.
    unfold skip_grads. fold xa. fold xb. fold z.
    pose proof Hchb as Hchb'. unfold lb in Hchb'. cbn [chainedS] in Hchb'. destruct Hchb' as (Hnb & Hob & Hnb0 & Hab & Hchpost).
    pose proof Hchm as Hchm'. unfold mid, la in Hchm'. cbn [chainedS] in Hchm'.
    destruct Hchm' as (Hna & Hoa & Hna0 & Haa & Hchmid').
    unfold lb, la in *.
    (* ---- the gradients, named ---- *)
    cbn [gradsL].
    pose proof (@gradsL_gin_length post (ls_o sb) (outL (sb, thb) z) gl Hchpost ltac:(cbn [lastD] in Hgl; exact Hgl)) as Hgpl.
    destruct (gradsL post (outL (sb, thb) z) gl) as [[gpost gps_post] gins_post] eqn:Egpost. cbn [fst] in Hgpl.
    set (bb := sbwd (stage_of sb) (eff sb thb) (vof z) (vof gpost)).
    set (gb := lof (ls_n sb) (fst bb)).
    assert (Hgbl : length gb = da) by (unfold gb; rewrite length_lof; exact Hnb).
    unfold mid. cbn [gradsL].
    assert (Hgbl' : length gb = lastD mid' (ls_o sa)).
    { rewrite Hgbl. unfold mid in Hda. cbn [lastD] in Hda. symmetry. exact Hda. }
    pose proof (@gradsL_gin_length mid' (ls_o sa) (outL (sa, tha) xa) gb Hchmid' Hgbl') as Hgml.
    destruct (gradsL mid' (outL (sa, tha) xa) gb) as [[gmid gps_mid'] gins_mid'] eqn:Egmid. cbn [fst] in Hgml.
    set (ba := sbwd (stage_of sa) (eff sa tha) (vof xa) (vof gmid)).
    set (gm := lof (ls_n sa) (fst ba)).
    assert (Hgmlen : length gm = da) by (unfold gm; rewrite length_lof; exact Hna).
    assert (Hgsum : length (addL gm gb) = lastD pre d) by (apply length_addL; assumption).
    destruct (gradsL pre xl (addL gm gb)) as [[gpre gps_pre] gins_pre] eqn:Egpre.
    (* ---- the fold, split into post | b | mid' | a | pre ---- *)
    rewrite backward_is_fold. rewrite Hle. rewrite Hlay. unfold specs, mid.
    rewrite !map_app. cbn [map]. rewrite !rev_app_distr. cbn [rev]. rewrite ?rev_app_distr. cbn [rev app].
    rewrite <- !app_assoc. cbn [app].
    rewrite Hls.
    replace (length pre + (S (length mid') + S (length post)))%nat
      with (length post + (1 + (length mid' + (1 + length pre))))%nat by lia.
    rewrite !seq_app. cbn [seq Nat.add].
    rewrite (@Alist.combine_app_eq _ _ (seq 0 (length post)) _ (rev (map mkL post)) _)
      by (rewrite seq_length, rev_length, map_length; reflexivity).
    cbn [combine app].
    rewrite (@Alist.combine_app_eq _ _ (seq (length post + 1) (length mid')) _ (rev (map mkL mid')) _)
      by (rewrite seq_length, rev_length, map_length; reflexivity).
    cbn [combine app].
    rewrite !foldM_app.
    (* stored tensors *)
    assert (SI : stored_inputs pre ((sa, tha) :: mid') post (sb, thb) xl
                 = insL pre xl ++ (xa :: insL mid' (outL (sa, tha) xa)) ++ xb :: insL post (outL (sb, thb) z)).
    { unfold stored_inputs. reflexivity. }
    assert (SP : stored_pres pre ((sa, tha) :: mid') post (sb, thb) xl
                 = presL pre xl ++ (preL (sa, tha) xa :: presL mid' (outL (sa, tha) xa)) ++ preL (sb, thb) z :: presL post (outL (sb, thb) z)).
    { unfold stored_pres. reflexivity. }
    fold mid in Hfpre, Hfpost. unfold mid in Hfpre, Hfpost. rewrite SP in Hfpre. rewrite SI in Hfpost.
    (* ---- 1. the layers behind b ---- *)
    pose proof (@bwd_plain_segment n f post (S b) (outL (sb, thb) z) gl (ls_o sb)
                  (t_single NR gl :: nil) [] [] (fw_fb f) (t_single NR gl :: nil)) as S1.
    cbv zeta in S1. rewrite Hle in S1. rewrite Egpost in S1.
    replace (len - S b - length post)%nat with 0%nat in S1 by (unfold b, mid; cbn [length]; lia).
    rewrite S1; clear S1.
    2:{ unfold b, mid. cbn [length]. lia. }
    2:{ intros idx Hi. rewrite inv_conn, Hconn. cbn [alist_get].
        replace (b =? idx)%nat with false by (symmetry; apply Nat.eqb_neq; lia).
        replace (a =? idx)%nat with false by (symmetry; apply Nat.eqb_neq; unfold a, b, mid in *; cbn [length] in Hi; lia).
        split; reflexivity. }
    2:{ exact Hchpost. }
    2:{ apply length_outL. }
    2:{ cbn [lastD] in Hgl. exact Hgl. }
    2:{ intros t Ht. rewrite Hfpost.
        replace (S b + t)%nat with (length (insL pre xl ++ (xa :: insL mid' (outL (sa, tha) xa)) ++ xb :: nil) + t)%nat
          by (rewrite !app_length; cbn [length]; rewrite !length_insL; unfold b, mid; cbn [length]; lia).
        replace ((insL pre xl ++ (xa :: insL mid' (outL (sa, tha) xa)) ++ xb :: insL post (outL (sb, thb) z)) ++ skip_out pre ((sa, tha) :: mid') post (sb, thb) xl :: nil)
          with ((insL pre xl ++ (xa :: insL mid' (outL (sa, tha) xa)) ++ xb :: nil) ++ (insL post (outL (sb, thb) z) ++ skip_out pre ((sa, tha) :: mid') post (sb, thb) xl :: nil))
          by (rewrite <- !app_assoc; cbn [app]; reflexivity).
        rewrite nth_error_map_app_r. rewrite nth_error_map_app_l by (rewrite length_insL; exact Ht).
        apply nth_error_map_nth. rewrite length_insL. exact Ht. }
    2:{ intros t Ht. rewrite Hfpre.
        replace (S b + t)%nat with (length (presL pre xl ++ (preL (sa, tha) xa :: presL mid' (outL (sa, tha) xa)) ++ preL (sb, thb) z :: nil) + t)%nat
          by (rewrite !app_length; cbn [length]; rewrite !length_presL; unfold b, mid; cbn [length]; lia).
        replace (presL pre xl ++ (preL (sa, tha) xa :: presL mid' (outL (sa, tha) xa)) ++ preL (sb, thb) z :: presL post (outL (sb, thb) z))
          with ((presL pre xl ++ (preL (sa, tha) xa :: presL mid' (outL (sa, tha) xa)) ++ preL (sb, thb) z :: nil) ++ presL post (outL (sb, thb) z))
          by (rewrite <- !app_assoc; cbn [app]; reflexivity).
        rewrite nth_error_map_app_r. apply nth_error_map_nth. rewrite length_presL. exact Ht. }
    2:{ intros t Ht. rewrite Hfmax. apply nth_error_repeat. rewrite Hls. unfold b, mid. cbn [length]. lia. }
    2:{ reflexivity. }
    cbn [bind].
    (* lengths of the gradient lists *)
    pose proof (gradsL_lengths post (outL (sb, thb) z) gl) as [Lp1 Lp2]. rewrite Egpost in Lp1, Lp2. cbn [fst snd] in Lp1, Lp2.
    pose proof (gradsL_lengths mid' (outL (sa, tha) xa) gb) as [Lm1 Lm2]. rewrite Egmid in Lm1, Lm2. cbn [fst snd] in Lm1, Lm2.
    pose proof (gradsL_lengths pre xl (addL gm gb)) as [Lr1 Lr2]. rewrite Egpre in Lr1, Lr2. cbn [fst snd] in Lr1, Lr2.
    (* the stored tensors at a and b *)
    assert (Pb : nth_error (fw_post f) b = Some (t_single NR xb)).
    { rewrite Hfpost.
      replace b with (length (insL pre xl ++ xa :: insL mid' (outL (sa, tha) xa)) + 0)%nat
        by (rewrite app_length; cbn [length]; rewrite !length_insL; unfold b, mid; cbn [length]; lia).
      replace ((insL pre xl ++ (xa :: insL mid' (outL (sa, tha) xa)) ++ xb :: insL post (outL (sb, thb) z)) ++ skip_out pre ((sa, tha) :: mid') post (sb, thb) xl :: nil)
        with ((insL pre xl ++ xa :: insL mid' (outL (sa, tha) xa)) ++ (xb :: insL post (outL (sb, thb) z) ++ skip_out pre ((sa, tha) :: mid') post (sb, thb) xl :: nil))
        by (rewrite <- !app_assoc; cbn [app]; reflexivity).
      rewrite nth_error_map_app_r. reflexivity. }
    assert (Pa : nth_error (fw_post f) a = Some (t_single NR xa)).
    { rewrite Hfpost.
      replace a with (length (insL pre xl) + 0)%nat by (rewrite length_insL; unfold a; lia).
      rewrite <- !app_assoc. rewrite nth_error_map_app_r. reflexivity. }
    assert (Qb : nth_error (fw_pre f) b = Some (t_single NR (preL (sb, thb) z))).
    { rewrite Hfpre.
      replace b with (length (presL pre xl ++ preL (sa, tha) xa :: presL mid' (outL (sa, tha) xa)) + 0)%nat
        by (rewrite app_length; cbn [length]; rewrite !length_presL; unfold b, mid; cbn [length]; lia).
      replace (presL pre xl ++ (preL (sa, tha) xa :: presL mid' (outL (sa, tha) xa)) ++ preL (sb, thb) z :: presL post (outL (sb, thb) z))
        with ((presL pre xl ++ preL (sa, tha) xa :: presL mid' (outL (sa, tha) xa)) ++ (preL (sb, thb) z :: presL post (outL (sb, thb) z)))
        by (rewrite <- !app_assoc; cbn [app]; reflexivity).
      rewrite nth_error_map_app_r. reflexivity. }
    assert (Qa : nth_error (fw_pre f) a = Some (t_single NR (preL (sa, tha) xa))).
    { rewrite Hfpre.
      replace a with (length (presL pre xl) + 0)%nat by (rewrite length_presL; unfold a; lia).
      rewrite nth_error_map_app_r. reflexivity. }
    assert (Mx : forall k, (k < len)%nat -> nth_error (fw_max f) k = Some None).
    { intros k Hk. rewrite Hfmax. apply nth_error_repeat. exact Hk. }
    assert (Hab' : (a < b)%nat) by (unfold a, b, mid; cbn [length]; lia).
    assert (Hbl : (b < len)%nat) by (rewrite Hls; unfold b, mid; cbn [length]; lia).
    (* ---- 2. layer b, the skip target ---- *)
    pose proof (@last_gs_of (t_single NR gl :: nil) post (outL (sb, thb) z) gl eq_refl) as Elast1. rewrite Egpost in Elast1.
    cbn [foldM]. unfold bstep at 1. rewrite Hle. rewrite inv_conn.
    replace (len - length post - 1)%nat with b by (rewrite Hls; unfold b, mid; cbn [length]; lia).
    unfold nth_res. rewrite Pb. cbn [bind]. rewrite Hconn. cbn [alist_get]. rewrite Nat.eqb_refl. rewrite Pa. cbn [bind].
    replace (shape_eqb (tshape (t_single NR xa)) (tshape (t_single NR xb))) with true.
    2:{ symmetry. unfold t_single. cbn [tshape shape_eqb]. apply Nat.eqb_eq. exact (eq_trans lxa (eq_sym lxb)). }
    cbn [bind]. rewrite Hacc. rewrite (@add_single xb xa (eq_trans lxb (eq_sym lxa))). cbn [bind].
    rewrite (@addL_zipk xb xa (eq_trans lxb (eq_sym lxa))). fold z.
    rewrite Qb. cbn [bind]. rewrite Elast1. cbn [bind]. rewrite (Mx b Hbl). cbn [bind mkL fst snd layer_backward].
    pose proof (@mk_dense_backward sb thb z gpost Hob Hnb0 ltac:(rewrite lz, Hnb; reflexivity) Hgpl Hab) as Hbb. cbv zeta in Hbb.
    unfold preL. cbn [fst snd]. rewrite Hbb. cbn [bind fst snd]. fold bb. fold gb.
    replace (a =? b)%nat with false by (symmetry; apply Nat.eqb_neq; lia). cbn [bind].
    (* ---- 3. layers a+1 .. b-1 ---- *)
    rewrite foldM_app.
    pose proof (@bwd_plain_segment n f mid' (S a) (outL (sa, tha) xa) gb (ls_o sa)
                  (((t_single NR gl :: nil) ++ gs_of gins_post) ++ t_single NR gb :: nil)
                  (([] ++ ws_of post gps_post) ++ GPlain (wg_tensor sb (snd bb)) :: nil)
                  (([] ++ bs_of post gps_post) ++ option_map (@BPlain NR) (bg_tensor sb (snd bb)) :: nil)
                  (fw_fb f)
                  (((t_single NR gl :: nil) ++ gs_of gins_post) ++ t_single NR gb :: nil)) as S3.
    cbv zeta in S3. rewrite Hle in S3. rewrite Egmid in S3.
    replace (len - S a - length mid')%nat with (length post + 1)%nat in S3 by (rewrite Hls; unfold a; lia).
    rewrite S3; clear S3.
    2:{ rewrite Hls. unfold a. lia. }
    2:{ intros idx Hi. rewrite inv_conn, Hconn. cbn [alist_get].
        replace (b =? idx)%nat with false by (symmetry; apply Nat.eqb_neq; unfold b, mid; cbn [length]; lia).
        replace (a =? idx)%nat with false by (symmetry; apply Nat.eqb_neq; lia).
        split; reflexivity. }
    2:{ exact Hchmid'. }
    2:{ apply length_outL. }
    2:{ exact Hgbl'. }
    2:{ intros t Ht. rewrite Hfpost.
        replace (S a + t)%nat with (length (insL pre xl ++ xa :: nil) + t)%nat by (rewrite app_length; cbn [length]; rewrite length_insL; unfold a; lia).
        replace ((insL pre xl ++ (xa :: insL mid' (outL (sa, tha) xa)) ++ xb :: insL post (outL (sb, thb) z)) ++ skip_out pre ((sa, tha) :: mid') post (sb, thb) xl :: nil)
          with ((insL pre xl ++ xa :: nil) ++ (insL mid' (outL (sa, tha) xa) ++ (xb :: insL post (outL (sb, thb) z) ++ skip_out pre ((sa, tha) :: mid') post (sb, thb) xl :: nil)))
          by (rewrite <- !app_assoc; cbn [app]; reflexivity).
        rewrite nth_error_map_app_r. rewrite nth_error_map_app_l by (rewrite length_insL; exact Ht).
        apply nth_error_map_nth. rewrite length_insL. exact Ht. }
    2:{ intros t Ht. rewrite Hfpre.
        replace (S a + t)%nat with (length (presL pre xl ++ preL (sa, tha) xa :: nil) + t)%nat by (rewrite app_length; cbn [length]; rewrite length_presL; unfold a; lia).
        replace (presL pre xl ++ (preL (sa, tha) xa :: presL mid' (outL (sa, tha) xa)) ++ preL (sb, thb) z :: presL post (outL (sb, thb) z))
          with ((presL pre xl ++ preL (sa, tha) xa :: nil) ++ (presL mid' (outL (sa, tha) xa) ++ preL (sb, thb) z :: presL post (outL (sb, thb) z)))
          by (rewrite <- !app_assoc; cbn [app]; reflexivity).
        rewrite nth_error_map_app_r. rewrite nth_error_map_app_l by (rewrite length_presL; exact Ht).
        apply nth_error_map_nth. rewrite length_presL. exact Ht. }
    2:{ intros t Ht. apply Mx. rewrite Hls. unfold a. lia. }
    2:{ apply last_opt_app. }
    cbn [bind].
    (* ---- 4. layer a, the skip source ---- *)
    pose proof (@last_gs_of (((t_single NR gl :: nil) ++ gs_of gins_post) ++ t_single NR gb :: nil) mid' (outL (sa, tha) xa) gb
                  (last_opt_app _ _)) as Elast2. rewrite Egmid in Elast2.
    cbn [foldM]. unfold bstep at 1. rewrite Hle. rewrite inv_conn.
    replace (len - (length post + 1 + length mid') - 1)%nat with a by (rewrite Hls; unfold a; lia).
    unfold nth_res. rewrite Pa. cbn [bind]. rewrite Hconn. cbn [alist_get].
    replace (b =? a)%nat with false by (symmetry; apply Nat.eqb_neq; lia). cbn [bind].
    rewrite Qa. cbn [bind]. rewrite Elast2. cbn [bind].
    rewrite (Mx a ltac:(lia)). cbn [bind mkL fst snd layer_backward].
    pose proof (@mk_dense_backward sa tha xa gmid Hoa Hna0 ltac:(rewrite lxa, Hna; reflexivity) Hgml Haa) as Hba. cbv zeta in Hba.
    unfold preL. cbn [fst snd]. rewrite Hba. cbn [bind fst snd]. fold ba. fold gm.
    rewrite Nat.eqb_refl. cbn [foldM bind]. unfold csub.
    replace (b <=? len)%nat with true by (symmetry; apply Nat.leb_le; lia). cbn [bind].
    assert (Eps : nth_error (((((t_single NR gl :: nil) ++ gs_of gins_post) ++ t_single NR gb :: nil) ++ gs_of gins_mid') ++ t_single NR gm :: nil) (len - b)
                  = Some (t_single NR gb)).
    { rewrite <- !app_assoc. cbn [app].
      replace (len - b)%nat with (length (t_single NR gl :: gs_of gins_post) + 0)%nat
        by (assert (Lg : length (gs_of gins_post) = length post) by (unfold gs_of; rewrite rev_length, map_length; exact Lp2);
            cbn [length]; rewrite Lg, Hls; unfold b, mid; cbn [length]; lia).
      change (t_single NR gl :: gs_of gins_post ++ t_single NR gb :: gs_of gins_mid' ++ t_single NR gm :: nil)
        with ((t_single NR gl :: gs_of gins_post) ++ t_single NR gb :: gs_of gins_mid' ++ t_single NR gm :: nil).
      rewrite nth_error_app2 by lia. replace (length (t_single NR gl :: gs_of gins_post) + 0 - length (t_single NR gl :: gs_of gins_post))%nat with 0%nat by lia.
      reflexivity. }
    unfold nth_res. rewrite Eps. cbn [bind]. unfold reshape at 1. cbn [t_single tshape bind].
    change (@mkT NR (SSingle (length gm)) (@DSingle NR gm)) with (t_single NR gm).
    change (@mkT NR (SSingle (length gb)) (@DSingle NR gb)) with (t_single NR gb).
    rewrite (@add_single gm gb (eq_trans Hgmlen (eq_sym Hgbl))). cbn [bind].
    rewrite (@addL_zipk gm gb (eq_trans Hgmlen (eq_sym Hgbl))).
    (* ---- 5. the layers before a ---- *)
    match goal with |- context [foldM (bstep n f) _ ?st] => set (st4 := st) end.
    pose proof (@bwd_plain_segment n f pre 0%nat xl (addL gm gb) d) as S5.
    destruct st4 as [[[[gs4 ws4] bs4] fbs4] ps4] eqn:Est4.
    specialize (S5 gs4 ws4 bs4 fbs4 ps4).
    cbv zeta in S5. rewrite Hle in S5. rewrite Egpre in S5.
    replace (len - 0 - length pre)%nat with (length post + 1 + length mid' + 1)%nat in S5 by (rewrite Hls; lia).
    rewrite S5; clear S5.
    + cbn [bind]. eexists. f_equal. f_equal.
      * f_equal.
        -- injection Est4 as _ Ew _ _ _. rewrite <- Ew.
           rewrite (@ws_of_app pre ((sa, tha) :: mid' ++ (sb, thb) :: post) gps_pre (snd ba :: gps_mid' ++ snd bb :: gps_post) Lr1).
           f_equal.
           change ((sa, tha) :: mid' ++ (sb, thb) :: post) with (((sa, tha) :: mid') ++ (sb, thb) :: post).
           change (snd ba :: gps_mid' ++ snd bb :: gps_post) with ((snd ba :: gps_mid') ++ snd bb :: gps_post).
           rewrite (@ws_of_app ((sa, tha) :: mid') ((sb, thb) :: post) (snd ba :: gps_mid') (snd bb :: gps_post) ltac:(cbn [length]; lia)).
           unfold ws_of. cbn [combine map rev fst snd app]. rewrite <- !app_assoc. reflexivity.
        -- injection Est4 as _ _ Eb _ _. rewrite <- Eb.
           rewrite (@bs_of_app pre ((sa, tha) :: mid' ++ (sb, thb) :: post) gps_pre (snd ba :: gps_mid' ++ snd bb :: gps_post) Lr1).
           f_equal.
           change ((sa, tha) :: mid' ++ (sb, thb) :: post) with (((sa, tha) :: mid') ++ (sb, thb) :: post).
           change (snd ba :: gps_mid' ++ snd bb :: gps_post) with ((snd ba :: gps_mid') ++ snd bb :: gps_post).
           rewrite (@bs_of_app ((sa, tha) :: mid') ((sb, thb) :: post) (snd ba :: gps_mid') (snd bb :: gps_post) ltac:(cbn [length]; lia)).
           unfold bs_of. cbn [combine map rev fst snd app]. rewrite <- !app_assoc. reflexivity.
    + lia.
    + intros idx Hi. rewrite inv_conn, Hconn. cbn [alist_get].
      replace (b =? idx)%nat with false by (symmetry; apply Nat.eqb_neq; unfold a in *; lia).
      replace (a =? idx)%nat with false by (symmetry; apply Nat.eqb_neq; unfold a in *; lia).
      split; reflexivity.
    + exact Hchp.
    + exact Hxl.
    + exact Hgsum.
    + intros t Ht. rewrite Hfpost. cbn [Nat.add]. rewrite <- !app_assoc.
      rewrite nth_error_map_app_l by (rewrite length_insL; exact Ht).
      apply nth_error_map_nth. rewrite length_insL. exact Ht.
    + intros t Ht. rewrite Hfpre. cbn [Nat.add].
      rewrite nth_error_map_app_l by (rewrite length_presL; exact Ht).
      apply nth_error_map_nth. rewrite length_presL. exact Ht.
    + intros t Ht. apply Mx. rewrite Hls. lia.
    + injection Est4 as Eg _ _ _ _. rewrite <- Eg.
      apply (@last_opt_app _ (t_single NR gl :: (gs_of gins_post ++ t_single NR gb :: nil) ++ gs_of gins_mid') (t_single NR (addL gm gb))).
  Qed.
End SkipBackward.

(* ================= end to end ================= *)
Section SkipEndToEnd.
  Variables (cpre cmid' cpost : curves) (sa sb : lspec) (Tha Thb : R -> vec) (Tha' Thb' : vec).
  Let ca : lspec * (R -> vec) * vec := (sa, Tha, Tha').
  Let cb : lspec * (R -> vec) * vec := (sb, Thb, Thb').
  Let cmid : curves := ca :: cmid'.
  Let a := length cpre.
  Let b := (length cpre + length cmid)%nat.
  Variable n0 : network NR.
  Hypothesis Hloop : n_loopbacks n0 = [].
  Hypothesis Hconn : n_connect n0 = (b, a) :: nil.
  Hypothesis Hacc : n_skipacc n0 = AccAdd.
  Hypothesis Hobj : n_objective n0 = (MSE, None).

  Definition skip_net_at (t : R) : network NR :=
    set_layers n0 (map mkL (at_t cpre t ++ at_t cmid t ++ (sb, Thb t) :: at_t cpost t)).

  Variables (d : nat) (xl tgl : list R) (h0 : R).
  Hypothesis Hxl : length xl = d.
  Let da := lastD (at_t cpre h0) d.
  Hypothesis Hchp : chainedS (at_t cpre h0) d.
  Hypothesis Hchm : chainedS (at_t cmid h0) da.
  Hypothesis Hda : lastD (at_t cmid h0) da = da.
  Hypothesis Hchb : chainedS (at_t (cb :: cpost) h0) da.
  Hypothesis Htl : length tgl = lastD (at_t (cb :: cpost) h0) da.
  Hypothesis Hpos : (0 < length tgl)%nat.
  Hypothesis Hcup : curves_ok cpre h0.
  Hypothesis Hcum : curves_ok cmid h0.
  Hypothesis Hcub : curves_ok (cb :: cpost) h0.
  Let xa := predL (at_t cpre h0) xl.
  Let xb := predL (at_t cmid h0) xa.
  Hypothesis Hsmp : smoothL (at_t cpre h0) xl.
  Hypothesis Hsmm : smoothL (at_t cmid h0) xa.
  Hypothesis Hsmb : smoothL (at_t (cb :: cpost) h0) (addL xb xa).

  Let m := length tgl.
  Let pred (t : R) : list R := skip_pred (at_t cpre t) (at_t cmid t) (at_t cpost t) (sb, Thb t) xl.

  (* sample_grad of the skip network at an arbitrary t *)
  Lemma skip_sample_grad t :
    let '(gps_pre, gps_mid, gps_bp) :=
        skip_grads (at_t cpre t) (at_t cmid t) (at_t cpost t) (sb, Thb t) xl (lof m (mse_gradR m (vof tgl) (vof (pred t)))) in
    sample_grad (skip_net_at t) (t_single NR xl, t_single NR tgl)
    = Ok ((ws_of (at_t cpre t ++ at_t cmid t ++ (sb, Thb t) :: at_t cpost t) (gps_pre ++ gps_mid ++ gps_bp),
           bs_of (at_t cpre t ++ at_t cmid t ++ (sb, Thb t) :: at_t cpost t) (gps_pre ++ gps_mid ++ gps_bp)),
          mseR m (vof tgl) (vof (pred t))).
  Proof.
    assert (Hchp_t : chainedS (at_t cpre t) d) by (apply (@chainedS_at_t cpre h0 t d); exact Hchp).
    assert (Eda : lastD (at_t cpre t) d = da) by (unfold da; apply lastD_at_t).
    assert (Hchm_t : chainedS (at_t cmid t) (lastD (at_t cpre t) d)).
    { rewrite Eda. apply (@chainedS_at_t cmid h0 t da). exact Hchm. }
    assert (Hda_t : lastD (at_t cmid t) (lastD (at_t cpre t) d) = lastD (at_t cpre t) d).
    { rewrite Eda. rewrite (lastD_at_t cmid t h0 da). exact Hda. }
    assert (Hchb_t : chainedS ((sb, Thb t) :: at_t cpost t) (lastD (at_t cpre t) d)).
    { rewrite Eda. apply (@chainedS_at_t (cb :: cpost) h0 t da). exact Hchb. }
    assert (Hlen_a : length (at_t cpre t) = a) by (unfold at_t; rewrite map_length; reflexivity).
    assert (Hlen_m : length (at_t cmid t) = length cmid) by (unfold at_t; rewrite map_length; reflexivity).
    assert (Hconn_t : n_connect (skip_net_at t) = ((length (at_t cpre t) + length (at_t cmid t))%nat, length (at_t cpre t)) :: nil).
    { cbn [skip_net_at set_layers n_connect]. rewrite Hconn, Hlen_a, Hlen_m. reflexivity. }
    pose proof (@forward_skip (at_t cpre t) (at_t cmid t) (at_t cpost t) (sb, Thb t) (skip_net_at t)
                  eq_refl Hloop Hconn_t Hacc ltac:(unfold cmid, ca; cbn [at_t map]; discriminate)
                  d xl Hxl Hchp_t Hchm_t Hda_t Hchb_t) as Hf.
    set (f := {| fw_pre := map (t_single NR) (stored_pres (at_t cpre t) (at_t cmid t) (at_t cpost t) (sb, Thb t) xl);
                 fw_post := map (t_single NR) (stored_inputs (at_t cpre t) (at_t cmid t) (at_t cpost t) (sb, Thb t) xl
                                               ++ skip_out (at_t cpre t) (at_t cmid t) (at_t cpost t) (sb, Thb t) xl :: nil);
                 fw_max := repeat None (length (at_t cpre t ++ at_t cmid t ++ (sb, Thb t) :: at_t cpost t)); fw_fb := [] |}) in *.
    assert (Epred : skip_out (at_t cpre t) (at_t cmid t) (at_t cpost t) (sb, Thb t) xl = pred t) by reflexivity.
    assert (Hyl : length (pred t) = m).
    { unfold pred, skip_pred.
      rewrite (@length_predL ((sb, Thb t) :: at_t cpost t) (lastD (at_t cpre t) d) _ Hchb_t).
      - rewrite Eda. unfold m. rewrite Htl. apply (lastD_at_t (cb :: cpost) t h0 da).
      - apply length_addL.
        + rewrite (@length_predL (at_t cmid t) (lastD (at_t cpre t) d) _ Hchm_t); [exact Hda_t|].
          apply (@length_predL (at_t cpre t) d xl Hchp_t Hxl).
        + apply (@length_predL (at_t cpre t) d xl Hchp_t Hxl). }
    pose proof (@backward_skip (at_t cpre t) (at_t cmid' t) (at_t cpost t) sa sb (Tha t) (Thb t) (skip_net_at t)
                  eq_refl Hconn_t Hacc d xl (lof m (mse_gradR m (vof tgl) (vof (pred t)))) Hxl Hchp_t Hchm_t Hda_t Hchb_t
                  ltac:(rewrite length_lof; rewrite Eda; unfold m; rewrite Htl; symmetry; apply (lastD_at_t (cb :: cpost) t h0 da))
                  f eq_refl eq_refl eq_refl) as Hb.
    change ((sa, Tha t) :: at_t cmid' t) with (at_t cmid t) in Hb.
    destruct (skip_grads (at_t cpre t) (at_t cmid t) (at_t cpost t) (sb, Thb t) xl (lof m (mse_gradR m (vof tgl) (vof (pred t)))))
      as [[gps_pre gps_mid] gps_bp].
    destruct Hb as (gs & Hb).
    unfold sample_grad. cbn [fst snd]. rewrite Hf. cbn [bind].
    assert (Elast : last_opt (fw_post f) = Some (t_single NR (pred t))).
    { unfold f. cbn [fw_post]. rewrite map_app. cbn [map]. rewrite Epred. apply last_opt_app. }
    rewrite Elast. cbn [bind]. cbn [skip_net_at set_layers n_objective]. rewrite Hobj. cbn [fst snd].
    rewrite (@loss_mse_single (pred t) tgl m Hyl eq_refl). cbn [bind fst snd].
    change (set_layers n0 (map mkL (at_t cpre t ++ at_t cmid t ++ (sb, Thb t) :: at_t cpost t))) with (skip_net_at t).
    rewrite Hb. reflexivity.
  Qed.

  Theorem skip_model_gradient :
    exists gps_pre gps_mid gps_bp : list vec,
      sample_grad (skip_net_at h0) (t_single NR xl, t_single NR tgl)
        = Ok ((ws_of (at_t cpre h0 ++ at_t cmid h0 ++ (sb, Thb h0) :: at_t cpost h0) (gps_pre ++ gps_mid ++ gps_bp),
               bs_of (at_t cpre h0 ++ at_t cmid h0 ++ (sb, Thb h0) :: at_t cpost h0) (gps_pre ++ gps_mid ++ gps_bp)),
              mseR m (vof tgl) (vof (pred h0))) /\
      (forall t, loss_of (sample_grad (skip_net_at t) (t_single NR xl, t_single NR tgl)) = mseR m (vof tgl) (vof (pred t))) /\
      is_derive (fun t => loss_of (sample_grad (skip_net_at t) (t_single NR xl, t_single NR tgl))) h0
                (pairing cpre gps_pre + pairing cmid gps_mid + pairing (cb :: cpost) gps_bp).
  Proof.
    pose proof (skip_sample_grad h0) as SG0.
    assert (LV : forall t, loss_of (sample_grad (skip_net_at t) (t_single NR xl, t_single NR tgl)) = mseR m (vof tgl) (vof (pred t))).
    { intros t. pose proof (skip_sample_grad t) as SGt.
      destruct (skip_grads (at_t cpre t) (at_t cmid t) (at_t cpost t) (sb, Thb t) xl _) as [[g1 g2] g3]. rewrite SGt. reflexivity. }
    pose proof (@skip_walk_is_derivative cpre cmid cpost cb d xl h0 m
                  (fun yl => mseR m (vof tgl) (vof yl)) (fun yl => lof m (mse_gradR m (vof tgl) (vof yl)))
                  Hchp Hxl Hchm Hda Hchb Htl Hcup Hcum Hcub Hsmp Hsmm Hsmb) as D.
    cbv zeta in D.
    destruct (skip_grads (at_t cpre h0) (at_t cmid h0) (at_t cpost h0) (sb, Thb h0) xl (lof m (mse_gradR m (vof tgl) (vof (pred h0)))))
      as [[gps_pre gps_mid] gps_bp] eqn:Eg.
    exists gps_pre, gps_mid, gps_bp. split; [exact SG0|]. split; [exact LV|].
    apply (is_derive_ext (fun t => mseR m (vof tgl) (vof (pred t)))); [intros t; symmetry; apply LV|].
    unfold cb in D. cbn [fst snd] in D. fold (pred h0) in D. rewrite Eg in D.
    apply D.
    - intros Y Y' HYl HYd.
      replace (dotp m (vof (lof m (mse_gradR m (vof tgl) (vof (Y h0))))) Y') with (dotp m (mse_gradR m (vof tgl) (vof (Y h0))) Y').
      + apply (@mse_contract m (vof tgl) (fun t => vof (Y t)) Y' h0 Hpos HYd).
      + unfold dotp. apply bsum_ext. intros i Hi. rewrite vof_lof by exact Hi. reflexivity.
    - intros y Hy. apply length_lof.
  Qed.
End SkipEndToEnd.

(* ---- the hypotheses are satisfiable: 2 -> 2 (sigmoid) -> 2 (tanh) -> 1 (linear) with the skip 1 -> 2,
        every parameter moving along an arbitrary line ---- *)
Example skip_model_gradient_applies (th0 th1 th2 d0 d1 d2 : vec) (x1 x2 y : R) :
  let s0 := {| ls_o := 2; ls_n := 2; ls_act := Sigmoid; ls_bias := true |} in
  let s1 := {| ls_o := 2; ls_n := 2; ls_act := Tanh; ls_bias := true |} in
  let s2 := {| ls_o := 1; ls_n := 2; ls_act := Linear; ls_bias := false |} in
  let cpre : curves := (s0, (fun t i => th0 i + t * d0 i), d0) :: nil in
  let n0 : network NR :=
    {| n_input := SSingle 2; n_layers := []; n_loopbacks := []; n_loopacc := AccMean;
       n_connect := (2%nat, 1%nat) :: nil; n_skipacc := AccAdd; n_optimizer := default_sgd NR;
       n_objective := (MSE, None) |} in
  exists gps_pre gps_mid gps_bp : list vec,
    is_derive (fun t => loss_of (sample_grad (skip_net_at cpre [] [] s1 s2 (fun t i => th1 i + t * d1 i) (fun t i => th2 i + t * d2 i) d1 n0 t)
                                              (t_single NR (x1 :: x2 :: nil), t_single NR (y :: nil)))) 0
              (pairing cpre gps_pre + pairing ((s1, (fun t i => th1 i + t * d1 i), d1) :: nil) gps_mid
               + pairing ((s2, (fun t i => th2 i + t * d2 i), d2) :: nil) gps_bp).
Proof.
  intros s0 s1 s2 cpre n0.
  destruct (@skip_model_gradient cpre [] [] s1 s2 (fun t i => th1 i + t * d1 i) (fun t i => th2 i + t * d2 i) d1 d2 n0
              eq_refl eq_refl eq_refl eq_refl 2%nat (x1 :: x2 :: nil) (y :: nil) 0 eq_refl) as (g1 & g2 & g3 & _ & _ & D).
  - cbn. repeat split; try lia; discriminate.
  - cbn. repeat split; try lia; discriminate.
  - reflexivity.
  - cbn. repeat split; try lia; discriminate.
  - reflexivity.
  - cbn. lia.
  - cbn [curves_ok cpre]. split; [|exact I]. intros k Hk. cbv beta. auto_derive; [exact I|ring].
  - cbn [curves_ok]. split; [|exact I]. intros k Hk. cbv beta. auto_derive; [exact I|ring].
  - cbn [curves_ok]. split; [|exact I]. intros k Hk. cbv beta. auto_derive; [exact I|ring].
  - cbn. split; [intros; exact I|exact I].
  - cbn. split; [intros; exact I|exact I].
  - cbn. split; [intros; exact I|exact I].
  - exists g1, g2, g3. exact D.
Qed.
