(* C16, gradient clause on the MODEL's own functions: for a dense network with one additive skip
   connection a -> b (a < b), Network.forward records the tensors of the skip network and
   Network.backward (the repaired walk of fix 5ea5be1) returns the gradients skip_grads of
   Theory/NetDerivSkip.v, which are the derivative of the objective (skip_walk_is_derivative). *)
From NV Require Import Prelude Num NumR Random Tensor Activation Objective Optimizer Layers Network Learn.
From NV.Theory Require Import Monad Lists Build RSum Adjoint Deriv Chain ChainDense C07 C01 Forward NetDeriv NetDerivObj NetDerivSkip.
Require Import Reals Lra Lia List.
From Coquelicot Require Import Coquelicot.
Import ListNotations.
Local Open Scope list_scope.
Local Open Scope R_scope.
Set Implicit Arguments.

(* ---- the step functions of Network.forward and Network.backward, named ---- *)
Definition fstep (n : network NR) (st : fwd NR) (i : nat) : res (fwd NR) :=
  let layers := n_layers n in
  do x0 <- (match last_opt (fw_post st) with Some t => Ok t | None => Panic P_unwrap end);
  do x <- (match alist_get (n_connect n) i with
           | Some src =>
               do s0 <- nth_res (fw_post st) src;
               do s <- (if shape_eqb (tshape s0) (tshape x0) then Ok s0 else reshape s0 (tshape x0));
               match n_skipacc n with
               | AccAdd => add_inplace x0 s
               | AccSub => sub_inplace x0 s
               | AccMul => mul_inplace x0 s
               | AccOverwrite => Ok s
               | AccMean => mean_inplace x0 (s :: nil)
               end
           | None => Ok x0
           end);
  do r <- forward_range (sub_layers layers i (i + 1)) x;
  Ok {| fw_pre := fw_pre st ++ fw_pre r; fw_post := fw_post st ++ fw_post r;
        fw_max := fw_max st ++ fw_max r; fw_fb := fw_fb st ++ fw_fb r |}.

Lemma forward_is_fold (n : network NR) (x : tensor NR) :
  n_loopbacks n = [] ->
  forward n x = foldM (fstep n) (seq 0 (length (n_layers n)))
                      {| fw_pre := []; fw_post := x :: nil; fw_max := []; fw_fb := [] |}.
Proof.
  intros Hl. unfold forward. rewrite Hl. apply foldM_ext. intros st i _. unfold fstep.
  destruct (last_opt (fw_post st)) as [x0|]; [|reflexivity]. cbn [bind].
  match goal with |- (do x <- ?X; _) = _ => destruct X as [xx|]; [|reflexivity] end. cbn [bind].
  destruct (forward_range _ xx) as [r|]; reflexivity.
Qed.

(* a run of layers none of which is the target of a connection *)
Lemma fwd_plain_segment (n : network NR) : forall (rest done tail : list (lspec * vec)) (st : fwd NR) d (xl : list R),
  n_layers n = map mkL (done ++ rest ++ tail) ->
  (forall i, (length done <= i < length done + length rest)%nat -> alist_get (n_connect n) i = None) ->
  last_opt (fw_post st) = Some (t_single NR xl) -> chainedS rest d -> length xl = d ->
  foldM (fstep n) (seq (length done) (length rest)) st
  = Ok {| fw_pre := fw_pre st ++ map (t_single NR) (presL rest xl);
          fw_post := fw_post st ++ map (t_single NR) (List.tl (insL rest xl) ++ match rest with [] => [] | _ => predL rest xl :: nil end);
          fw_max := fw_max st ++ repeat None (length rest); fw_fb := fw_fb st |}.
Proof.
  induction rest as [|p rest IH]; intros done tail st d xl Hlayers Hnone Hlast Hch Hxl.
  - cbn [length seq foldM presL insL List.tl map app repeat]. rewrite !app_nil_r. destruct st; reflexivity.
  - cbn [length seq foldM]. unfold fstep at 1. rewrite Hlast. cbn [bind].
    rewrite (Hnone (length done)) by (cbn [length]; lia). cbn [bind].
    destruct p as [s th]. cbn [chainedS] in Hch. destruct Hch as (Hn & Ho & Hn0 & Ha & Hch).
    assert (Esub : sub_layers (n_layers n) (length done) (length done + 1) = mkL (s, th) :: nil).
    { rewrite Hlayers, map_app. cbn [app map].
      replace (length done) with (length (map mkL done)) by apply map_length. apply sub_layers_one. }
    rewrite Esub.
    rewrite (@forward_range_dense (s, th) xl ltac:(cbn [fst]; rewrite Hxl, Hn; reflexivity) Ha).
    cbn [bind fw_pre fw_post fw_max fw_fb].
    specialize (IH (done ++ (s, th) :: nil) tail
                   {| fw_pre := fw_pre st ++ t_single NR (preL (s, th) xl) :: nil;
                      fw_post := fw_post st ++ t_single NR (outL (s, th) xl) :: nil;
                      fw_max := fw_max st ++ None :: nil; fw_fb := fw_fb st ++ [] |}
                   (ls_o s) (outL (s, th) xl)).
    rewrite app_length in IH. cbn [length] in IH. rewrite Nat.add_1_r in IH.
    rewrite IH.
    + cbn [fw_pre fw_post fw_max fw_fb presL insL List.tl map]. rewrite <- !app_assoc. cbn [app]. rewrite app_nil_r.
      assert (E1 : insL rest (outL (s, th) xl) ++ predL ((s, th) :: rest) xl :: nil
                   = outL (s, th) xl :: (List.tl (insL rest (outL (s, th) xl)) ++
                        match rest with [] => [] | _ => predL rest (outL (s, th) xl) :: nil end))
        by (destruct rest; reflexivity).
      rewrite E1. reflexivity.
    + rewrite <- app_assoc. cbn [app]. exact Hlayers.
    + intros i Hi. apply Hnone. cbn [length]. lia.
    + cbn [fw_post]. apply last_opt_app.
    + exact Hch.
    + apply length_outL.
Qed.

Lemma addL_zipk (u v : list R) : length u = length v -> zipk Rplus u v = addL u v.
Proof. intros H. unfold addL. apply zipk_map2. lia. Qed.

Lemma seg_posts (rest : list (lspec * vec)) (x : list R) :
  t_single NR x :: map (t_single NR) (List.tl (insL rest x) ++ match rest with [] => [] | _ => predL rest x :: nil end)
  = map (t_single NR) (insL rest x ++ predL rest x :: nil).
Proof. destruct rest; reflexivity. Qed.

(* the same with the activation list written as (earlier inputs) ++ [current value] *)
Lemma fwd_plain_segment' (n : network NR) (rest done tail : list (lspec * vec)) (st : fwd NR) d (xl : list R) (L0 : list (list R)) :
  n_layers n = map mkL (done ++ rest ++ tail) ->
  (forall i, (length done <= i < length done + length rest)%nat -> alist_get (n_connect n) i = None) ->
  fw_post st = map (t_single NR) (L0 ++ xl :: nil) -> chainedS rest d -> length xl = d ->
  foldM (fstep n) (seq (length done) (length rest)) st
  = Ok {| fw_pre := fw_pre st ++ map (t_single NR) (presL rest xl);
          fw_post := map (t_single NR) ((L0 ++ insL rest xl) ++ predL rest xl :: nil);
          fw_max := fw_max st ++ repeat None (length rest); fw_fb := fw_fb st |}.
Proof.
  intros Hlayers Hnone Hpost Hch Hxl.
  rewrite (@fwd_plain_segment n rest done tail st d xl Hlayers Hnone); try assumption.
  - f_equal. f_equal. rewrite Hpost. rewrite map_app. cbn [map]. rewrite <- app_assoc. cbn [app].
    rewrite seg_posts. rewrite <- map_app. rewrite app_assoc. reflexivity.
  - rewrite Hpost, map_app. cbn [map]. apply last_opt_app.
Qed.

Lemma insL_app (s1 s2 : list (lspec * vec)) x : insL (s1 ++ s2) x = insL s1 x ++ insL s2 (predL s1 x).
Proof. revert x; induction s1 as [|p s1 IH]; intros x; cbn [app insL predL]; [reflexivity|]. rewrite IH. reflexivity. Qed.

(* ---- the forward pass of the skip network ---- *)
Section SkipNet.
  Variables (pre mid post : list (lspec * vec)) (lb : lspec * vec).
  Variable n : network NR.
  Let a := length pre.
  Let b := (length pre + length mid)%nat.
  Let specs := pre ++ mid ++ lb :: post.
  Hypothesis Hlay : n_layers n = map mkL specs.
  Hypothesis Hloop : n_loopbacks n = [].
  Hypothesis Hconn : n_connect n = (b, a) :: nil.
  Hypothesis Hacc : n_skipacc n = AccAdd.
  Hypothesis Hmid : mid <> [].          (* a < b *)

  Variables (d : nat) (xl : list R).
  Hypothesis Hxl : length xl = d.
  Let da := lastD pre d.
  Hypothesis Hchp : chainedS pre d.
  Hypothesis Hchm : chainedS mid da.
  Hypothesis Hda : lastD mid da = da.
  Hypothesis Hchb : chainedS (lb :: post) da.

  Let xa := predL pre xl.
  Let xb := predL mid xa.
  Let z := addL xb xa.

  (* the tensors stored as layer inputs: layer b stores its ORDINARY input xb *)
  Definition stored_inputs : list (list R) :=
    insL pre xl ++ insL mid xa ++ xb :: insL post (outL lb z).
  Definition stored_pres : list (list R) :=
    presL pre xl ++ presL mid xa ++ presL (lb :: post) z.
  Definition skip_out : list R := predL (lb :: post) z.

  Lemma conn_get i : alist_get (n_connect n) i = if (b =? i)%nat then Some a else None.
  Proof. rewrite Hconn. cbn [alist_get]. destruct (b =? i)%nat; reflexivity. Qed.

  Lemma len_mid_pos : (0 < length mid)%nat.
  Proof. destruct mid; [contradiction|cbn [length]; lia]. Qed.
  Lemma len_xa : length xa = da.
  Proof. unfold xa. apply (@length_predL pre d xl Hchp Hxl). Qed.
  Lemma len_xb : length xb = da.
  Proof. unfold xb. rewrite (@length_predL mid da xa Hchm len_xa). exact Hda. Qed.
  Lemma len_z : length z = da.
  Proof. unfold z. apply length_addL; [exact len_xb|exact len_xa]. Qed.

  Lemma nth_stored_a : nth_error (map (t_single NR) ((insL pre xl ++ insL mid xa) ++ xb :: nil)) a = Some (t_single NR xa).
  Proof.
    apply map_nth_error. rewrite <- app_assoc. rewrite nth_error_app2 by (rewrite length_insL; unfold a; lia).
    rewrite length_insL. unfold a. rewrite Nat.sub_diag.
    destruct mid as [|p0 mid0]; [contradiction|]. reflexivity.
  Qed.

  Theorem forward_skip :
    forward n (t_single NR xl)
    = Ok {| fw_pre := map (t_single NR) stored_pres;
            fw_post := map (t_single NR) (stored_inputs ++ skip_out :: nil);
            fw_max := repeat None (length specs); fw_fb := [] |}.
  Proof.
    pose proof len_mid_pos as Hmp.
    rewrite (forward_is_fold n (t_single NR xl) Hloop). rewrite Hlay, map_length. unfold specs.
    rewrite !app_length. cbn [length].
    replace (length pre + (length mid + S (length post)))%nat
      with (length pre + (length mid + (1 + length post)))%nat by lia.
    rewrite !seq_app. cbn [seq Nat.add]. rewrite !foldM_app.
    (* layers before a *)
    rewrite (@fwd_plain_segment' n pre [] (mid ++ lb :: post) _ d xl []); try assumption; try reflexivity.
    2:{ intros i Hi. rewrite conn_get. cbn [length] in Hi.
        replace (b =? i)%nat with false; [reflexivity|]. symmetry. apply Nat.eqb_neq. unfold b. lia. }
    cbn [bind fw_pre fw_post fw_max fw_fb app length Nat.add].
    (* layers a .. b-1 *)
    rewrite foldM_app.
    rewrite (@fwd_plain_segment' n mid pre (lb :: post) _ da xa (insL pre xl)); try assumption; try reflexivity.
    2:{ intros i Hi. rewrite conn_get. replace (b =? i)%nat with false; [reflexivity|].
        symmetry. apply Nat.eqb_neq. unfold b. lia. }
    2:{ exact len_xa. }
    cbn [bind fw_pre fw_post fw_max fw_fb].
    (* layer b: the skip target *)
    fold xb.
    set (st2 := {| fw_pre := _; fw_post := map (t_single NR) ((insL pre xl ++ insL mid xa) ++ xb :: nil); fw_max := _; fw_fb := _ |}).
    assert (Hlast2 : last_opt (fw_post st2) = Some (t_single NR xb)).
    { unfold st2. cbn [fw_post]. rewrite map_app. cbn [map]. apply last_opt_app. }
    assert (Hsrc : nth_res (fw_post st2) a = Ok (t_single NR xa)).
    { unfold st2, nth_res. cbn [fw_post]. rewrite nth_stored_a. reflexivity. }
    cbn [foldM]. unfold fstep at 1. rewrite Hlast2. cbn [bind].
    rewrite conn_get. fold b. rewrite Nat.eqb_refl. rewrite Hsrc. cbn [bind].
    replace (shape_eqb (tshape (t_single NR xa)) (tshape (t_single NR xb))) with true.
    2:{ symmetry. unfold t_single. cbn [tshape shape_eqb]. apply Nat.eqb_eq. exact (eq_trans len_xa (eq_sym len_xb)). }
    cbn [bind]. rewrite Hacc.
    rewrite (@add_single xb xa (eq_trans len_xb (eq_sym len_xa))). cbn [bind].
    rewrite (@addL_zipk xb xa (eq_trans len_xb (eq_sym len_xa))). fold z.
    destruct lb as [sb thb] eqn:Elb. cbn [chainedS] in Hchb. destruct Hchb as (Hnb & Hob & Hnb0 & Hab & Hchpost).
    assert (Esub : sub_layers (n_layers n) b (b + 1) = mkL (sb, thb) :: nil).
    { unfold b. rewrite Hlay. unfold specs. rewrite app_assoc, map_app. cbn [map].
      replace (length pre + length mid)%nat with (length (map mkL (pre ++ mid))) by (rewrite map_length, app_length; reflexivity).
      apply sub_layers_one. }
    rewrite Esub.
    rewrite (@forward_range_dense (sb, thb) z ltac:(cbn [fst]; rewrite len_z, Hnb; reflexivity) Hab).
    cbn [bind fw_pre fw_post fw_max fw_fb].
    (* layers behind b *)
    replace (b + 1)%nat with (length (pre ++ mid ++ (sb, thb) :: nil)) by (unfold b; rewrite !app_length; cbn [length]; lia).
    rewrite (@fwd_plain_segment' n post (pre ++ mid ++ (sb, thb) :: nil) [] _ (ls_o sb) (outL (sb, thb) z)
               ((insL pre xl ++ insL mid xa) ++ xb :: nil)).
    - unfold st2. cbn [fw_pre fw_post fw_max fw_fb bind].
      unfold stored_pres, stored_inputs, skip_out. rewrite !Elb. cbn [presL insL predL].
      f_equal. f_equal.
      + rewrite !map_app. cbn [map app]. rewrite <- !app_assoc. reflexivity.
      + f_equal. rewrite <- !app_assoc. cbn [app]. reflexivity.
      + change (@None mpval :: nil) with (repeat (@None mpval) 1). rewrite <- !repeat_app. f_equal. lia.
    - rewrite app_nil_r. rewrite Hlay. unfold specs. rewrite <- !app_assoc. reflexivity.
    - intros i Hi. rewrite conn_get. replace (b =? i)%nat with false; [reflexivity|].
      symmetry. apply Nat.eqb_neq. unfold b. rewrite !app_length in Hi. cbn [length] in Hi. lia.
    - unfold st2. cbn [fw_post]. change (t_single NR (outL (sb, thb) z) :: nil) with (map (t_single NR) (outL (sb, thb) z :: nil)).
      rewrite <- map_app. reflexivity.
    - exact Hchpost.
    - apply length_outL.
  Qed.
End SkipNet.

(* ================= the backward pass ================= *)
Definition bstate : Type :=
  (list (tensor NR) * list (grad NR) * list (option (bgrad NR))
   * list (list (tensor NR) * list (tensor NR) * list (option maxidx)) * list (tensor NR))%type.

Definition bstep (n : network NR) (f : fwd NR) (st : bstate) (il : nat * layer NR) : res bstate :=
  let len := length (n_layers n) in
  let inv := invert_net_connect (n_connect n) in
  let '(gs, wgs, bgs, fbs, ps) := st in
  let '(i, lyr) := il in
  let idx := (len - i - 1)%nat in
  do input0 <- nth_res (fw_post f) idx;
  do input <- (match alist_get (n_connect n) idx with
               | Some src =>
                   do s0 <- nth_res (fw_post f) src;
                   do s <- (if shape_eqb (tshape s0) (tshape input0) then Ok s0
                            else reshape s0 (tshape input0));
                   match n_skipacc n with
                   | AccAdd => add_inplace input0 s
                   | AccSub => sub_inplace input0 s
                   | AccMul => mul_inplace input0 s
                   | AccOverwrite => Ok s
                   | AccMean => mean_inplace input0 (s :: nil)
                   end
               | None => Ok input0
               end);
  do output <- nth_res (fw_pre f) idx;
  do lastg <- (match last_opt gs with Some t => Ok t | None => Panic P_unwrap end);
  do mx <- nth_res (fw_max f) idx;
  let fb := match lyr with LFeedback _ => last_opt fbs | _ => None end in
  let fbs' := match lyr with LFeedback _ => removelast fbs | _ => fbs end in
  do r <- layer_backward lyr lastg input output mx fb;
  let '(g, wg, bg) := r in
  let ps' := ps ++ g :: nil in
  do g' <- (match alist_get inv idx with
            | Some tos =>
                foldM (fun gacc to =>
                         do k <- csub len to;
                         do g2 <- nth_res ps' k;
                         do g2' <- reshape g2 (tshape gacc);
                         add_inplace gacc g2') tos g
            | None => Ok g
            end);
  Ok (gs ++ g' :: nil, wgs ++ wg :: nil, bgs ++ bg :: nil, fbs', ps').

Lemma backward_is_fold (n : network NR) (g : tensor NR) (f : fwd NR) :
  backward n g f =
  (do st <- foldM (bstep n f) (combine (seq 0 (length (n_layers n))) (rev (n_layers n)))
                  (g :: nil, [], [], fw_fb f, g :: nil);
   let '(gs, wgs, bgs, _, _) := st in Ok (wgs, bgs, gs)).
Proof. reflexivity. Qed.

Lemma last_gs_of (gs0 : list (tensor NR)) (seg : list (lspec * vec)) (xl gfin : list R) :
  last_opt gs0 = Some (t_single NR gfin) ->
  let '(gin, _, gins) := gradsL seg xl gfin in
  last_opt (gs0 ++ gs_of gins) = Some (t_single NR gin).
Proof.
  intros Hlast. destruct seg as [|[s th] rest].
  - cbn [gradsL gs_of map rev]. rewrite app_nil_r. exact Hlast.
  - cbn [gradsL]. destruct (gradsL rest _ gfin) as [[gm gp] gi]. unfold gs_of. cbn [map rev].
    rewrite app_assoc. apply last_opt_app.
Qed.

(* a run of layers that are neither source nor target of a connection *)
Lemma bwd_plain_segment (n : network NR) (f : fwd NR) : forall (seg : list (lspec * vec)) (k0 : nat) (xl gfin : list R) d
    (gs0 : list (tensor NR)) ws0 bs0 fbs0 (ps0 : list (tensor NR)),
  let len := length (n_layers n) in
  (k0 + length seg <= len)%nat ->
  (forall idx, (k0 <= idx < k0 + length seg)%nat ->
     alist_get (n_connect n) idx = None /\ alist_get (invert_net_connect (n_connect n)) idx = None) ->
  chainedS seg d -> length xl = d -> length gfin = lastD seg d ->
  (forall t, (t < length seg)%nat -> nth_error (fw_post f) (k0 + t) = Some (t_single NR (nth t (insL seg xl) []))) ->
  (forall t, (t < length seg)%nat -> nth_error (fw_pre f) (k0 + t) = Some (t_single NR (nth t (presL seg xl) []))) ->
  (forall t, (t < length seg)%nat -> nth_error (fw_max f) (k0 + t) = Some None) ->
  last_opt gs0 = Some (t_single NR gfin) ->
  let '(gin, gps, gins) := gradsL seg xl gfin in
  foldM (bstep n f) (combine (seq (len - k0 - length seg) (length seg)) (rev (map mkL seg))) (gs0, ws0, bs0, fbs0, ps0)
  = Ok (gs0 ++ gs_of gins, ws0 ++ ws_of seg gps, bs0 ++ bs_of seg gps, fbs0, ps0 ++ gs_of gins).
Proof.
  induction seg as [|[s th] seg IH]; intros k0 xl0 gfin d0 gs0 ws0 bs0 fbs0 ps0 len Hle Hno Hch0 Hxl0 Hg0 Hpo Hpr Hmx Hlast.
  - cbn [gradsL length seq map rev combine foldM gs_of ws_of bs_of]. rewrite !app_nil_r. reflexivity.
  - cbn [gradsL]. cbn [chainedS lastD] in Hch0, Hg0. destruct Hch0 as (Hn & Ho & Hn0 & Ha & Hch0).
    cbn [length] in Hle.
    specialize (IH (S k0) (outL (s, th) xl0) gfin (ls_o s) gs0 ws0 bs0 fbs0 ps0 ltac:(lia)).
    pose proof (@gradsL_gin_length seg (ls_o s) (outL (s, th) xl0) gfin Hch0 Hg0) as Hglen.
    pose proof (@last_gs_of gs0 seg (outL (s, th) xl0) gfin Hlast) as Elast.
    destruct (gradsL seg (outL (s, th) xl0) gfin) as [[gmid gps] gins] eqn:Eg. cbn [fst] in Hglen.
    cbn [length map rev]. rewrite seq_S.
    rewrite combine_snoc by (rewrite seq_length, rev_length, map_length; reflexivity).
    rewrite foldM_app.
    replace (len - k0 - S (length seg))%nat with (len - S k0 - length seg)%nat by lia.
    fold len in IH. rewrite IH.
    + cbn [bind foldM]. unfold bstep at 1. fold len.
      replace (len - (len - S k0 - length seg + length seg) - 1)%nat with k0 by lia.
      destruct (Hno k0 ltac:(cbn [length]; lia)) as [Hc1 Hc2]. rewrite Hc1, Hc2.
      pose proof (Hpo 0%nat ltac:(cbn [length]; lia)) as Hp0. rewrite Nat.add_0_r in Hp0. cbn [insL nth] in Hp0.
      pose proof (Hpr 0%nat ltac:(cbn [length]; lia)) as Hr0. rewrite Nat.add_0_r in Hr0. cbn [presL nth] in Hr0.
      pose proof (Hmx 0%nat ltac:(cbn [length]; lia)) as Hm0. rewrite Nat.add_0_r in Hm0.
      unfold nth_res. rewrite Hp0, Hr0, Hm0. cbn [bind]. rewrite Elast. cbn [bind mkL fst snd layer_backward].
      pose proof (@mk_dense_backward s th xl0 gmid Ho Hn0 ltac:(congruence) Hglen Ha) as Hb. cbv zeta in Hb.
      unfold preL. cbn [fst snd].
      rewrite Hb. cbn [bind fst snd]. unfold gs_of, ws_of, bs_of. cbn [combine map rev]. rewrite !app_assoc. reflexivity.
    + intros idx Hi. apply Hno. cbn [length]. lia.
    + exact Hch0.
    + apply length_outL.
    + exact Hg0.
    + intros t Ht. specialize (Hpo (S t) ltac:(cbn [length]; lia)). cbn [insL nth] in Hpo.
      rewrite <- Hpo. f_equal. lia.
    + intros t Ht. specialize (Hpr (S t) ltac:(cbn [length]; lia)). cbn [presL nth] in Hpr.
      rewrite <- Hpr. f_equal. lia.
    + intros t Ht. specialize (Hmx (S t) ltac:(cbn [length]; lia)). rewrite <- Hmx. f_equal. lia.
    + exact Hlast.
Qed.
