(* Forward passes (C02): flat and spatial inputs agree, the dense layer's closed form, the
   deconvolution and max-pool layers in closed form, a connection-free network is the composition
   of its layers. Generic in the number structure. *)
From NV Require Import Prelude Num Random Tensor Activation Objective Optimizer Layers Network.
From NV.Theory Require Import Monad Lists Build Chunks Conv.
Set Implicit Arguments.

Section Forward.
  Variable N : Num.
  Notation T := (T N).
  Notation tensor := (tensor N).

  (* ---- a flat vector is re-chunked to exactly the tensor it was flattened from ---- *)
  Lemma chunk_input_flat3 (d : vec3 T) c h w :
    rect3 c h w d -> 0 < h -> 0 < w -> chunk_input N (flat3 d) h w = Ok d.
  Proof.
    intros [Hl Hf] Hh Hw. unfold chunk_input.
    replace (h * w =? 0) with false by (symmetry; apply Nat.eqb_neq; nia). cbn [negb bind].
    f_equal. unfold flat3.
    assert (Hhw : 0 < h * w) by nia.
    rewrite (@chunks_exact_concat_rows _ (h * w) (map (@concat T) d) Hhw).
    - rewrite map_map. rewrite <- (map_id d) at 2. apply map_ext_in. intros ch Hch.
      pose proof (proj1 (Forall_forall _ _) Hf ch Hch) as [_ Hrows].
      apply chunks_exact_concat_rows; assumption.
    - apply Forall_forall. intros r Hr. apply in_map_iff in Hr. destruct Hr as (ch & <- & Hch).
      apply length_concat_rect2. exact (proj1 (Forall_forall _ _) Hf ch Hch).
  Qed.

  Lemma conv_input_flat (d : vec3 T) c h w (x x' : tensor) :
    rect3 c h w d -> 0 < h -> 0 < w ->
    tdata x = DSingle (flat3 d) -> tdata x' = DTriple d ->
    conv_input (STriple c h w) x = conv_input (STriple c h w) x'.
  Proof.
    intros Hr Hh Hw Hx Hx'. unfold conv_input. rewrite Hx, Hx'. apply (chunk_input_flat3 Hr Hh Hw).
  Qed.

  Theorem conv_forward_flat (l : conv N) (d : vec3 T) c h w (x x' : tensor) :
    c_inputs l = STriple c h w -> rect3 c h w d -> 0 < c -> 0 < h -> 0 < w ->
    tdata x = DSingle (flat3 d) -> tdata x' = DTriple d ->
    conv_forward l x = conv_forward l x'.
  Proof.
    intros Hin Hr Hc Hh Hw Hx Hx'. unfold conv_forward. rewrite Hin.
    rewrite (conv_input_flat x x' Hr Hh Hw Hx Hx'). rewrite Hx. unfold conv_input. rewrite Hx'. cbn [bind].
    rewrite (xdims_rect3 N Hr Hc Hh). reflexivity.
  Qed.

  Theorem deconv_forward_flat (l : deconv N) (d : vec3 T) c h w (x x' : tensor) :
    dc_inputs l = STriple c h w -> rect3 c h w d -> 0 < h -> 0 < w ->
    tdata x = DSingle (flat3 d) -> tdata x' = DTriple d ->
    deconv_forward l x = deconv_forward l x'.
  Proof.
    intros Hin Hr Hh Hw Hx Hx'. unfold deconv_forward. rewrite Hin.
    rewrite (conv_input_flat x x' Hr Hh Hw Hx Hx'). reflexivity.
  Qed.

  Theorem maxpool_forward_flat (l : maxpool N) (d : vec3 T) c h w (x x' : tensor) :
    m_inputs l = STriple c h w -> rect3 c h w d -> 0 < c -> 0 < h -> 0 < w ->
    tdata x = DSingle (flat3 d) -> tdata x' = DTriple d ->
    maxpool_forward l x = maxpool_forward l x'.
  Proof.
    intros Hin Hr Hc Hh Hw Hx Hx'. unfold maxpool_forward. rewrite Hin, Hx, Hx'.
    rewrite (chunk_input_flat3 Hr Hh Hw), (xdims_rect3 N Hr Hc Hh). reflexivity.
  Qed.

  (* ---- dense: activation (W x + b) ---- *)
  Definition affine (m : vec2 T) (b : option (list T)) (v : list T) : list T :=
    let wx := map (fun row => fsum (map2 (nmul N) row v)) m in
    match b with Some bv => zipk (nadd N) wx bv | None => wx end.

  Lemma ew2_single f (a b : list T) : ew2 f (DSingle a) (DSingle b) = Ok (DSingle (zipk f a b)).
  Proof. reflexivity. Qed.

  Theorem dense_forward_spec (l : dense N) (x : tensor) m v :
    tdata (d_weights l) = DDouble m -> tdata x = DSingle v ->
    match d_bias l with
    | Some b => exists bv, tdata b = DSingle bv /\ tshape b = SSingle (length m)
    | None => True
    end ->
    exists bv,
      match d_bias l with Some b => tdata b = DSingle bv | None => True end /\
      let pre := t_single N (affine m (option_map (fun _ => bv) (d_bias l)) v) in
      dense_forward l x =
      (do post <- act_forward (d_act l) pre;
       Ok (pre, apply_dropout (d_training l) (d_dropout l) post)).
  Proof.
    intros Hw Hx Hb. unfold dense_forward, dot. rewrite Hw, Hx. cbn [bind].
    destruct (d_bias l) as [b|].
    - destruct Hb as (bv & Hbd & Hbs). exists bv. split; [exact Hbd|]. cbn [option_map].
      unfold add_inplace, binop_inplace, t_single. cbn [tshape tdata]. rewrite Hbs, map_length.
      cbn [shape_eqb]. rewrite Nat.eqb_refl. cbn [bind]. rewrite Hbd, ew2_single. cbn [bind].
      unfold affine. rewrite zipk_length, map_length. reflexivity.
    - exists []. split; [exact I|]. reflexivity.
  Qed.

  Lemma affine_map2 m bv v : length bv = length m ->
    affine m (Some bv) v = map2 (nadd N) (map (fun row => fsum (map2 (nmul N) row v)) m) bv.
  Proof. intros H. unfold affine. apply zipk_map2. rewrite map_length. lia. Qed.

  (* ---- deconvolution: every output cell gathers x[c][i][j] * K[k][c][oi+p-i*s][oj+p-j*s] ---- *)
  Theorem deconv_forward_spec (l : deconv N) (x : tensor) d ks ic ih iw kf kh kw :
    tdata x = DTriple d -> rect3 ic ih iw d ->
    mapM (@kernel_data N) (dc_kernels l) = Ok ks -> rect4 kf ic kh kw ks ->
    0 < ic -> 0 < ih -> 0 < iw -> 0 < kf -> 0 < kh ->
    2 * fst (dc_padding l) <= (ih - 1) * fst (dc_stride l) + kh ->
    2 * snd (dc_padding l) <= (iw - 1) * snd (dc_stride l) + kw ->
    deconv_forward l x =
    post_process N (dc_act l) (dc_training l) (dc_dropout l) (dc_flatten l)
      (build3 kf ((ih - 1) * fst (dc_stride l) + kh - 2 * fst (dc_padding l))
                 ((iw - 1) * snd (dc_stride l) + kw - 2 * snd (dc_padding l))
                 (deconv_cell N (dc_stride l) (dc_padding l) d ks ic ih iw kh kw)).
  Proof.
    intros Hd Hr Hks Hk Hic Hih Hiw Hkf Hkh Hp1 Hp2. unfold deconv_forward, conv_input. rewrite Hd.
    cbn [bind]. rewrite Hks. cbn [bind]. rewrite (xdims_rect3 N Hr Hic Hih). cbn [bind].
    rewrite (kdims_rect4 N Hk Hkf Hic Hkh). cbn [bind]. unfold deconv_fwd_out1, csub.
    replace (1 <=? ih) with true by (symmetry; apply Nat.leb_le; lia). cbn [bind].
    replace (2 * fst (dc_padding l) <=? (ih - 1) * fst (dc_stride l) + kh) with true
      by (symmetry; apply Nat.leb_le; lia). cbn [bind].
    replace (1 <=? iw) with true by (symmetry; apply Nat.leb_le; lia). cbn [bind].
    replace (2 * snd (dc_padding l) <=? (iw - 1) * snd (dc_stride l) + kw) with true
      by (symmetry; apply Nat.leb_le; lia). cbn [bind].
    destruct Hr as [Hl _]. replace (ic <=? length d) with true by (symmetry; apply Nat.leb_le; lia).
    reflexivity.
  Qed.

  (* ---- max-pool: each output cell scans its window, no cell is skipped ---- *)
  Definition pool_cell (x : vec3 T) (kernel : nat * nat) (c h w : nat) : T * (nat * nat) :=
    fold_left (fun (acc : T * (nat * nat)) k =>
      fold_left (fun (acc : T * (nat * nat)) l =>
        let v := get3 zero x c (h + k) (w + l) in
        if gtb v (fst acc) then (v, (h + k, w + l)) else acc) (seq 0 (snd kernel)) acc)
      (seq 0 (fst kernel)) (nfmin N, (0, 0)).

  Lemma pool_window_in_range (x : vec3 T) ih iw kh kw c h w :
    h + kh <= ih -> w + kw <= iw -> pool_window N x ih iw (kh, kw) c h w = pool_cell x (kh, kw) c h w.
  Proof.
    intros Hh Hw. unfold pool_window, pool_cell. cbn [fst snd].
    apply fold_left_ext_in. intros a k Hk. apply in_seq in Hk.
    apply fold_left_ext_in. intros a2 j Hj. apply in_seq in Hj.
    replace (h + k <? ih) with true by (symmetry; apply Nat.ltb_lt; lia).
    replace (w + j <? iw) with true by (symmetry; apply Nat.ltb_lt; lia). reflexivity.
  Qed.

  Lemma pool_guard i k s o : 0 < s -> k <= i -> o < (i - k) / s + 1 -> o * s + k <= i.
  Proof.
    intros Hs Hk Ho.
    assert (H1 : o * s <= ((i - k) / s) * s) by (apply Nat.mul_le_mono_r; lia).
    assert (H2 : ((i - k) / s) * s <= i - k) by (rewrite Nat.mul_comm; apply Nat.mul_div_le; lia).
    lia.
  Qed.

  Theorem maxpool_forward_spec (l : maxpool N) (x : tensor) d c ih iw :
    tdata x = DTriple d -> rect3 c ih iw d -> 0 < c -> 0 < ih ->
    0 < fst (m_stride l) -> 0 < snd (m_stride l) ->
    fst (m_kernel l) <= ih -> snd (m_kernel l) <= iw ->
    let oh := (ih - fst (m_kernel l)) / fst (m_stride l) + 1 in
    let ow := (iw - snd (m_kernel l)) / snd (m_stride l) + 1 in
    m_outputs l = STriple c oh ow ->
    let cell k oy ox := pool_cell d (m_kernel l) k (oy * fst (m_stride l)) (ox * snd (m_stride l)) in
    let pre := mkT (STriple c oh ow) (DTriple (build3 c oh ow (fun k oy ox => fst (cell k oy ox)))) in
    maxpool_forward l x =
    (do post <- (if m_flatten l then flatten pre else Ok pre);
     Ok (pre, post, build3 c oh ow (fun k oy ox => [snd (cell k oy ox)]))).
  Proof.
    intros Hd Hr Hc Hih Hs1 Hs2 Hk1 Hk2 oh ow Hout cell pre.
    unfold maxpool_forward. rewrite Hout, Hd. cbn [bind]. rewrite (xdims_rect3 N Hr Hc Hih). cbn [bind fst snd].
    destruct (m_kernel l) as [kh kw] eqn:Ek. destruct (m_stride l) as [sh sw] eqn:Es. cbn [fst snd] in *.
    unfold csub.
    replace (kh <=? ih) with true by (symmetry; apply Nat.leb_le; lia). cbn [bind].
    replace (sh =? 0) with false by (symmetry; apply Nat.eqb_neq; lia). cbn [negb bind].
    replace (kw <=? iw) with true by (symmetry; apply Nat.leb_le; lia). cbn [bind].
    replace (sw =? 0) with false by (symmetry; apply Nat.eqb_neq; lia). cbn [negb bind].
    fold oh ow. rewrite !Nat.leb_refl. cbn [andb]. rewrite Bool.orb_true_r. cbn [bind].
    destruct Hr as [Hl _]. replace (c <=? length d) with true by (symmetry; apply Nat.leb_le; lia). cbn [bind].
    assert (Ey : build3 c oh ow (fun k oy ox =>
                   if (oy <? oh) && (ox <? ow)
                   then fst (pool_window N d ih iw (kh, kw) k (oy * sh) (ox * sw)) else zero)
                 = build3 c oh ow (fun k oy ox => fst (cell k oy ox))).
    { apply build3_ext. intros k oy ox Hk Hoy Hox.
      replace (oy <? oh) with true by (symmetry; apply Nat.ltb_lt; lia).
      replace (ox <? ow) with true by (symmetry; apply Nat.ltb_lt; lia). cbn [andb].
      unfold cell. rewrite pool_window_in_range; [reflexivity| |]; apply pool_guard; assumption. }
    assert (Em : build3 c oh ow (fun k oy ox =>
                   if (oy <? oh) && (ox <? ow)
                   then [snd (pool_window N d ih iw (kh, kw) k (oy * sh) (ox * sw))] else [(0, 0)])
                 = build3 c oh ow (fun k oy ox => [snd (cell k oy ox)])).
    { apply build3_ext. intros k oy ox Hk Hoy Hox.
      replace (oy <? oh) with true by (symmetry; apply Nat.ltb_lt; lia).
      replace (ox <? ow) with true by (symmetry; apply Nat.ltb_lt; lia). cbn [andb].
      unfold cell. rewrite pool_window_in_range; [reflexivity| |]; apply pool_guard; assumption. }
    rewrite Ey, Em. rewrite t_triple_build3 by (unfold oh; lia). cbn [bind]. reflexivity.
  Qed.

  (* ---- a network without skip or loop connections is the composition of its layers ---- *)
  Definition layer_out (l : layer N) (x : tensor) : res tensor :=
    match l with
    | LDense d => do r <- dense_forward d x; Ok (snd r)
    | LConv c => do r <- conv_forward c x; Ok (snd r)
    | LDeconv c => do r <- deconv_forward c x; Ok (snd r)
    | LMaxpool m => do r <- maxpool_forward m x; Ok (snd (fst r))
    | LFeedback b => do r <- feedback_forward b x; Ok (fo_post r)
    end.

  Lemma last_opt_app A (l : list A) x : last_opt (l ++ [x]) = Some x.
  Proof. unfold last_opt. rewrite rev_app_distr. reflexivity. Qed.

  Lemma forward_range_single (l : layer N) (x : tensor) :
    (do f <- forward_range [l] x;
     match last_opt (fw_post f) with Some t => Ok t | None => Panic P_unwrap end) = layer_out l x.
  Proof.
    unfold forward_range. cbn [foldM fw_post last_opt rev app bind].
    destruct l as [dl|cl|dcl|ml|bl]; cbn [layer_out].
    - destruct (dense_forward dl x) as [r|e]; [|reflexivity]. reflexivity.
    - destruct (conv_forward cl x) as [r|e]; [|reflexivity]. reflexivity.
    - destruct (deconv_forward dcl x) as [r|e]; [|reflexivity]. reflexivity.
    - destruct (maxpool_forward ml x) as [r|e]; [|reflexivity]. reflexivity.
    - destruct (feedback_forward bl x) as [r|e]; [|reflexivity]. reflexivity.
  Qed.

  Lemma forward_range_single_cases (l : layer N) (x : tensor) :
    match forward_range [l] x with
    | Ok r => exists y, fw_post r = [y] /\ layer_out l x = Ok y
    | Panic e => layer_out l x = Panic e
    end.
  Proof.
    unfold forward_range. cbn [foldM fw_post last_opt rev app bind].
    destruct l as [dl|cl|dcl|ml|bl]; cbn [layer_out].
    - destruct (dense_forward dl x) as [r|e]; [|reflexivity]. cbn [bind fw_post app tl]. eexists; split; reflexivity.
    - destruct (conv_forward cl x) as [r|e]; [|reflexivity]. cbn [bind fw_post app tl]. eexists; split; reflexivity.
    - destruct (deconv_forward dcl x) as [r|e]; [|reflexivity]. cbn [bind fw_post app tl]. eexists; split; reflexivity.
    - destruct (maxpool_forward ml x) as [r|e]; [|reflexivity]. cbn [bind fw_post app tl]. eexists; split; reflexivity.
    - destruct (feedback_forward bl x) as [r|e]; [|reflexivity]. cbn [bind fw_post app tl]. eexists; split; reflexivity.
  Qed.

  Lemma sub_layers_one (done rest : list (layer N)) l :
    sub_layers (done ++ l :: rest) (length done) (length done + 1) = [l].
  Proof.
    unfold sub_layers. replace (length done + 1 - length done) with 1 by lia.
    rewrite skipn_app, Nat.sub_diag, skipn_all. reflexivity.
  Qed.

  Theorem predict_is_composition (n : network N) (x : tensor) :
    n_connect n = [] -> n_loopbacks n = [] ->
    predict n x = foldM (fun t l => layer_out l t) (n_layers n) x.
  Proof.
    intros Hc Hl. unfold predict, forward. rewrite Hc, Hl.
    set (layers := n_layers n).
    set (step := fun (st : fwd N) (i : nat) => _).
    assert (G : forall rest done st t,
               layers = done ++ rest -> last_opt (fw_post st) = Some t ->
               (do f <- foldM step (seq (length done) (length rest)) st;
                match last_opt (fw_post f) with Some t => Ok t | None => Panic P_unwrap end)
               = foldM (fun t l => layer_out l t) rest t).
    { induction rest as [|l rest IH]; intros done st t Hlay Hlast.
      - cbn [length seq foldM bind]. rewrite Hlast. reflexivity.
      - cbn [length seq foldM]. unfold step at 1. rewrite Hlast. cbn [bind alist_get].
        rewrite Hlay at 1. rewrite sub_layers_one.
        pose proof (forward_range_single_cases l t) as Hcase.
        destruct (forward_range [l] t) as [r|e].
        + destruct Hcase as (y & Hpost & Hout). rewrite Hout. cbn [bind alist_get].
          specialize (IH (done ++ [l])
                         {| fw_pre := fw_pre st ++ fw_pre r; fw_post := fw_post st ++ fw_post r;
                            fw_max := fw_max st ++ fw_max r; fw_fb := fw_fb st ++ fw_fb r |} y).
          rewrite app_length in IH. cbn [length] in IH. rewrite Nat.add_1_r in IH. apply IH.
          * rewrite <- app_assoc. exact Hlay.
          * cbn [fw_post]. rewrite Hpost. apply last_opt_app.
        + rewrite Hcase. reflexivity. }
    apply (G layers [] _ x); reflexivity.
  Qed.
End Forward.
