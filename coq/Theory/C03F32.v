(* C03, binary32 part: the square root taken by centred RMSprop is never NaN, whatever the running
   averages are (the repaired code clamps the centred second moment at zero; before the repair a
   tiny negative difference produced NaN weights, see known_findings.json). *)
From NV Require Import Prelude Num NumF32 Optimizer.
From Flocq Require Import Core BinarySingleNaN.
Require Import ZArith.

Section C03F32.
  Variable L : Libm.
  Notation N32 := (NumF32 L).

  Definition c_zero32 : f32 := f_of_Z 0.
  Lemma zero32_is : @zero N32 = c_zero32. Proof. reflexivity. Qed.
  Lemma c_zero32_val : c_zero32 = B754_zero false. Proof. vm_compute. reflexivity. Qed.

  (* max(x, 0) followed by sqrt: never NaN, for EVERY x including NaN, infinities and negatives *)
  Theorem sqrt_of_clamped_is_not_nan (x : f32) :
    is_nan (f_sqrt (@fmax N32 x zero)) = false.
  Proof.
    unfold fmax. rewrite zero32_is, c_zero32_val. cbn [nisnan nltb NumF32]. unfold f_is_nan, f_ltb, f_sqrt.
    destruct x as [s|s| |s m e Hb]; cbn [is_nan].
    - (* zero *) destruct s; reflexivity.
    - (* infinity *) destruct s; reflexivity.
    - (* NaN: ignored by max *) reflexivity.
    - (* finite *) destruct s.
      + (* negative: x < 0, the maximum is 0 *) reflexivity.
      + (* positive *)
        change (Bltb (B754_finite false m e Hb) (B754_zero false)) with false. cbv iota.
        destruct (Bsqrt_correct prec32 emax32 prec32_gt_0 prec32_lt_emax mode_NE (B754_finite false m e Hb)) as (_ & H & _).
        cbv iota in H.
        destruct (Bsqrt mode_NE (B754_finite false m e Hb)); cbn [is_finite is_nan] in *; congruence.
  Qed.
End C03F32.
