(* List lemmas behind reshape / flatten (C14) and the chunking of batches (C04). *)
From NV Require Import Prelude Num Random Tensor.
Set Implicit Arguments.

Lemma take_exact_app A (a r : list A) n :
  length a = n -> take_exact n (a ++ r) = Ok (a, r).
Proof.
  revert a; induction n as [|n IH]; intros a Ha.
  - destruct a; [reflexivity|discriminate].
  - destruct a as [|x a]; [discriminate|]. simpl in Ha. injection Ha as Ha.
    simpl. rewrite (IH a Ha). reflexivity.
Qed.

Lemma take_exact_ok A n (l a r : list A) :
  take_exact n l = Ok (a, r) -> l = a ++ r /\ length a = n.
Proof.
  revert l a r; induction n as [|n IH]; intros l a r H; simpl in H.
  - injection H as <- <-. split; reflexivity.
  - destruct l as [|x l]; [discriminate|].
    destruct (take_exact n l) as [[a' r']|] eqn:E; simpl in H; [|discriminate].
    injection H as <- <-. destruct (IH _ _ _ E) as [-> Hl]. simpl. split; congruence.
Qed.

Lemma take_exact_short A n (l : list A) :
  length l < n -> exists c, take_exact n l = Panic c.
Proof.
  revert l; induction n as [|n IH]; intros l H; [lia|].
  destruct l as [|x l]; simpl; [eexists; reflexivity|].
  simpl in H. destruct (IH l) as [c Hc]; [lia|]. rewrite Hc. eexists; reflexivity.
Qed.

Definition rect2 {A} (h w : nat) (d : list (list A)) : Prop :=
  length d = h /\ Forall (fun r => length r = w) d.
Definition rect3 {A} (c h w : nat) (d : list (list (list A))) : Prop :=
  length d = c /\ Forall (rect2 h w) d.

Lemma length_concat_rect2 A h w (d : list (list A)) :
  rect2 h w d -> length (concat d) = h * w.
Proof.
  intros [Hl Hf]. subst h. induction Hf as [|r d Hr _ IH]; simpl; [reflexivity|].
  rewrite app_length, IH, Hr. reflexivity.
Qed.

Lemma length_flat3_rect3 A c h w (d : list (list (list A))) :
  rect3 c h w d -> length (flat3 d) = c * h * w.
Proof.
  intros [Hl Hf]. subst c. unfold flat3. induction Hf as [|r d Hr _ IH]; simpl; [reflexivity|].
  rewrite app_length, IH, (length_concat_rect2 Hr). lia.
Qed.

Lemma take_rows_concat A h w (d : list (list A)) r :
  rect2 h w d -> take_rows h w (concat d ++ r) = Ok (d, r).
Proof.
  intros [Hl Hf]. subst h. induction Hf as [|row d Hr _ IH]; simpl; [reflexivity|].
  rewrite <- app_assoc, (take_exact_app _ _ Hr). simpl. rewrite IH. reflexivity.
Qed.

Lemma take_rows_ok A h w (l : list A) d r :
  take_rows h w l = Ok (d, r) -> l = concat d ++ r /\ rect2 h w d.
Proof.
  revert l d r; induction h as [|h IH]; intros l d r H; simpl in H.
  - injection H as <- <-. split; [reflexivity|split; [reflexivity|constructor]].
  - destruct (take_exact w l) as [[a r1]|] eqn:E1; simpl in H; [|discriminate].
    destruct (take_rows h w r1) as [[d' r2]|] eqn:E2; simpl in H; [|discriminate].
    injection H as <- <-.
    destruct (take_exact_ok _ _ E1) as [-> Ha].
    destruct (IH _ _ _ E2) as [-> [Hl Hf]].
    split; [simpl; rewrite app_assoc; reflexivity|].
    split; [simpl; congruence|constructor; assumption].
Qed.

Lemma take_chans_flat3 A c h w (d : list (list (list A))) r :
  rect3 c h w d -> take_chans c h w (flat3 d ++ r) = Ok (d, r).
Proof.
  intros [Hl Hf]. subst c. unfold flat3. induction Hf as [|ch d Hc _ IH]; simpl; [reflexivity|].
  rewrite <- app_assoc, (take_rows_concat _ Hc). simpl. rewrite IH. reflexivity.
Qed.

Lemma take_chans_ok A c h w (l : list A) d r :
  take_chans c h w l = Ok (d, r) -> l = flat3 d ++ r /\ rect3 c h w d.
Proof.
  revert l d r; induction c as [|c IH]; intros l d r H; simpl in H.
  - injection H as <- <-. split; [reflexivity|split; [reflexivity|constructor]].
  - destruct (take_rows h w l) as [[a r1]|] eqn:E1; simpl in H; [|discriminate].
    destruct (take_chans c h w r1) as [[d' r2]|] eqn:E2; simpl in H; [|discriminate].
    injection H as <- <-.
    destruct (take_rows_ok _ _ _ E1) as [-> Ha].
    destruct (IH _ _ _ E2) as [-> [Hl Hf]].
    split; [unfold flat3; simpl; rewrite app_assoc; reflexivity|].
    split; [simpl; congruence|constructor; assumption].
Qed.

(* a list of exactly c*h*w elements always splits *)
Lemma take_exact_enough A n (l : list A) :
  n <= length l -> exists a r, take_exact n l = Ok (a, r).
Proof.
  revert l; induction n as [|n IH]; intros l H; simpl; [eauto|].
  destruct l as [|x l]; simpl in H; [lia|].
  destruct (IH l) as (a & r & E); [lia|]. rewrite E. simpl. eauto.
Qed.

Lemma take_rows_enough A h w (l : list A) :
  h * w <= length l -> exists d r, take_rows h w l = Ok (d, r).
Proof.
  revert l; induction h as [|h IH]; intros l H; simpl; [eauto|].
  destruct (@take_exact_enough A w l) as (a & r & E); [lia|]. rewrite E. simpl.
  destruct (take_exact_ok _ _ E) as [-> Ha]. rewrite app_length in H.
  destruct (IH r) as (d & r' & E'); [lia|]. rewrite E'. simpl. eauto.
Qed.

Lemma take_chans_enough A c h w (l : list A) :
  c * h * w <= length l -> exists d r, take_chans c h w l = Ok (d, r).
Proof.
  revert l; induction c as [|c IH]; intros l H; simpl; [eauto|].
  destruct (@take_rows_enough A h w l) as (a & r & E); [lia|]. rewrite E. simpl.
  destruct (take_rows_ok _ _ _ E) as [-> Ha]. rewrite app_length, (length_concat_rect2 Ha) in H.
  destruct (IH r) as (d & r' & E'); [lia|]. rewrite E'. simpl. eauto.
Qed.

Lemma take_rows_short A h w (l : list A) :
  length l < h * w -> exists c, take_rows h w l = Panic c.
Proof.
  revert l; induction h as [|h IH]; intros l H; [simpl in H; lia|]. simpl.
  destruct (take_exact w l) as [[a r]|c0] eqn:E; simpl; [|eauto].
  destruct (take_exact_ok _ _ E) as [-> Ha]. rewrite app_length in H.
  destruct (IH r) as [c1 Hc]; [lia|]. rewrite Hc. simpl. eauto.
Qed.

Lemma take_chans_short A c h w (l : list A) :
  length l < c * h * w -> exists k, take_chans c h w l = Panic k.
Proof.
  revert l; induction c as [|c IH]; intros l H; [simpl in H; lia|]. simpl.
  destruct (take_rows h w l) as [[a r]|c0] eqn:E; simpl; [|eauto].
  destruct (take_rows_ok _ _ _ E) as [-> Ha]. rewrite app_length, (length_concat_rect2 Ha) in H.
  destruct (IH r) as [c1 Hc]; [lia|]. rewrite Hc. simpl. eauto.
Qed.
