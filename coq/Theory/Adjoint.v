(* Adjoint identities over the reals (C01): the backward passes of the convolution and the
   deconvolution, in the form they have in the model, are the transposes of the forward passes.
   Everything is stated on index functions; Theory/C01.v connects them to the model. *)
From NV Require Import Prelude Num NumR.
From NV.Theory Require Import RSum.
Require Import Reals Lra Lia List.
Import ListNotations.
Local Open Scope R_scope.
Set Implicit Arguments.

(* zero padding of one axis: position i of the padded axis *)
Definition pad1 (p n : nat) (X : nat -> R) (i : nat) : R :=
  if (p <=? i)%nat && (i - p <? n)%nat then X (i - p)%nat else 0.

(* the kernel offset h with o*s + h*d - p = y, if any (as in Convolution::backward of the model) *)
Definition tap (o s d p k y : nat) : option nat :=
  if (o * s <=? y + p)%nat && negb (d =? 0)%nat && ((y + p - o * s) mod d =? 0)%nat && ((y + p - o * s) / d <? k)%nat
  then Some ((y + p - o * s) / d)%nat else None.

Definition tapv (o s d p k y : nat) (G : nat -> R) : R :=
  match tap o s d p k y with Some h => G h | None => 0 end.

Section OneAxis.
  Variables (o s d p k n : nat).
  Hypothesis Hd : (0 < d)%nat.

  Definition ind (h y : nat) : bool := (o * s + h * d =? y + p)%nat.

  Lemma pad1_as_sum (X : nat -> R) h :
    pad1 p n X (o * s + h * d) = bsum n (fun y => if ind h y then X y else 0).
  Proof.
    unfold pad1, ind. destruct (Nat.leb_spec p (o * s + h * d)) as [Hp|Hp]; cbn [andb].
    - transitivity (bsum n (fun y => if (y =? o * s + h * d - p)%nat then X y else 0)).
      + rewrite bsum_pick. reflexivity.
      + apply bsum_ext. intros y _.
        destruct (Nat.eqb_spec y (o * s + h * d - p)); destruct (Nat.eqb_spec (o * s + h * d) (y + p)); try lia; reflexivity.
    - symmetry. apply bsum_if_false. intros y _. apply Nat.eqb_neq. lia.
  Qed.

  Lemma tapv_as_sum (G : nat -> R) y :
    tapv o s d p k y G = bsum k (fun h => if ind h y then G h else 0).
  Proof.
    unfold tapv, tap, ind.
    replace (d =? 0)%nat with false by (symmetry; apply Nat.eqb_neq; lia). cbn [negb andb]. rewrite Bool.andb_true_r.
    destruct (Nat.leb_spec (o * s) (y + p)) as [Hle|Hgt]; cbn [andb].
    - set (q := (y + p - o * s)%nat).
      destruct (Nat.eqb_spec (q mod d) 0) as [Hm|Hm]; cbn [andb].
      + assert (Hq : q = (q / d * d)%nat).
        { rewrite (Nat.div_mod q d) at 1 by lia. rewrite Hm. lia. }
        transitivity (bsum k (fun h => if (h =? q / d)%nat then G h else 0)).
        * rewrite bsum_pick. destruct (q / d <? k)%nat; reflexivity.
        * apply bsum_ext. intros h _.
          destruct (Nat.eqb_spec (o * s + h * d) (y + p)) as [He|He]; destruct (Nat.eqb_spec h (q / d)) as [Heq|Hne];
            try reflexivity; exfalso.
          -- apply Hne. assert (Hh : (h * d = q)%nat) by (subst q; lia).
             rewrite <- Hh. rewrite Nat.div_mul by lia. reflexivity.
          -- apply He. rewrite Heq. subst q. lia.
      + symmetry. apply bsum_if_false. intros h _. apply Nat.eqb_neq. intros He.
        apply Hm. assert (q = h * d)%nat by (unfold q; lia). rewrite H. apply Nat.mod_mul. lia.
    - symmetry. apply bsum_if_false. intros h _. apply Nat.eqb_neq. nia.
  Qed.

  (* one axis: sum over kernel offsets against the padded signal = sum over the signal against
     the tapped kernel *)
  Lemma axis_adjoint (G : nat -> R) (X : nat -> R) :
    bsum k (fun h => G h * pad1 p n X (o * s + h * d)) = bsum n (fun y => X y * tapv o s d p k y G).
  Proof.
    transitivity (bsum k (fun h => bsum n (fun y => if ind h y then G h * X y else 0))).
    - apply bsum_ext. intros h _. rewrite pad1_as_sum, <- bsum_scal_l. apply bsum_ext. intros y _.
      destruct (ind h y); ring.
    - rewrite bsum_swap. apply bsum_ext. intros y _. rewrite tapv_as_sum, <- bsum_scal_l.
      apply bsum_ext. intros h _. destruct (ind h y); ring.
  Qed.
End OneAxis.

(* ---- helpers: linearity of padding and tapping, triple sums ---- *)
Lemma pad1_sum p n m (c : nat -> R) (F : nat -> nat -> R) i :
  bsum m (fun w => c w * pad1 p n (F w) i) = pad1 p n (fun y => bsum m (fun w => c w * F w y)) i.
Proof.
  unfold pad1. destruct ((p <=? i)%nat && (i - p <? n)%nat); [reflexivity|].
  transitivity (bsum m (fun _ => 0)); [apply bsum_ext; intros; ring|apply bsum_zero].
Qed.

Lemma tapv_sum o s d p k y m (F : nat -> nat -> R) :
  tapv o s d p k y (fun h => bsum m (fun x => F h x)) = bsum m (fun x => tapv o s d p k y (fun h => F h x)).
Proof. unfold tapv. destruct (tap o s d p k y); [reflexivity|symmetry; apply bsum_zero]. Qed.

Lemma tapv_scal_r o s d p k y (G : nat -> R) c :
  tapv o s d p k y (fun h => G h * c) = tapv o s d p k y G * c.
Proof. unfold tapv. destruct (tap o s d p k y); ring. Qed.

Lemma tapv_ext o s d p k y (G G' : nat -> R) :
  (forall h, (h < k)%nat -> G h = G' h) -> tapv o s d p k y G = tapv o s d p k y G'.
Proof.
  intros H. unfold tapv, tap.
  destruct ((o * s <=? y + p)%nat && negb (d =? 0)%nat && ((y + p - o * s) mod d =? 0)%nat) ; cbn [andb]; [|reflexivity].
  destruct (Nat.ltb_spec ((y + p - o * s) / d) k); [apply H; assumption|reflexivity].
Qed.

Section OneAxis2.
  Variables (o s d p k n : nat).
  Hypothesis Hd : (0 < d)%nat.

  Lemma axis_adjoint2 (Z : nat -> nat -> R) :
    bsum k (fun h => pad1 p n (Z h) (o * s + h * d)) = bsum n (fun y => tapv o s d p k y (fun h => Z h y)).
  Proof.
    transitivity (bsum k (fun h => bsum n (fun y => if ind o s d p h y then Z h y else 0))).
    - apply bsum_ext. intros h _. apply pad1_as_sum. exact Hd.
    - rewrite bsum_swap. apply bsum_ext. intros y _. rewrite (tapv_as_sum o s p k Hd). reflexivity.
  Qed.
End OneAxis2.

Definition bsum3 (a b c : nat) (f : nat -> nat -> nat -> R) : R :=
  bsum a (fun i => bsum b (fun j => bsum c (fun k => f i j k))).

Lemma bsum3_ext a b c f g :
  (forall i j k, (i < a)%nat -> (j < b)%nat -> (k < c)%nat -> f i j k = g i j k) -> bsum3 a b c f = bsum3 a b c g.
Proof.
  intros H. unfold bsum3. apply bsum_ext. intros i Hi. apply bsum_ext. intros j Hj. apply bsum_ext. intros k Hk.
  apply H; assumption.
Qed.

Lemma bsum_bsum3_swap n a b c (F : nat -> nat -> nat -> nat -> R) :
  bsum n (fun x => bsum3 a b c (fun i j k => F x i j k)) = bsum3 a b c (fun i j k => bsum n (fun x => F x i j k)).
Proof.
  unfold bsum3. rewrite bsum_swap. apply bsum_ext. intros i _.
  rewrite bsum_swap. apply bsum_ext. intros j _. rewrite bsum_swap. reflexivity.
Qed.

Lemma bsum3_swap a b c a' b' c' (F : nat -> nat -> nat -> nat -> nat -> nat -> R) :
  bsum3 a b c (fun i j k => bsum3 a' b' c' (fun x y z => F i j k x y z))
  = bsum3 a' b' c' (fun x y z => bsum3 a b c (fun i j k => F i j k x y z)).
Proof.
  unfold bsum3 at 1.
  transitivity (bsum a (fun i => bsum b (fun j => bsum3 a' b' c' (fun x y z => bsum c (fun k => F i j k x y z))))).
  { apply bsum_ext. intros i _. apply bsum_ext. intros j _. apply bsum_bsum3_swap. }
  transitivity (bsum a (fun i => bsum3 a' b' c' (fun x y z => bsum b (fun j => bsum c (fun k => F i j k x y z))))).
  { apply bsum_ext. intros i _. apply bsum_bsum3_swap. }
  rewrite bsum_bsum3_swap. reflexivity.
Qed.

Lemma bsum3_scal_l a b c r f : bsum3 a b c (fun i j k => r * f i j k) = r * bsum3 a b c f.
Proof.
  unfold bsum3. rewrite <- bsum_scal_l. apply bsum_ext. intros i _. rewrite <- bsum_scal_l.
  apply bsum_ext. intros j _. apply bsum_scal_l.
Qed.

Lemma bsum3_plus a b c f g :
  bsum3 a b c (fun i j k => f i j k + g i j k) = bsum3 a b c f + bsum3 a b c g.
Proof.
  unfold bsum3. rewrite <- bsum_plus. apply bsum_ext. intros i _. rewrite <- bsum_plus.
  apply bsum_ext. intros j _. apply bsum_plus.
Qed.

(* ---- the convolution ---- *)
Section Conv2.
  Variables (s1 s2 d1 d2 p1 p2 : nat).
  Variables (kf kc kh kw ih iw oh ow : nat).
  Hypothesis Hd1 : (0 < d1)%nat.
  Hypothesis Hd2 : (0 < d2)%nat.

  Definition pad2 (X : nat -> nat -> R) (i j : nat) : R :=
    pad1 p1 ih (fun y => pad1 p2 iw (X y) j) i.

  (* forward: zero-padded, strided, dilated cross-correlation *)
  Definition convR (K : nat -> nat -> nat -> nat -> R) (X : nat -> nat -> nat -> R) (f oy ox : nat) : R :=
    bsum3 kc kh kw (fun c h w => K f c h w * pad2 (X c) (oy * s1 + h * d1) (ox * s2 + w * d2)).

  (* backward, as in the model: input gradient by taps, kernel gradient by the padded input *)
  Definition conv_igR (D : nat -> nat -> nat -> R) (K : nat -> nat -> nat -> nat -> R) (c y x : nat) : R :=
    bsum3 kf oh ow (fun f oy ox =>
      tapv oy s1 d1 p1 kh y (fun h => tapv ox s2 d2 p2 kw x (fun w => D f oy ox * K f c h w))).
  Definition conv_kgR (D : nat -> nat -> nat -> R) (X : nat -> nat -> nat -> R) (f c h w : nat) : R :=
    bsum oh (fun oy => bsum ow (fun ox => D f oy ox * pad2 (X c) (oy * s1 + h * d1) (ox * s2 + w * d2))).

  Lemma window_adjoint (g : nat -> nat -> R) (X : nat -> nat -> R) oy ox :
    bsum kh (fun h => bsum kw (fun w => g h w * pad2 X (oy * s1 + h * d1) (ox * s2 + w * d2)))
    = bsum ih (fun y => bsum iw (fun x =>
        X y x * tapv oy s1 d1 p1 kh y (fun h => tapv ox s2 d2 p2 kw x (fun w => g h w)))).
  Proof.
    unfold pad2.
    transitivity (bsum kh (fun h => pad1 p1 ih (fun y => bsum iw (fun x =>
                    tapv ox s2 d2 p2 kw x (fun w => g h w * X y x))) (oy * s1 + h * d1))).
    { apply bsum_ext. intros h _. rewrite pad1_sum. unfold pad1.
      destruct ((p1 <=? oy * s1 + h * d1)%nat && (oy * s1 + h * d1 - p1 <? ih)%nat); [|reflexivity].
      rewrite <- (axis_adjoint2 ox s2 p2 kw iw Hd2 (fun w x => g h w * X (oy * s1 + h * d1 - p1)%nat x)).
      apply bsum_ext. intros w _. unfold pad1.
      destruct ((p2 <=? ox * s2 + w * d2)%nat && (ox * s2 + w * d2 - p2 <? iw)%nat); ring. }
    rewrite (axis_adjoint2 oy s1 p1 kh ih Hd1). apply bsum_ext. intros y _.
    rewrite tapv_sum. apply bsum_ext. intros x _.
    rewrite (Rmult_comm (X y x)), <- tapv_scal_r. apply tapv_ext. intros h _.
    rewrite <- tapv_scal_r. reflexivity.
  Qed.

  Theorem conv_adjoint_input D K X :
    bsum3 kf oh ow (fun f oy ox => D f oy ox * convR K X f oy ox)
    = bsum3 kc ih iw (fun c y x => X c y x * conv_igR D K c y x).
  Proof.
    unfold convR, conv_igR.
    transitivity (bsum3 kf oh ow (fun f oy ox => bsum3 kc ih iw (fun c y x =>
        X c y x * tapv oy s1 d1 p1 kh y (fun h => tapv ox s2 d2 p2 kw x (fun w => D f oy ox * K f c h w))))).
    - apply bsum3_ext. intros f oy ox _ _ _. rewrite <- bsum3_scal_l. unfold bsum3.
      apply bsum_ext. intros c _.
      rewrite <- (window_adjoint (fun h w => D f oy ox * K f c h w) (X c) oy ox).
      apply bsum_ext. intros h _. apply bsum_ext. intros w _. ring.
    - rewrite bsum3_swap. apply bsum3_ext. intros c y x _ _ _. apply bsum3_scal_l.
  Qed.

  Theorem conv_adjoint_kernel D K' X :
    bsum3 kf oh ow (fun f oy ox => D f oy ox * convR K' X f oy ox)
    = bsum kf (fun f => bsum3 kc kh kw (fun c h w => K' f c h w * conv_kgR D X f c h w)).
  Proof.
    unfold convR, conv_kgR, bsum3 at 1. apply bsum_ext. intros f _.
    transitivity (bsum oh (fun oy => bsum ow (fun ox => bsum3 kc kh kw (fun c h w =>
        K' f c h w * (D f oy ox * pad2 (X c) (oy * s1 + h * d1) (ox * s2 + w * d2)))))).
    { apply bsum_ext. intros oy _. apply bsum_ext. intros ox _. rewrite <- bsum3_scal_l.
      apply bsum3_ext. intros; ring. }
    transitivity (bsum oh (fun oy => bsum3 kc kh kw (fun c h w => bsum ow (fun ox =>
        K' f c h w * (D f oy ox * pad2 (X c) (oy * s1 + h * d1) (ox * s2 + w * d2)))))).
    { apply bsum_ext. intros oy _. apply bsum_bsum3_swap. }
    rewrite bsum_bsum3_swap. apply bsum3_ext. intros c h w _ _ _.
    rewrite <- bsum_scal_l. apply bsum_ext. intros oy _. rewrite <- bsum_scal_l. reflexivity.
  Qed.
End Conv2.
