(* C01, max-pool: away from ties the window maxima stay at the recorded cells in a neighbourhood,
   hence the routed gradient is the derivative of the pooled output of the MODEL's forward cell. *)
From NV Require Import Prelude Num NumR Random Tensor Activation Layers.
From NV.Theory Require Import Monad Lists Build Conv Forward Pool RSum Adjoint Deriv.
Require Import Reals Lra Lia List.
From Coquelicot Require Import Coquelicot.
Import ListNotations.
Local Open Scope list_scope.
Local Open Scope R_scope.
Set Implicit Arguments.

Notation z0 := (@Num.zero NumR).

(* a strict inequality between two differentiable functions persists in a neighbourhood *)
Lemma locally_gt (f g : R -> R) h0 f' g' :
  is_derive f h0 f' -> is_derive g h0 g' -> g h0 < f h0 -> locally h0 (fun t => g t < f t).
Proof.
  intros Hf Hg Hlt.
  assert (Hc : continuous (fun t => f t - g t) h0).
  { apply (continuous_minus f g h0); apply ex_derive_continuous; eexists; eassumption. }
  assert (Hpos : locally (f h0 - g h0) (fun y => 0 < y)) by (apply (open_gt 0); lra).
  pose proof (Hc _ Hpos) as H. unfold filtermap in H. revert H. apply filter_imp. intros t Ht. lra.
Qed.

Lemma locally_forall_list A (l : list A) (P : A -> R -> Prop) h0 :
  (forall a, In a l -> locally h0 (P a)) -> locally h0 (fun t => forall a, In a l -> P a t).
Proof.
  induction l as [|a l IH]; intros H.
  - apply filter_forall. intros t a [].
  - assert (H1 : locally h0 (P a)) by (apply H; left; reflexivity).
    assert (H2 : locally h0 (fun t => forall b, In b l -> P b t)) by (apply IH; intros b Hb; apply H; right; exact Hb).
    generalize (filter_and _ _ H1 H2). apply filter_imp. intros t [Ha Hl] b [<-|Hb]; [exact Ha|apply Hl; exact Hb].
Qed.

Lemma prod_eq_dec (a b : nat * nat) : {a = b} + {a <> b}.
Proof. decide equality; apply Nat.eq_dec. Qed.

Section PoolLocal.
  Variables (kh kw : nat).

  Definition window (h w : nat) : list (nat * nat) :=
    flat_map (fun k => map (fun l => ((h + k)%nat, (w + l)%nat)) (seq 0 kw)) (seq 0 kh).

  Lemma in_window h w p : In p (window h w) <-> exists k l, (k < kh)%nat /\ (l < kw)%nat /\ p = ((h + k)%nat, (w + l)%nat).
  Proof.
    unfold window. rewrite in_flat_map. split.
    - intros (k & Hk & Hp). apply in_map_iff in Hp. destruct Hp as (l & <- & Hl).
      apply in_seq in Hk. apply in_seq in Hl. exists k, l. repeat split; lia.
    - intros (k & l & Hk & Hl & ->). exists k. split; [apply in_seq; lia|].
      apply in_map_iff. exists l. split; [reflexivity|apply in_seq; lia].
  Qed.

  (* a strict maximum above f32::MIN is what the forward cell records *)
  Lemma pool_cell_strict_max (x : vec3 R) c h w m :
    In m (window h w) ->
    nfmin NumR < get3 z0 x c (fst m) (snd m) ->
    (forall q, In q (window h w) -> q <> m -> get3 z0 x c (fst q) (snd q) < get3 z0 x c (fst m) (snd m)) ->
    pool_cell NumR x (kh, kw) c h w = (get3 z0 x c (fst m) (snd m), m).
  Proof.
    intros Hm Hmin Hstrict.
    destruct (pool_cell_is_max_R x kh kw c h w) as [Hmax Hcase].
    apply in_window in Hm. destruct Hm as (km & lm & Hkm & Hlm & Em).
    specialize (Hmax km lm Hkm Hlm). rewrite Em in *. cbn [fst snd] in *.
    destruct Hcase as [(k & l & Hk & Hl & Hs & Hf) | (Er & Hle)].
    - destruct (pool_cell NumR x (kh, kw) c h w) as [v idx]. cbn [fst snd] in *. subst idx v.
      destruct (Nat.eq_dec k km) as [->|Hne]; [destruct (Nat.eq_dec l lm) as [->|Hne]|]; [reflexivity| |].
      + exfalso. assert (Hq : In ((h + km)%nat, (w + l)%nat) (window h w)) by (apply in_window; eauto).
        specialize (Hstrict _ Hq ltac:(intros E; injection E; lia)). cbn [fst snd] in Hstrict. lra.
      + exfalso. assert (Hq : In ((h + k)%nat, (w + l)%nat) (window h w)) by (apply in_window; eauto).
        specialize (Hstrict _ Hq ltac:(intros E; injection E; lia)). cbn [fst snd] in Hstrict. lra.
    - exfalso. specialize (Hle km lm Hkm Hlm). lra.
  Qed.
End PoolLocal.

(* the gradient routed by the max-pool backward pass is the derivative of the forward cell of the
   model, at every point where each window has a strict maximum (no ties) above f32::MIN *)
Theorem maxpool_gradient_is_derivative kc ih iw oh ow kh kw sh sw
        (Xd : R -> vec3 R) (X' : nat -> nat -> nat -> R) h0 (g : nat -> nat -> nat -> R)
        (iy ix : nat -> nat -> nat -> nat) :
  (forall c y x, (c < kc)%nat -> (y < ih)%nat -> (x < iw)%nat ->
                 is_derive (fun t => get3 z0 (Xd t) c y x) h0 (X' c y x)) ->
  (forall c oy ox, (c < kc)%nat -> (oy < oh)%nat -> (ox < ow)%nat ->
     let m := (iy c oy ox, ix c oy ox) in
     (iy c oy ox < ih)%nat /\ (ix c oy ox < iw)%nat /\
     In m (window kh kw (oy * sh) (ox * sw)) /\
     (forall q, In q (window kh kw (oy * sh) (ox * sw)) -> (fst q < ih)%nat /\ (snd q < iw)%nat) /\
     nfmin NumR < get3 z0 (Xd h0) c (fst m) (snd m) /\
     (forall q, In q (window kh kw (oy * sh) (ox * sw)) -> q <> m ->
                get3 z0 (Xd h0) c (fst q) (snd q) < get3 z0 (Xd h0) c (fst m) (snd m))) ->
  is_derive (fun t => bsum3 kc oh ow (fun c oy ox =>
               g c oy ox * fst (pool_cell NumR (Xd t) (kh, kw) c (oy * sh) (ox * sw)))) h0
            (bsum3 kc ih iw (fun c a b => X' c a b * pool_igR oh ow g iy ix c a b)).
Proof.
  intros HX Hwin.
  apply (@pool_reverse_mode kc ih iw oh ow (fun t c y x => get3 z0 (Xd t) c y x) X'
           (fun t c oy ox => fst (pool_cell NumR (Xd t) (kh, kw) c (oy * sh) (ox * sw))) h0 g iy ix HX).
  intros c oy ox Hc Hoy Hox. destruct (Hwin c oy ox Hc Hoy Hox) as (H1 & H2 & Hm & Hrange & Hmin & Hstrict).
  split; [exact H1|]. split; [exact H2|].
  set (m := (iy c oy ox, ix c oy ox)) in *.
  (* near h0 the cell m stays the strict maximum above f32::MIN *)
  assert (L1 : locally h0 (fun t => nfmin NumR < get3 z0 (Xd t) c (fst m) (snd m))).
  { apply (@locally_gt (fun t => get3 z0 (Xd t) c (fst m) (snd m)) (fun _ => nfmin NumR) h0 (X' c (fst m) (snd m)) 0).
    - apply HX; assumption.
    - apply @is_derive_const.
    - exact Hmin. }
  assert (L2 : locally h0 (fun t => forall q, In q (window kh kw (oy * sh) (ox * sw)) ->
                 q <> m -> get3 z0 (Xd t) c (fst q) (snd q) < get3 z0 (Xd t) c (fst m) (snd m))).
  { apply (@locally_forall_list _ (window kh kw (oy * sh) (ox * sw))
             (fun q t => q <> m -> get3 z0 (Xd t) c (fst q) (snd q) < get3 z0 (Xd t) c (fst m) (snd m))).
    intros q Hq. destruct (Hrange q Hq) as [Hq1 Hq2].
    destruct (prod_eq_dec q m) as [E|Hne].
    - apply filter_forall. intros t Hn. contradiction.
    - generalize (@locally_gt (fun t => get3 z0 (Xd t) c (fst m) (snd m)) (fun t => get3 z0 (Xd t) c (fst q) (snd q)) h0
                    (X' c (fst m) (snd m)) (X' c (fst q) (snd q))
                    (HX c _ _ Hc H1 H2) (HX c _ _ Hc Hq1 Hq2) (Hstrict q Hq Hne)).
      apply filter_imp. intros t Ht _. exact Ht. }
  generalize (filter_and _ _ L1 L2). apply filter_imp. intros t [Ht1 Ht2].
  rewrite (@pool_cell_strict_max kh kw (Xd t) c (oy * sh) (ox * sw) m Hm Ht1 Ht2). reflexivity.
Qed.
