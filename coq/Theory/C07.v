(* C07 over the reals: each activation is its defining function and its backward pass is the
   derivative of that function; soft-max is a shift-invariant probability vector. *)
From NV Require Import Prelude Num NumR Random Tensor Activation.
Require Import Reals Lra.
From Coquelicot Require Import Coquelicot.
Local Open Scope R_scope.

Notation NR := NumR.

Lemma one_R : @Num.one NR = 1. Proof. reflexivity. Qed.
Lemma zero_R : @Num.zero NR = 0. Proof. reflexivity. Qed.

(* ---- sigmoid ---- *)
Lemma sigmoid_def x : sigmoid_f NR x = 1 / (1 + exp (- x)).
Proof. reflexivity. Qed.

Theorem sigmoid_derive x : is_derive (sigmoid_f NR) x (sigmoid_b NR x).
Proof.
  unfold sigmoid_b. rewrite sigmoid_def.
  assert (H : 1 + exp (- x) <> 0) by (pose proof (exp_pos (- x)); lra).
  evar_last.
  - apply (is_derive_ext (fun t => 1 / (1 + exp (- t)))); [intros t; reflexivity|].
    auto_derive; [exact H|reflexivity].
  - cbn [nmul nsub NumR]. rewrite one_R. field. exact H.
Qed.

Theorem sigmoid_range x : 0 < sigmoid_f NR x < 1.
Proof.
  rewrite sigmoid_def. pose proof (exp_pos (- x)) as H. split.
  - apply Rdiv_lt_0_compat; lra.
  - apply (Rmult_lt_reg_r (1 + exp (- x))); [lra|]. field_simplify; lra.
Qed.

(* ---- tanh ---- *)
Lemma tanh_b_def x : tanh_b NR x = 1 / (1 * (cosh x * cosh x)).
Proof. reflexivity. Qed.

Lemma cosh_pos x : 0 < cosh x.
Proof. unfold cosh. pose proof (exp_pos x); pose proof (exp_pos (- x)). lra. Qed.

Theorem tanh_derive x : is_derive (tanh_f NR) x (tanh_b NR x).
Proof.
  rewrite tanh_b_def.
  pose proof (exp_pos x) as E1. pose proof (exp_pos (- x)) as E2.
  assert (E : exp x * exp (- x) = 1) by (rewrite <- exp_plus; replace (x + - x) with 0 by ring; apply exp_0).
  apply (is_derive_ext (fun t => ((exp t - exp (- t)) / 2) / ((exp t + exp (- t)) / 2))); [intros t; reflexivity|].
  evar_last.
  - auto_derive; [apply Rgt_not_eq; lra|reflexivity].
  - unfold cosh. generalize dependent (exp x). generalize dependent (exp (- x)). intros b Hb a Ha Hab.
    field_simplify_eq; [|lra]. lra.
Qed.

(* ---- ReLU and leaky ReLU (away from the kink at 0) ---- *)
Lemma relu_def x : relu_f NR x = if Rlt_dec x 0 then 0 else x.
Proof. unfold relu_f, fmax. cbn [nisnan nltb NumR]. rewrite zero_R. unfold Rltb. destruct (Rlt_dec x 0); reflexivity. Qed.

Theorem relu_is_max x : relu_f NR x = Rmax 0 x.
Proof.
  rewrite relu_def. destruct (Rlt_dec x 0); [rewrite Rmax_left; lra|rewrite Rmax_right; lra].
Qed.

Theorem relu_derive_pos x : 0 < x -> is_derive (relu_f NR) x (relu_b NR x).
Proof.
  intros Hx. replace (relu_b NR x) with 1.
  2:{ unfold relu_b, gtb. cbn [nltb NumR]. rewrite zero_R. unfold Rltb. destruct (Rlt_dec 0 x); [reflexivity|contradiction]. }
  apply (is_derive_ext_loc (fun t => t)); [|auto_derive; [exact I|ring]].
  exists (mkposreal x Hx). intros t Ht. rewrite relu_def.
  unfold ball in Ht; simpl in Ht; unfold AbsRing_ball, abs, minus, plus, opp in Ht; simpl in Ht.
  apply Rabs_def2 in Ht. destruct (Rlt_dec t 0); [lra|reflexivity].
Qed.

Theorem relu_derive_neg x : x < 0 -> is_derive (relu_f NR) x (relu_b NR x).
Proof.
  intros Hx. replace (relu_b NR x) with 0.
  2:{ unfold relu_b, gtb. cbn [nltb NumR]. rewrite zero_R. unfold Rltb. destruct (Rlt_dec 0 x); [lra|reflexivity]. }
  apply (is_derive_ext_loc (fun _ => 0)); [|auto_derive; [exact I|ring]].
  assert (Hp : 0 < - x) by lra.
  exists (mkposreal (- x) Hp). intros t Ht. rewrite relu_def.
  unfold ball in Ht; simpl in Ht; unfold AbsRing_ball, abs, minus, plus, opp in Ht; simpl in Ht.
  apply Rabs_def2 in Ht. destruct (Rlt_dec t 0); [reflexivity|lra].
Qed.

Lemma leaky_def x : leaky_f NR x = if Rlt_dec 0 x then x else (1 / 100) * x.
Proof. unfold leaky_f, gtb, alpha. cbn [nltb nmul NumR]. rewrite zero_R. unfold Rltb. destruct (Rlt_dec 0 x); reflexivity. Qed.

Theorem leaky_derive_pos x : 0 < x -> is_derive (leaky_f NR) x (leaky_b NR x).
Proof.
  intros Hx. replace (leaky_b NR x) with 1.
  2:{ unfold leaky_b, gtb. cbn [nltb NumR]. rewrite zero_R. unfold Rltb. destruct (Rlt_dec 0 x); [reflexivity|contradiction]. }
  apply (is_derive_ext_loc (fun t => t)); [|auto_derive; [exact I|ring]].
  exists (mkposreal x Hx). intros t Ht. rewrite leaky_def.
  unfold ball in Ht; simpl in Ht; unfold AbsRing_ball, abs, minus, plus, opp in Ht; simpl in Ht.
  apply Rabs_def2 in Ht. destruct (Rlt_dec 0 t); [reflexivity|lra].
Qed.

Theorem leaky_derive_neg x : x < 0 -> is_derive (leaky_f NR) x (leaky_b NR x).
Proof.
  intros Hx. replace (leaky_b NR x) with (1 / 100).
  2:{ unfold leaky_b, gtb, alpha. cbn [nltb NumR]. rewrite zero_R. unfold Rltb. destruct (Rlt_dec 0 x); [lra|reflexivity]. }
  apply (is_derive_ext_loc (fun t => (1 / 100) * t)).
  - assert (Hp : 0 < - x) by lra.
    exists (mkposreal (- x) Hp). intros t Ht. rewrite leaky_def.
    unfold ball in Ht; simpl in Ht; unfold AbsRing_ball, abs, minus, plus, opp in Ht; simpl in Ht.
    apply Rabs_def2 in Ht. destruct (Rlt_dec 0 t); [lra|reflexivity].
  - auto_derive; [exact I|ring].
Qed.

(* ---- soft-max ---- *)
Lemma Rsum_map_scal (l : list R) c : Rsum (map (fun e => e / c) l) = Rsum l / c.
Proof. induction l as [|x l IH]; simpl; [unfold Rdiv; ring|rewrite IH; unfold Rdiv; ring]. Qed.

Lemma Rsum_exp_pos (l : list R) : l <> [] -> 0 < Rsum (map exp l).
Proof.
  destruct l as [|x l]; [contradiction|]. intros _. simpl.
  assert (H : 0 <= Rsum (map exp l)).
  { induction l as [|y l IH]; simpl; [lra|]. pose proof (exp_pos y). lra. }
  pose proof (exp_pos x). lra.
Qed.

(* closed form: the subtracted maximum cancels *)
Theorem softmax_closed_form (x : list R) :
  x <> [] -> softmax_list NR x = map (fun v => exp v / Rsum (map exp x)) x.
Proof.
  intros Hne. unfold softmax_list. cbn [nexp nsub nadd ndiv NumR].
  generalize (fold_left (@fmax NR) x (nneginf NR)). intros mx.
  rewrite zero_R, fold_add_Rsum, Rplus_0_l, !map_map.
  assert (Hs : forall l, Rsum (map (fun v => exp (v - mx)) l) = Rsum (map exp l) / exp mx).
  { induction l as [|v l IH]; simpl; [unfold Rdiv; ring|].
    rewrite IH. unfold Rminus. rewrite exp_plus, exp_Ropp. unfold Rdiv. ring. }
  rewrite Hs. apply map_ext. intros v.
  pose proof (@Rsum_exp_pos x Hne). pose proof (exp_pos mx).
  unfold Rminus. rewrite exp_plus, exp_Ropp. field. split; lra.
Qed.

Theorem softmax_nonneg (x : list R) : x <> [] -> List.Forall (fun p => 0 <= p) (softmax_list NR x).
Proof.
  intros Hne. rewrite (@softmax_closed_form x Hne). apply List.Forall_forall. intros p Hp.
  apply in_map_iff in Hp. destruct Hp as (v & <- & _).
  pose proof (@Rsum_exp_pos x Hne). pose proof (exp_pos v). apply Rlt_le. apply Rdiv_lt_0_compat; lra.
Qed.

Theorem softmax_sums_to_one (x : list R) : x <> [] -> Rsum (softmax_list NR x) = 1.
Proof.
  intros Hne. rewrite (@softmax_closed_form x Hne).
  rewrite <- (map_map exp (fun e => e / Rsum (map exp x))), Rsum_map_scal.
  pose proof (@Rsum_exp_pos x Hne). field. lra.
Qed.

Theorem softmax_shift_invariant (x : list R) c :
  x <> [] -> softmax_list NR (map (fun v => v + c) x) = softmax_list NR x.
Proof.
  intros Hne.
  assert (Hne' : map (fun v => v + c) x <> []) by (destruct x; [contradiction|discriminate]).
  rewrite (@softmax_closed_form _ Hne'), (@softmax_closed_form x Hne), !map_map.
  assert (Hs : Rsum (map (fun v => exp (v + c)) x) = Rsum (map exp x) * exp c).
  { clear. induction x as [|v x IH]; simpl; [ring|]. rewrite IH, exp_plus. ring. }
  rewrite Hs. apply map_ext. intros v. rewrite exp_plus.
  pose proof (@Rsum_exp_pos x Hne). pose proof (exp_pos c). field. split; lra.
Qed.
