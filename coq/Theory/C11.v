(* C11: a feedback block computes the repeated, optionally skip-combined, layer sequence.
   Generic in the number structure. *)
From NV Require Import Prelude Num Random Tensor Activation Objective Optimizer Layers Network.
From NV.Theory Require Import Monad Alist Lists Build.
Require Import FinFun.
Set Implicit Arguments.

Section C11.
  Variable N : Num.
  Notation tensor := (tensor N).
  Notation blayer := (blayer N).
  Definition fstate := (list tensor * list tensor * list (option maxidx))%type.
  Definition out3 := (tensor * tensor * option maxidx)%type.

  (* ---- the fold of feedback_forward, named ---- *)
  Definition fb_input (conn : list (nat * list nat)) (acc : accumulation) (act : list tensor)
             (i : nat) (x0 : tensor) : res tensor :=
    match alist_get conn i with
    | Some idxs => do s <- gather_sources act idxs; accumulate acc x0 s
    | None => Ok x0
    end.

  Definition fb_step conn acc (st : fstate) (il : nat * blayer) : res fstate :=
    let '(unact, act, mps) := st in
    let '(i, lyr) := il in
    do x0 <- (match last_opt act with Some t => Ok t | None => Panic P_unwrap end);
    do x <- fb_input conn acc act i x0;
    do r <- blayer_forward lyr x;
    let '(pre, post, mx) := r in
    Ok (unact ++ [pre], act ++ [post], mps ++ [mx]).

  Lemma feedback_forward_unfold (b : feedback N) (input0 : tensor) :
    feedback_forward b input0 =
    (do input <- (if shape_eqb (tshape input0) (f_inputs b) then Ok input0 else reshape input0 (f_inputs b));
     do st <- foldM (fb_step (f_connect b) (f_accumulation b))
                    (combine (seq 0 (length (f_layers b))) (f_layers b)) ([], [input], []);
     let '(unact, act, mps) := st in
     let act' := removelast act in
     do last0 <- (match last_opt act with Some t => Ok t | None => Panic P_unwrap end);
     do last1 <- fb_input (f_connect b) (f_accumulation b) act' (length (f_layers b)) last0;
     do last2 <- (if f_flatten b then flatten last1 else Ok last1);
     do pre0 <- nth_res unact 0;
     Ok {| fo_pre := pre0; fo_post := last2; fo_max := mps;
           fo_unactivated := unact; fo_activated := act' ++ [last2] |}).
  Proof. reflexivity. Qed.

  (* ---- one pass through a list of layers, recording every (pre, post, indices) ---- *)
  Fixpoint run (ls : list blayer) (x : tensor) : res (list out3) :=
    match ls with
    | [] => Ok []
    | l :: r => do o <- blayer_forward l x; do tr <- run r (snd (fst o)); Ok (o :: tr)
    end.
  Definition pres (tr : list out3) : list tensor := map (fun o => fst (fst o)) tr.
  Definition posts (tr : list out3) : list tensor := map (fun o => snd (fst o)) tr.
  Definition maxs (tr : list out3) : list (option maxidx) := map (fun o => snd o) tr.
  Definition final (x : tensor) (tr : list out3) : tensor := last (posts tr) x.

  (* the plain sequential application of the layers *)
  Definition bstep (l : blayer) (x : tensor) : res tensor :=
    do r <- blayer_forward l x; Ok (snd (fst r)).
  Definition block_apply (ls : list blayer) (x : tensor) : res tensor :=
    foldM (fun t l => bstep l t) ls x.

  Lemma run_length ls : forall x tr, run ls x = Ok tr -> length tr = length ls.
  Proof.
    induction ls as [|l ls IH]; intros x tr H; cbn [run] in H.
    - injection H as <-. reflexivity.
    - destruct (blayer_forward l x) as [o|]; [|discriminate]. cbn [bind] in H.
      destruct (run ls (snd (fst o))) as [tr'|] eqn:E; [|discriminate]. cbn [bind] in H.
      injection H as <-. cbn [length]. f_equal. eapply IH. exact E.
  Qed.

  Lemma last_cons_default A (x : A) l d : last (x :: l) d = last l x.
  Proof. revert x; induction l as [|y l IH]; intros x; [reflexivity|]. cbn [last] in *. destruct l; [reflexivity|apply IH]. Qed.

  Lemma run_final ls : forall x,
    block_apply ls x = (do tr <- run ls x; Ok (final x tr)).
  Proof.
    induction ls as [|l ls IH]; intros x; [reflexivity|].
    unfold block_apply. cbn [foldM run]. unfold bstep at 1.
    destruct (blayer_forward l x) as [o|]; [|reflexivity]. cbn [bind].
    fold (block_apply ls (snd (fst o))). rewrite IH.
    destruct (run ls (snd (fst o))) as [tr|]; [|reflexivity]. cbn [bind].
    unfold final, posts. cbn [map]. rewrite last_cons_default. reflexivity.
  Qed.

  Lemma last_opt_snoc A (l : list A) x : last_opt (l ++ [x]) = Some x.
  Proof. unfold last_opt. rewrite rev_app_distr. reflexivity. Qed.

  Lemma last_opt_last A (l : list A) x d : last_opt l = Some x -> last l d = x.
  Proof.
    destruct l as [|a l] using rev_ind; [discriminate|]. rewrite last_opt_snoc. intros H. injection H as <-.
    apply last_last.
  Qed.

  Lemma last_opt_app_posts (act : list tensor) x tr :
    last_opt act = Some x -> last_opt (act ++ posts tr) = Some (final x tr).
  Proof.
    intros H. unfold final. destruct tr as [|o tr] using rev_ind.
    - cbn [posts map last]. rewrite app_nil_r. exact H.
    - unfold posts. rewrite map_app. cbn [map]. rewrite app_assoc, last_opt_snoc, last_last. reflexivity.
  Qed.

  (* a stretch of layers none of which has a skip entry *)
  Lemma plain_fold conn acc ls : forall k unact act mps x0,
    (forall j, k <= j < k + length ls -> alist_get conn j = None) ->
    last_opt act = Some x0 ->
    foldM (fb_step conn acc) (combine (seq k (length ls)) ls) (unact, act, mps) =
    (do tr <- run ls x0; Ok (unact ++ pres tr, act ++ posts tr, mps ++ maxs tr)).
  Proof.
    induction ls as [|l ls IH]; intros k unact act mps x0 Hnone Hlast.
    - cbn [length seq combine foldM run bind pres posts maxs map]. rewrite !app_nil_r. reflexivity.
    - cbn [length seq combine foldM run]. unfold fb_step at 1. rewrite Hlast. cbn [bind].
      unfold fb_input. rewrite (Hnone k) by (cbn [length]; lia). cbn [bind].
      destruct (blayer_forward l x0) as [[[pre post] mx]|]; [|reflexivity]. cbn [bind fst snd].
      rewrite (IH (S k) _ _ _ post); [|intros j Hj; apply Hnone; cbn [length]; lia|apply last_opt_snoc].
      destruct (run ls post) as [tr|]; [|reflexivity]. cbn [bind pres posts maxs map fst snd].
      rewrite <- !app_assoc. reflexivity.
  Qed.

  (* a stretch whose first position may have a skip entry *)
  Lemma seg_fold conn acc l ls k unact act mps x0 :
    (forall j, k < j < k + S (length ls) -> alist_get conn j = None) ->
    last_opt act = Some x0 ->
    foldM (fb_step conn acc) (combine (seq k (S (length ls))) (l :: ls)) (unact, act, mps) =
    (do x <- fb_input conn acc act k x0;
     do tr <- run (l :: ls) x; Ok (unact ++ pres tr, act ++ posts tr, mps ++ maxs tr)).
  Proof.
    intros Hnone Hlast. cbn [seq combine foldM run]. unfold fb_step at 1. rewrite Hlast. cbn [bind].
    destruct (fb_input conn acc act k x0) as [x|]; [|reflexivity]. cbn [bind].
    destruct (blayer_forward l x) as [[[pre post] mx]|]; [|reflexivity]. cbn [bind fst snd].
    rewrite (@plain_fold conn acc ls (S k) _ _ _ post); [|intros j Hj; apply Hnone; lia|apply last_opt_snoc].
    destruct (run ls post) as [tr|]; [|reflexivity]. cbn [bind pres posts maxs map fst snd].
    rewrite <- !app_assoc. reflexivity.
  Qed.

  Lemma last_opt_app_posts_ne (act : list tensor) x tr :
    tr <> [] -> last_opt (act ++ posts tr) = Some (final x tr).
  Proof.
    intros Hne. unfold final. destruct tr as [|o tr] using rev_ind; [contradiction|].
    unfold posts. rewrite map_app. cbn [map]. rewrite app_assoc, last_opt_snoc, last_last. reflexivity.
  Qed.

  Lemma combine_app A B (a1 a2 : list A) (b1 b2 : list B) :
    length a1 = length b1 -> combine (a1 ++ a2) (b1 ++ b2) = combine a1 b1 ++ combine a2 b2.
  Proof.
    revert b1; induction a1 as [|x a1 IH]; intros [|y b1] H; cbn [length] in H; try discriminate; [reflexivity|].
    cbn [app combine]. f_equal. apply IH. lia.
  Qed.

  (* ---- the repetitions ---- *)
  Section Reps.
    Variables (ls : list blayer) (l0 : blayer) (ls' : list blayer).
    Hypothesis Hls : ls = l0 :: ls'.
    Variables (loops : nat) (inskips : bool) (acc : accumulation) (conn : list (nat * list nat)).
    Let len := length ls.
    Hypothesis Hin : forall j, j < loops ->
      alist_get conn (j * len) = if inskips && (1 <=? j) then Some [0] else None.
    Hypothesis Hnone : forall k, k < loops * len -> k mod len <> 0 -> alist_get conn k = None.
    Variable input : tensor.

    Fixpoint reps (n : nat) (first : bool) (cur : tensor) : res (list (list out3)) :=
      match n with
      | 0 => Ok []
      | S n' =>
          do x <- (if inskips && negb first then accumulate acc cur [input] else Ok cur);
          do tr <- run ls x;
          do rest <- reps n' false (final x tr);
          Ok (tr :: rest)
      end.

    Lemma len_pos : 0 < len.
    Proof. unfold len. rewrite Hls. cbn [length]. lia. Qed.

    Lemma reps_fold : forall n i unact act mps cur,
      i + n = loops -> length act = 1 + i * len -> nth_error act 0 = Some input ->
      last_opt act = Some cur ->
      foldM (fb_step conn acc) (combine (seq (i * len) (n * len)) (concat (repeat ls n))) (unact, act, mps) =
      (do trs <- reps n (i =? 0) cur;
       Ok (unact ++ concat (map pres trs), act ++ concat (map posts trs), mps ++ concat (map maxs trs))).
    Proof.
      pose proof len_pos as Hlen.
      assert (Elen : len = S (length ls')) by (unfold len; rewrite Hls; reflexivity).
      induction n as [|n IH]; intros i unact act mps cur Hi Hact H0 Hlast.
      - cbn [Nat.mul seq repeat concat combine foldM reps bind map]. rewrite !app_nil_r. reflexivity.
      - cbn [repeat concat reps]. replace (S n * len) with (len + n * len) by lia.
        rewrite seq_app, combine_app by (rewrite seq_length; reflexivity). rewrite foldM_app.
        assert (Hseg : forall j, i * len < j < i * len + len -> alist_get conn j = None).
        { intros j Hj. apply Hnone; [nia|].
          intros Hm. apply Nat.mod_divides in Hm; [|lia]. destruct Hm as [q Hq].
          assert (Hc : q <= i \/ S i <= q) by lia. destruct Hc as [Hc|Hc].
          - assert (len * q <= len * i) by (apply Nat.mul_le_mono_l; exact Hc). lia.
          - assert (len * S i <= len * q) by (apply Nat.mul_le_mono_l; exact Hc). lia. }
        unfold len at 2. rewrite Hls at 1 2. cbn [length].
        rewrite (@seg_fold conn acc l0 ls' (i * len) unact act mps cur); [|intros j Hj; apply Hseg; lia|exact Hlast].
        rewrite <- Hls. unfold fb_input. rewrite (Hin (j := i)) by lia.
        replace (1 <=? i) with (negb (i =? 0)) by (destruct i; reflexivity).
        assert (Hx : (if inskips && negb (i =? 0)
                      then do s <- gather_sources act [0]; accumulate acc cur s else Ok cur)
                     = (if inskips && negb (i =? 0) then accumulate acc cur [input] else Ok cur)).
        { destruct (inskips && negb (i =? 0)); [|reflexivity].
          unfold gather_sources. cbn [mapM]. unfold nth_res. rewrite H0. reflexivity. }
        destruct (inskips && negb (i =? 0)) eqn:Esk.
        + rewrite Hx. destruct (accumulate acc cur [input]) as [x|]; [|reflexivity]. cbn [bind].
          destruct (run ls x) as [tr|] eqn:Er; [|reflexivity]. cbn [bind].
          pose proof (run_length _ _ Er) as Htr.
          replace (i * len + len) with (S i * len) by lia.
          rewrite (IH (S i) _ _ _ (final x tr)); [|lia| | |].
          * cbn [Nat.eqb]. destruct (reps n false (final x tr)) as [rest|]; [|reflexivity].
            cbn [bind map concat]. rewrite <- !app_assoc. reflexivity.
          * assert (Hp : length (posts tr) = len) by (unfold posts; rewrite map_length; exact Htr).
            rewrite app_length, Hp. lia.
          * destruct act; [discriminate|]. exact H0.
          * apply last_opt_app_posts_ne. intros ->. cbn [length] in Htr. fold len in Htr. lia.
        + cbn [bind].
          destruct (run ls cur) as [tr|] eqn:Er; [|reflexivity]. cbn [bind].
          pose proof (run_length _ _ Er) as Htr.
          replace (i * len + len) with (S i * len) by lia.
          rewrite (IH (S i) _ _ _ (final cur tr)); [|lia| | |].
          * cbn [Nat.eqb]. destruct (reps n false (final cur tr)) as [rest|]; [|reflexivity].
            cbn [bind map concat]. rewrite <- !app_assoc. reflexivity.
          * assert (Hp : length (posts tr) = len) by (unfold posts; rewrite map_length; exact Htr).
            rewrite app_length, Hp. lia.
          * destruct act; [discriminate|]. exact H0.
          * apply last_opt_app_posts_ne. intros ->. cbn [length] in Htr. fold len in Htr. lia.
    Qed.

    Lemma reps_shape : forall n first cur trs,
      reps n first cur = Ok trs -> length trs = n /\ Forall (fun tr => length tr = len) trs.
    Proof.
      induction n as [|n IH]; intros first cur trs H; cbn [reps] in H.
      - injection H as <-. split; [reflexivity|constructor].
      - match type of H with bind ?X _ = _ => destruct X as [x|]; [|discriminate] end. cbn [bind] in H.
        destruct (run ls x) as [tr|] eqn:Er; [|discriminate]. cbn [bind] in H.
        destruct (reps n false (final x tr)) as [rest|] eqn:E; [|discriminate]. cbn [bind] in H.
        injection H as <-. destruct (IH _ _ _ E) as [Hl Hf]. split; [cbn [length]; lia|].
        constructor; [exact (run_length _ _ Er)|exact Hf].
    Qed.
  End Reps.

  (* the specification, one repetition unfolded *)
  Lemma reps_unfold ls inskips acc (input : tensor) n first cur :
    reps ls inskips acc input (S n) first cur =
    (do x <- (if inskips && negb first then accumulate acc cur [input] else Ok cur);
     do tr <- run ls x;
     do rest <- reps ls inskips acc input n false (final x tr);
     Ok (tr :: rest)) /\
    reps ls inskips acc input 0 first cur = Ok [].
  Proof. split; reflexivity. Qed.

  (* ---- list plumbing for the out-skip sources ---- *)
  Lemma nth_error_concat_chunk A (L : list (list A)) len q r :
    Forall (fun c => length c = len) L -> q < length L -> r < len ->
    nth_error (concat L) (q * len + r) = nth_error (nth q L []) r.
  Proof.
    intros Hf. revert q. induction Hf as [|c L Hc _ IH]; intros q Hq Hr; [cbn [length] in Hq; lia|].
    cbn [concat]. destruct q as [|q].
    - cbn [Nat.mul Nat.add nth]. apply nth_error_app1. lia.
    - cbn [nth]. rewrite nth_error_app2 by (rewrite Hc; nia).
      replace (S q * len + r - length c) with (q * len + r) by (rewrite Hc; lia).
      apply IH; [cbn [length] in Hq; lia|exact Hr].
  Qed.

  Lemma nth_error_last A (c : list A) d : c <> [] -> nth_error c (length c - 1) = Some (last c d).
  Proof.
    intros Hne. destruct c as [|x c] using rev_ind; [contradiction|].
    rewrite app_length. cbn [length]. replace (length c + 1 - 1) with (length c) by lia.
    rewrite nth_error_app2 by lia. rewrite Nat.sub_diag, last_last. reflexivity.
  Qed.

  Lemma nth_error_removelast A (l : list A) k : k + 1 < length l -> nth_error (removelast l) k = nth_error l k.
  Proof.
    intros Hk. destruct l as [|x l] using rev_ind; [cbn [length] in Hk; lia|].
    rewrite removelast_last. rewrite app_length in Hk. cbn [length] in Hk.
    rewrite nth_error_app1 by lia. reflexivity.
  Qed.

  Lemma mapM_nth_res A (l : list A) (f : nat -> A) idxs :
    (forall i, In i idxs -> nth_error l i = Some (f i)) -> mapM (nth_res l) idxs = Ok (map f idxs).
  Proof.
    induction idxs as [|i idxs IH]; intros H; [reflexivity|]. cbn [mapM map]. unfold nth_res at 1.
    rewrite (H i (or_introl eq_refl)). cbn [bind]. rewrite IH by (intros j Hj; apply H; right; exact Hj).
    reflexivity.
  Qed.

  Lemma removelast_map_seq A (g : nat -> A) a n : removelast (map g (seq a (S n))) = map g (seq a n).
  Proof. rewrite seq_S, map_app. cbn [map]. apply removelast_last. Qed.

  (* ---- what feedback_create builds ---- *)
  Definition rep_out (input : tensor) (tr : list out3) : tensor := last (posts tr) input.

  Lemma create_connect (layers : list blayer) loops inskips outskips acc (b : feedback N) :
    feedback_create layers loops inskips outskips acc = Ok b ->
    let len := length layers in
    0 < loops /\ 0 < len /\
    f_layers b = concat (repeat layers loops) /\ f_accumulation b = acc /\ f_flatten b = false /\
    (exists first rest, layers = first :: rest /\ f_inputs b = blayer_inputs first) /\
    (forall j, j < loops -> alist_get (f_connect b) (j * len) = if inskips && (1 <=? j) then Some [0] else None) /\
    (forall k, k < loops * len -> k mod len <> 0 -> alist_get (f_connect b) k = None) /\
    alist_get (f_connect b) (loops * len) =
      (if outskips && negb (loops - 1 =? 0) then Some (map (fun i => i * len) (seq 1 (loops - 1))) else None).
  Proof.
    unfold feedback_create. destruct (0 <? loops) eqn:E0; [|discriminate]. cbn [bind]. apply Nat.ltb_lt in E0.
    destruct layers as [|first rest]; [discriminate|].
    destruct (last_opt (first :: rest)) as [lst|]; [|discriminate].
    destruct (shape_eqb _ _); [|discriminate]. cbn [bind]. intros H. injection H as <-.
    cbn [f_layers f_accumulation f_flatten f_inputs f_connect].
    set (len := length (first :: rest)). assert (Hlen : 0 < len) by (unfold len; cbn [length]; lia).
    split; [exact E0|]. split; [exact Hlen|]. split; [reflexivity|]. split; [reflexivity|]. split; [reflexivity|].
    split; [exists first, rest; split; reflexivity|].
    set (ins := if inskips then map (fun i => (i * len, [0])) (seq 1 (loops - 1)) else []).
    set (outs := if outskips && negb (loops - 1 =? 0)
                 then [(loops * len, map (fun i => i * len) (seq 1 (loops - 1)))] else []).
    fold (set_all (ins ++ outs) (@nil (nat * list nat))).
    assert (Hkeys : forall k, In k (map fst (ins ++ outs)) ->
              (exists j, 1 <= j < loops /\ k = j * len /\ inskips = true) \/ k = loops * len).
    { intros k Hk. rewrite map_app in Hk. apply in_app_or in Hk. destruct Hk as [Hk|Hk].
      - left. unfold ins in Hk. destruct inskips; [|contradiction]. rewrite map_map in Hk. cbn [fst] in Hk.
        apply in_map_iff in Hk. destruct Hk as (j & <- & Hj). apply in_seq in Hj. exists j. repeat split; lia.
      - right. unfold outs in Hk. destruct (outskips && _); [|contradiction]. cbn [map fst In] in Hk.
        destruct Hk as [<-|[]]. reflexivity. }
    assert (Hnd : NoDup (map fst (ins ++ outs))).
    { rewrite map_app. apply NoDup_app_lemma.
      - unfold ins. destruct inskips; [|constructor]. rewrite map_map. cbn [fst].
        apply Injective_map_NoDup; [|apply seq_NoDup].
        intros a c Hac. nia.
      - unfold outs. destruct (outskips && _); cbn [map fst]; repeat constructor. intros [].
      - intros k Hk1 Hk2. unfold ins in Hk1. destruct inskips; [|contradiction]. rewrite map_map in Hk1. cbn [fst] in Hk1.
        apply in_map_iff in Hk1. destruct Hk1 as (j & <- & Hj). apply in_seq in Hj.
        unfold outs in Hk2. destruct (outskips && _); [|contradiction]. cbn [map fst In] in Hk2.
        destruct Hk2 as [Hk2|[]]. nia. }
    split; [|split].
    - intros j Hj. destruct (inskips && (1 <=? j)) eqn:Ei.
      + apply andb_true_iff in Ei. destruct Ei as [-> Ej]. apply Nat.leb_le in Ej.
        apply set_all_in; [exact Hnd|]. apply in_or_app. left. unfold ins.
        apply in_map_iff. exists j. split; [reflexivity|apply in_seq; lia].
      + apply set_all_other. intros Hk. apply Hkeys in Hk. destruct Hk as [(j' & Hj' & Hk & Hin)|Hk].
        * assert (j' = j) by nia. subst j'. rewrite Hin in Ei. cbn [andb] in Ei. apply Nat.leb_gt in Ei. lia.
        * nia.
    - intros k Hk Hm. apply set_all_other. intros Hin. apply Hkeys in Hin. destruct Hin as [(j & _ & -> & _)| ->].
      + apply Hm. apply Nat.mod_mul. lia.
      + lia.
    - destruct (outskips && negb (loops - 1 =? 0)) eqn:Eo.
      + apply set_all_in; [exact Hnd|]. apply in_or_app. right. unfold outs. left. reflexivity.
      + apply set_all_other. intros Hin. rewrite map_app in Hin. apply in_app_or in Hin. destruct Hin as [Hin|Hin].
        * unfold ins in Hin. destruct inskips; [|contradiction]. rewrite map_map in Hin. cbn [fst] in Hin.
          apply in_map_iff in Hin. destruct Hin as (j & Hj & Hjr). apply in_seq in Hjr.
          apply Nat.mul_cancel_r in Hj; lia.
        * unfold outs in Hin. contradiction.
  Qed.

  Lemma list_as_map_seq A (l : list A) d : map (fun i => nth (i - 1) l d) (seq 1 (length l)) = l.
  Proof.
    rewrite <- seq_shift, map_map.
    induction l as [|x l IH]; [reflexivity|]. cbn [length seq map]. f_equal.
    rewrite <- seq_shift, map_map. rewrite <- IH at 2. apply map_ext. intros i. cbn [Nat.sub nth].
    rewrite Nat.sub_0_r. destruct i; reflexivity.
  Qed.

  Lemma last_of_chunks (x : tensor) (trs : list (list out3)) len :
    0 < len -> Forall (fun tr => length tr = len) trs ->
    last_opt (x :: concat (map posts trs)) = Some (last (map (rep_out x) trs) x).
  Proof.
    intros Hlen Hf. destruct trs as [|tr trs] using rev_ind; [reflexivity|].
    apply Forall_app in Hf. destruct Hf as [_ Hf]. pose proof (Forall_inv Hf) as Htr.
    rewrite !map_app, concat_app. cbn [map concat]. rewrite app_nil_r, last_last.
    change (x :: concat (map posts trs) ++ posts tr) with ((x :: concat (map posts trs)) ++ posts tr).
    rewrite (@last_opt_app_posts_ne _ x tr); [reflexivity|]. intros ->. cbn [length] in Htr. lia.
  Qed.

  (* ---- the block computes the repeated, skip-combined layer sequence ---- *)
  Theorem feedback_forward_spec (layers : list blayer) loops inskips outskips acc (b : feedback N) fl (x : tensor) :
    feedback_create layers loops inskips outskips acc = Ok b ->
    shape_eqb (tshape x) (f_inputs b) = true ->
    feedback_forward (set_f_flatten b fl) x =
    (do trs <- reps layers inskips acc x loops true x;
     let outs := map (rep_out x) trs in
     let last0 := last outs x in
     do last1 <- (if outskips && negb (loops - 1 =? 0)
                  then accumulate acc last0 (removelast outs) else Ok last0);
     do last2 <- (if fl then flatten last1 else Ok last1);
     do pre0 <- nth_res (concat (map pres trs)) 0;
     Ok {| fo_pre := pre0; fo_post := last2; fo_max := concat (map maxs trs);
           fo_unactivated := concat (map pres trs);
           fo_activated := removelast (x :: concat (map posts trs)) ++ [last2] |}).
  Proof.
    intros Hc Hsh. destruct (create_connect _ _ _ _ _ Hc) as
      (Hloops & Hlen & Hlay & Hacc & _ & (first & rest & Hfirst & _) & Hin & Hnone & Hout).
    rewrite feedback_forward_unfold.
    cbn [set_f_flatten f_inputs f_layers f_connect f_accumulation f_flatten].
    rewrite Hsh. cbn [bind]. rewrite Hlay, Hacc.
    set (len := length layers) in *.
    assert (Hl : length (concat (repeat layers loops)) = loops * len).
    { clear. induction loops as [|n IH]; [reflexivity|]. cbn [repeat concat]. rewrite app_length, IH. lia. }
    rewrite Hl.
    pose proof (@reps_fold layers first rest Hfirst loops inskips acc (f_connect b) Hin Hnone x loops 0
                           [] [x] [] x ltac:(lia) ltac:(reflexivity) ltac:(reflexivity) ltac:(reflexivity)) as Hfold.
    cbn [Nat.mul Nat.eqb] in Hfold. unfold len. rewrite Hfold. clear Hfold. fold len.
    destruct (reps layers inskips acc x loops true x) as [trs|] eqn:Er; [|reflexivity].
    cbn [bind app]. destruct (reps_shape _ _ _ _ _ _ _ Er) as [Hn Hf]. fold len in Hf.
    rewrite (last_of_chunks x Hlen Hf). cbn [bind].
    set (outs := map (rep_out x) trs).
    assert (Hsrc : fb_input (f_connect b) acc (removelast (x :: concat (map posts trs))) (loops * len) (last outs x)
                   = (if outskips && negb (loops - 1 =? 0)
                      then accumulate acc (last outs x) (removelast outs) else Ok (last outs x))).
    { unfold fb_input. rewrite Hout. destruct (outskips && negb (loops - 1 =? 0)); [|reflexivity].
      unfold gather_sources.
      rewrite (@mapM_nth_res _ _ (fun k => rep_out x (nth (k / len - 1) trs [])) ).
      - cbn [bind]. f_equal. rewrite map_map.
        destruct loops as [|n]; [lia|]. replace (S n - 1) with n by lia.
        unfold outs.
        replace (map (rep_out x) trs) with (map (rep_out x) (map (fun i => nth (i - 1) trs []) (seq 1 (length trs))))
          by (rewrite list_as_map_seq; reflexivity).
        rewrite Hn, map_map, removelast_map_seq.
        apply map_ext_in. intros i Hi. rewrite Nat.div_mul by lia. reflexivity.
      - intros k Hk. apply in_map_iff in Hk. destruct Hk as (i & <- & Hi). apply in_seq in Hi.
        rewrite Nat.div_mul by lia.
        assert (Hlenall : length (x :: concat (map posts trs)) = 1 + loops * len).
        { assert (Hcl : length (concat (map posts trs)) = length trs * len).
          { clear -Hf. induction Hf as [|tr trs Htr _ IH]; [reflexivity|].
            assert (Hp : length (posts tr) = len) by (unfold posts; rewrite map_length; exact Htr).
            cbn [map concat length]. rewrite app_length, IH, Hp. lia. }
          cbn [length]. rewrite Hcl, Hn. lia. }
        rewrite nth_error_removelast by (rewrite Hlenall; nia).
        assert (Hpos : i * len = S ((i - 1) * len + (len - 1))) by nia.
        rewrite Hpos. cbn [nth_error].
        rewrite (@nth_error_concat_chunk _ (map posts trs) len (i - 1) (len - 1));
          [| |rewrite map_length; lia|lia].
        + change (@nil tensor) with (posts []). rewrite map_nth.
          assert (Hin' : In (nth (i - 1) trs []) trs) by (apply nth_In; lia).
          pose proof (proj1 (Forall_forall _ _) Hf _ Hin') as Htr.
          assert (Hp : length (posts (nth (i - 1) trs [])) = len) by (unfold posts; rewrite map_length; exact Htr).
          rewrite <- Hp at 1. apply nth_error_last. intros E. rewrite E in Hp. cbn [length] in Hp. lia.
        + apply Forall_forall. intros c Hc'. apply in_map_iff in Hc'. destruct Hc' as (tr & <- & Htr).
          unfold posts. rewrite map_length. exact (proj1 (Forall_forall _ _) Hf _ Htr). }
    rewrite Hsrc. reflexivity.
  Qed.

  (* ---- without skips: the L-fold repeated application of the layer sequence ---- *)
  Fixpoint iterM (n : nat) (f : tensor -> res tensor) (x : tensor) : res tensor :=
    match n with 0 => Ok x | S n' => do y <- f x; iterM n' f y end.

  Lemma final_rep_out (x input : tensor) tr : tr <> [] -> final x tr = rep_out input tr.
  Proof.
    intros Hne. unfold final, rep_out. destruct tr as [|o tr] using rev_ind; [contradiction|].
    unfold posts. rewrite map_app. cbn [map]. rewrite !last_last. reflexivity.
  Qed.

  Lemma reps_noskip (layers : list blayer) acc input : layers <> [] -> forall n first cur,
    (do trs <- reps layers false acc input n first cur; Ok (last (map (rep_out input) trs) cur))
    = iterM n (block_apply layers) cur.
  Proof.
    intros Hne. induction n as [|n IH]; intros first cur; [reflexivity|].
    cbn [reps iterM andb bind]. rewrite run_final.
    destruct (run layers cur) as [tr|] eqn:Er; [|reflexivity]. cbn [bind].
    rewrite <- IH with (first := false).
    destruct (reps layers false acc input n false (final cur tr)) as [rest|]; [|reflexivity]. cbn [bind map].
    rewrite last_cons_default.
    assert (Htr : tr <> []).
    { intros ->. apply run_length in Er. destruct layers; [contradiction|discriminate]. }
    rewrite (final_rep_out cur input Htr). reflexivity.
  Qed.

  Theorem feedback_noskip_is_iterate (layers : list blayer) loops acc (b : feedback N) fl (x : tensor) :
    feedback_create layers loops false false acc = Ok b ->
    shape_eqb (tshape x) (f_inputs b) = true ->
    (do o <- feedback_forward (set_f_flatten b fl) x; Ok (fo_post o)) =
    (do y <- iterM loops (block_apply layers) x; if fl then flatten y else Ok y).
  Proof.
    intros Hc Hsh. rewrite (@feedback_forward_spec layers loops false false acc b fl x Hc Hsh).
    destruct (create_connect _ _ _ _ _ Hc) as (Hloops & Hlen & _).
    assert (Hne : layers <> []) by (intros ->; cbn [length] in Hlen; lia).
    rewrite <- (reps_noskip acc x Hne loops true x).
    destruct (reps layers false acc x loops true x) as [trs|] eqn:Er; [|reflexivity].
    cbn [bind andb].
    destruct (if fl then flatten _ else Ok _) as [l2|]; [|reflexivity]. cbn [bind].
    destruct (reps_shape _ _ _ _ _ _ _ Er) as [Hn Hf].
    destruct trs as [|tr trs]; [cbn [length] in Hn; lia|].
    pose proof (Forall_inv Hf) as Htr. destruct tr as [|o tr]; [cbn [length] in Htr; lia|].
    reflexivity.
  Qed.

  (* the five accumulations, spelled out for one and for several sources *)
  Lemma accumulate_one acc (x s : tensor) :
    accumulate acc x [s] =
    match acc with
    | AccAdd => add_inplace x s
    | AccSub => sub_inplace x s
    | AccMul => mul_inplace x s
    | AccOverwrite => Ok s
    | AccMean => mean_inplace x [s]
    end.
  Proof.
    destruct acc; cbn [accumulate foldM last_opt rev app]; try reflexivity.
    - destruct (add_inplace x s); reflexivity.
    - destruct (sub_inplace x s); reflexivity.
    - destruct (mul_inplace x s); reflexivity.
  Qed.

  Lemma accumulate_many acc (x : tensor) srcs :
    accumulate acc x srcs =
    match acc with
    | AccAdd => foldM (@add_inplace N) srcs x
    | AccSub => foldM (@sub_inplace N) srcs x
    | AccMul => foldM (@mul_inplace N) srcs x
    | AccOverwrite => match last_opt srcs with Some s => Ok s | None => Panic P_unwrap end
    | AccMean => mean_inplace x srcs
    end.
  Proof. reflexivity. Qed.

  (* a dense layer after a spatial block: the block is told to flatten *)
  Theorem add_dense_after_feedback seeds (n : network N) outputs a bias dropout n' p rest c h w :
    n_layers n = rest ++ [LFeedback p] -> f_outputs p = STriple c h w ->
    add_dense seeds n outputs a bias dropout = Ok n' ->
    exists l : dense N, n_layers n' = rest ++ [LFeedback (set_f_flatten p true); LDense l] /\
                        d_inputs l = SSingle (c * h * w).
  Proof.
    intros Hl Ho. unfold add_dense. rewrite Hl, last_opt_snoc. rewrite Ho. cbn [bind fst snd].
    destruct (dense_create N seeds (SSingle (c * h * w)) (SSingle outputs) a bias dropout) as [l|] eqn:Ec; [|discriminate].
    cbn [bind]. intros H. injection H as <-. exists l. cbn [set_layers n_layers].
    rewrite removelast_last. split; [reflexivity|].
    unfold dense_create in Ec. cbn [random_tensor bind] in Ec.
    destruct bias; cbn [bind] in Ec; injection Ec as <-; reflexivity.
  Qed.
End C11.
