(* Derivatives of the layer operators over the reals (C01): for differentiable curves of
   parameters and inputs, the derivative of <g, activation(layer output)> is the pairing of the
   tangents with exactly the gradients the backward pass computes. *)
From NV Require Import Prelude Num NumR.
From NV.Theory Require Import RSum Adjoint.
Require Import Reals Lra Lia List.
From Coquelicot Require Import Coquelicot.
Import ListNotations.
Local Open Scope R_scope.
Set Implicit Arguments.

Lemma is_derive_bsum n (f : nat -> R -> R) (f' : nat -> R) x :
  (forall i, (i < n)%nat -> is_derive (f i) x (f' i)) ->
  is_derive (fun t => bsum n (fun i => f i t)) x (bsum n f').
Proof.
  intros H. induction n as [|n IH].
  - apply (is_derive_ext (fun _ => 0)); [intros t; reflexivity|]. apply @is_derive_const.
  - apply (is_derive_ext (fun t => bsum n (fun i => f i t) + f n t)); [intros t; rewrite bsum_S; reflexivity|].
    rewrite bsum_S. apply @is_derive_plus; [apply IH; intros i Hi; apply H; lia|apply H; lia].
Qed.

Lemma is_derive_bsum3 a b c (f : nat -> nat -> nat -> R -> R) (f' : nat -> nat -> nat -> R) x :
  (forall i j k, (i < a)%nat -> (j < b)%nat -> (k < c)%nat -> is_derive (f i j k) x (f' i j k)) ->
  is_derive (fun t => bsum3 a b c (fun i j k => f i j k t)) x (bsum3 a b c f').
Proof.
  intros H. unfold bsum3. apply is_derive_bsum. intros i Hi. apply is_derive_bsum. intros j Hj.
  apply is_derive_bsum. intros k Hk. apply H; assumption.
Qed.

Lemma is_derive_pad1 p n (X : R -> nat -> R) (X' : nat -> R) i x :
  (forall y, (y < n)%nat -> is_derive (fun t => X t y) x (X' y)) ->
  is_derive (fun t => pad1 p n (X t) i) x (pad1 p n X' i).
Proof.
  intros H. unfold pad1. destruct (Nat.leb_spec p i) as [Hp|Hp]; cbn [andb].
  - destruct (Nat.ltb_spec (i - p) n) as [Hn|Hn]; [apply H; exact Hn|apply @is_derive_const].
  - apply @is_derive_const.
Qed.

Section ConvDeriv.
  Variables (s1 s2 d1 d2 p1 p2 : nat).
  Variables (kf kc kh kw ih iw oh ow : nat).
  Hypothesis Hd1 : (0 < d1)%nat.
  Hypothesis Hd2 : (0 < d2)%nat.

  Lemma is_derive_pad2 (X : R -> nat -> nat -> R) (X' : nat -> nat -> R) i j x :
    (forall y z, (y < ih)%nat -> (z < iw)%nat -> is_derive (fun t => X t y z) x (X' y z)) ->
    is_derive (fun t => pad2 p1 p2 ih iw (X t) i j) x (pad2 p1 p2 ih iw X' i j).
  Proof.
    intros H. unfold pad2. apply (@is_derive_pad1 p1 ih (fun t y => pad1 p2 iw (X t y) j) (fun y => pad1 p2 iw (X' y) j)).
    intros y Hy. apply (@is_derive_pad1 p2 iw (fun t z => X t y z) (X' y)). intros z Hz. apply H; assumption.
  Qed.

  Notation convR := (convR s1 s2 d1 d2 p1 p2 kc kh kw ih iw).
  Notation conv_igR := (conv_igR s1 s2 d1 d2 p1 p2 kf kh kw oh ow).
  Notation conv_kgR := (conv_kgR s1 s2 d1 d2 p1 p2 ih iw oh ow).

  (* the pre-activation is bilinear in kernels and input *)
  Lemma convR_derive (K : R -> nat -> nat -> nat -> nat -> R) (X : R -> nat -> nat -> nat -> R) K' X' h0 f oy ox :
    (forall c h w, (c < kc)%nat -> (h < kh)%nat -> (w < kw)%nat ->
                   is_derive (fun t => K t f c h w) h0 (K' f c h w)) ->
    (forall c y x, (c < kc)%nat -> (y < ih)%nat -> (x < iw)%nat ->
                   is_derive (fun t => X t c y x) h0 (X' c y x)) ->
    is_derive (fun t => convR (K t) (X t) f oy ox) h0
              (convR K' (X h0) f oy ox + convR (K h0) X' f oy ox).
  Proof.
    intros HK HX. unfold Adjoint.convR. rewrite <- bsum3_plus.
    apply is_derive_bsum3. intros c h w Hc Hh Hw.
    apply (is_derive_mult (fun t => K t f c h w)
                          (fun t => pad2 p1 p2 ih iw (X t c) (oy * s1 + h * d1) (ox * s2 + w * d2))).
    - apply HK; assumption.
    - apply (@is_derive_pad2 (fun t => X t c) (X' c)). intros y z Hy Hz. apply HX; assumption.
    - intros a b. apply Rmult_comm.
  Qed.

  (* Reverse mode for the convolution layer: g is the gradient arriving from the next layer, phi
     the activation with derivative phi' at the pre-activations; D = g * phi'(pre) is the delta
     of the model; the kernel and input gradients of the model pair with the tangents to give
     the derivative of <g, phi(pre)>. *)
  Theorem conv_reverse_mode (K : R -> nat -> nat -> nat -> nat -> R) (X : R -> nat -> nat -> nat -> R) K' X' h0
          (g : nat -> nat -> nat -> R) (phi phi' : R -> R) :
    (forall f c h w, (f < kf)%nat -> (c < kc)%nat -> (h < kh)%nat -> (w < kw)%nat ->
                     is_derive (fun t => K t f c h w) h0 (K' f c h w)) ->
    (forall c y x, (c < kc)%nat -> (y < ih)%nat -> (x < iw)%nat ->
                   is_derive (fun t => X t c y x) h0 (X' c y x)) ->
    (forall f oy ox, (f < kf)%nat -> (oy < oh)%nat -> (ox < ow)%nat ->
                     is_derive phi (convR (K h0) (X h0) f oy ox) (phi' (convR (K h0) (X h0) f oy ox))) ->
    let D := fun f oy ox => g f oy ox * phi' (convR (K h0) (X h0) f oy ox) in
    is_derive (fun t => bsum3 kf oh ow (fun f oy ox => g f oy ox * phi (convR (K t) (X t) f oy ox))) h0
              (bsum kf (fun f => bsum3 kc kh kw (fun c h w => K' f c h w * conv_kgR D (X h0) f c h w))
               + bsum3 kc ih iw (fun c y x => X' c y x * conv_igR D (K h0) c y x)).
  Proof.
    intros HK HX Hphi D.
    rewrite <- (conv_adjoint_kernel s1 s2 d1 d2 p1 p2 kf kc kh kw ih iw oh ow D K' (X h0)).
    rewrite <- (conv_adjoint_input s1 s2 p1 p2 kf kc kh kw ih iw oh ow Hd1 Hd2 D (K h0) X').
    rewrite <- bsum3_plus.
    apply is_derive_bsum3. intros f oy ox Hf Hoy Hox.
    replace (D f oy ox * convR K' (X h0) f oy ox + D f oy ox * convR (K h0) X' f oy ox)
      with (g f oy ox * ((convR K' (X h0) f oy ox + convR (K h0) X' f oy ox) * phi' (convR (K h0) (X h0) f oy ox)))
      by (unfold D; ring).
    apply (is_derive_scal (fun t => phi (convR (K t) (X t) f oy ox)) h0 (g f oy ox)).
    apply (is_derive_comp phi (fun t => convR (K t) (X t) f oy ox)).
    - apply Hphi; assumption.
    - apply convR_derive; [intros c h w Hc Hh Hw; apply HK; assumption|exact HX].
  Qed.
End ConvDeriv.

(* ---- dense layer ---- *)
Section DenseDeriv.
  Variables (o n : nat).

  Definition affR (W : nat -> nat -> R) (B : nat -> R) (x : nat -> R) (i : nat) : R :=
    bsum n (fun j => W i j * x j) + B i.

  Theorem dense_reverse_mode (W : R -> nat -> nat -> R) (B : R -> nat -> R) (X : R -> nat -> R) W' B' X' h0
          (g : nat -> R) (phi phi' : R -> R) :
    (forall i j, (i < o)%nat -> (j < n)%nat -> is_derive (fun t => W t i j) h0 (W' i j)) ->
    (forall i, (i < o)%nat -> is_derive (fun t => B t i) h0 (B' i)) ->
    (forall j, (j < n)%nat -> is_derive (fun t => X t j) h0 (X' j)) ->
    (forall i, (i < o)%nat ->
               is_derive phi (affR (W h0) (B h0) (X h0) i) (phi' (affR (W h0) (B h0) (X h0) i))) ->
    let D := fun i => g i * phi' (affR (W h0) (B h0) (X h0) i) in
    is_derive (fun t => bsum o (fun i => g i * phi (affR (W t) (B t) (X t) i))) h0
              (bsum o (fun i => bsum n (fun j => W' i j * (D i * X h0 j)))      (* <weight gradient, W'> *)
               + bsum o (fun i => B' i * D i)                                    (* <bias gradient, B'> *)
               + bsum n (fun j => X' j * bsum o (fun i => W h0 i j * D i))).     (* <input gradient, X'> *)
  Proof.
    intros HW HB HX Hphi D.
    assert (E : bsum n (fun j => X' j * bsum o (fun i => W h0 i j * D i))
                = bsum o (fun i => bsum n (fun j => D i * (W h0 i j * X' j)))).
    { rewrite bsum_swap. apply bsum_ext. intros j _. rewrite <- bsum_scal_l. apply bsum_ext. intros i _. ring. }
    rewrite E, <- !bsum_plus.
    apply is_derive_bsum. intros i Hi.
    replace (bsum n (fun j => W' i j * (D i * X h0 j)) + B' i * D i + bsum n (fun j => D i * (W h0 i j * X' j)))
      with (g i * ((bsum n (fun j => W' i j * X h0 j + W h0 i j * X' j) + B' i) * phi' (affR (W h0) (B h0) (X h0) i))).
    2:{ unfold D. rewrite bsum_plus.
        replace (bsum n (fun j => W' i j * (g i * phi' (affR (W h0) (B h0) (X h0) i) * X h0 j)))
          with (g i * phi' (affR (W h0) (B h0) (X h0) i) * bsum n (fun j => W' i j * X h0 j))
          by (rewrite <- bsum_scal_l; apply bsum_ext; intros; ring).
        replace (bsum n (fun j => g i * phi' (affR (W h0) (B h0) (X h0) i) * (W h0 i j * X' j)))
          with (g i * phi' (affR (W h0) (B h0) (X h0) i) * bsum n (fun j => W h0 i j * X' j))
          by (rewrite <- bsum_scal_l; reflexivity).
        ring. }
    apply (is_derive_scal (fun t => phi (affR (W t) (B t) (X t) i)) h0 (g i)).
    apply (is_derive_comp phi (fun t => affR (W t) (B t) (X t) i)); [apply Hphi; exact Hi|].
    unfold affR. apply @is_derive_plus; [|apply HB; exact Hi].
    apply is_derive_bsum. intros j Hj.
    apply (is_derive_mult (fun t => W t i j) (fun t => X t j)); [apply HW; assumption|apply HX; assumption|].
    intros a b. apply Rmult_comm.
  Qed.
End DenseDeriv.

(* ---- deconvolution: the transposed convolution ---- *)
Lemma is_derive_tapv o s d p k y (G : R -> nat -> R) (G' : nat -> R) x :
  (forall h, (h < k)%nat -> is_derive (fun t => G t h) x (G' h)) ->
  is_derive (fun t => tapv o s d p k y (G t)) x (tapv o s d p k y G').
Proof.
  intros H. unfold tapv, tap.
  destruct ((o * s <=? y + p)%nat && negb (d =? 0)%nat && ((y + p - o * s) mod d =? 0)%nat); cbn [andb];
    [|apply @is_derive_const].
  destruct (Nat.ltb_spec ((y + p - o * s) / d) k) as [Hk|Hk]; [apply H; exact Hk|apply @is_derive_const].
Qed.

Section DeconvDeriv.
  Variables (s1 s2 p1 p2 : nat).
  (* kf filters (output channels), kc input channels, input ih x iw, output oh x ow *)
  Variables (kf kc kh kw ih iw oh ow : nat).

  Definition swapK (K : nat -> nat -> nat -> nat -> R) : nat -> nat -> nat -> nat -> R :=
    fun a b h w => K b a h w.

  (* forward: every input cell (c,i,j) reaches output cell (oi,oj) through the kernel tap
     (oi + p - i*s, oj + p - j*s), when that tap exists *)
  Definition deconvR (K : nat -> nat -> nat -> nat -> R) (X : nat -> nat -> nat -> R) (k oi oj : nat) : R :=
    conv_igR s1 s2 1 1 p1 p2 kc kh kw ih iw X (swapK K) k oi oj.
  (* backward, as in the model *)
  Definition deconv_igR (D : nat -> nat -> nat -> R) (K : nat -> nat -> nat -> nat -> R) (c h w : nat) : R :=
    convR s1 s2 1 1 p1 p2 kf kh kw oh ow (swapK K) D c h w.
  Definition deconv_kgR (D : nat -> nat -> nat -> R) (X : nat -> nat -> nat -> R) (f c i j : nat) : R :=
    conv_kgR s1 s2 1 1 p1 p2 oh ow ih iw X D c f i j.

  (* the deconvolution is the adjoint of the convolution with the same stride and padding *)
  Theorem deconv_is_transposed_conv K X Y :
    bsum3 kf oh ow (fun k oi oj => Y k oi oj * deconvR K X k oi oj)
    = bsum3 kc ih iw (fun c i j => X c i j * convR s1 s2 1 1 p1 p2 kf kh kw oh ow (swapK K) Y c i j).
  Proof.
    unfold deconvR. symmetry.
    apply (conv_adjoint_input s1 s2 p1 p2 kc kf kh kw oh ow ih iw Nat.lt_0_1 Nat.lt_0_1 X (swapK K) Y).
  Qed.

  Lemma deconvR_derive (K : R -> nat -> nat -> nat -> nat -> R) (X : R -> nat -> nat -> nat -> R) K' X' h0 k oi oj :
    (forall c h w, (c < kc)%nat -> (h < kh)%nat -> (w < kw)%nat ->
                   is_derive (fun t => K t k c h w) h0 (K' k c h w)) ->
    (forall c y x, (c < kc)%nat -> (y < ih)%nat -> (x < iw)%nat ->
                   is_derive (fun t => X t c y x) h0 (X' c y x)) ->
    is_derive (fun t => deconvR (K t) (X t) k oi oj) h0
              (deconvR K' (X h0) k oi oj + deconvR (K h0) X' k oi oj).
  Proof.
    intros HK HX. unfold deconvR, conv_igR. rewrite <- bsum3_plus.
    apply is_derive_bsum3. intros c i j Hc Hi Hj.
    assert (E : tapv i s1 1 p1 kh oi (fun h => tapv j s2 1 p2 kw oj (fun w => X h0 c i j * swapK K' c k h w))
                + tapv i s1 1 p1 kh oi (fun h => tapv j s2 1 p2 kw oj (fun w => X' c i j * swapK (K h0) c k h w))
                = tapv i s1 1 p1 kh oi (fun h => tapv j s2 1 p2 kw oj (fun w =>
                    X' c i j * K h0 k c h w + X h0 c i j * K' k c h w))).
    { unfold tapv, swapK. destruct (tap i s1 1 p1 kh oi); [|ring]. destruct (tap j s2 1 p2 kw oj); ring. }
    rewrite E.
    apply (@is_derive_tapv i s1 1 p1 kh oi
             (fun t h => tapv j s2 1 p2 kw oj (fun w => X t c i j * swapK (K t) c k h w))
             (fun h => tapv j s2 1 p2 kw oj (fun w => X' c i j * K h0 k c h w + X h0 c i j * K' k c h w))).
    intros h Hh.
    apply (@is_derive_tapv j s2 1 p2 kw oj (fun t w => X t c i j * swapK (K t) c k h w)
                           (fun w => X' c i j * K h0 k c h w + X h0 c i j * K' k c h w)).
    intros w Hw. unfold swapK.
    apply (is_derive_mult (fun t => X t c i j) (fun t => K t k c h w)); [apply HX; assumption|apply HK; assumption|].
    intros a b. apply Rmult_comm.
  Qed.

  Theorem deconv_reverse_mode (K : R -> nat -> nat -> nat -> nat -> R) (X : R -> nat -> nat -> nat -> R) K' X' h0
          (g : nat -> nat -> nat -> R) (phi phi' : R -> R) :
    (forall f c h w, (f < kf)%nat -> (c < kc)%nat -> (h < kh)%nat -> (w < kw)%nat ->
                     is_derive (fun t => K t f c h w) h0 (K' f c h w)) ->
    (forall c y x, (c < kc)%nat -> (y < ih)%nat -> (x < iw)%nat ->
                   is_derive (fun t => X t c y x) h0 (X' c y x)) ->
    (forall k oi oj, (k < kf)%nat -> (oi < oh)%nat -> (oj < ow)%nat ->
                     is_derive phi (deconvR (K h0) (X h0) k oi oj) (phi' (deconvR (K h0) (X h0) k oi oj))) ->
    let D := fun k oi oj => g k oi oj * phi' (deconvR (K h0) (X h0) k oi oj) in
    is_derive (fun t => bsum3 kf oh ow (fun k oi oj => g k oi oj * phi (deconvR (K t) (X t) k oi oj))) h0
              (bsum kc (fun c => bsum3 kf kh kw (fun f i j => K' f c i j * deconv_kgR D (X h0) f c i j))
               + bsum3 kc ih iw (fun c h w => X' c h w * deconv_igR D (K h0) c h w)).
  Proof.
    intros HK HX Hphi D.
    assert (E1 : bsum3 kc ih iw (fun c h w => X' c h w * deconv_igR D (K h0) c h w)
                 = bsum3 kf oh ow (fun k oi oj => D k oi oj * deconvR (K h0) X' k oi oj)).
    { symmetry. apply deconv_is_transposed_conv. }
    assert (E2 : bsum kc (fun c => bsum3 kf kh kw (fun f i j => K' f c i j * deconv_kgR D (X h0) f c i j))
                 = bsum3 kf oh ow (fun k oi oj => D k oi oj * deconvR K' (X h0) k oi oj)).
    { rewrite deconv_is_transposed_conv.
      rewrite (conv_adjoint_kernel s1 s2 1 1 p1 p2 kc kf kh kw oh ow ih iw (X h0) (swapK K') D).
      reflexivity. }
    rewrite E1, E2, <- bsum3_plus.
    apply is_derive_bsum3. intros k oi oj Hk Hoi Hoj.
    replace (D k oi oj * deconvR K' (X h0) k oi oj + D k oi oj * deconvR (K h0) X' k oi oj)
      with (g k oi oj * ((deconvR K' (X h0) k oi oj + deconvR (K h0) X' k oi oj) * phi' (deconvR (K h0) (X h0) k oi oj)))
      by (unfold D; ring).
    apply (is_derive_scal (fun t => phi (deconvR (K t) (X t) k oi oj)) h0 (g k oi oj)).
    apply (is_derive_comp phi (fun t => deconvR (K t) (X t) k oi oj)).
    - apply Hphi; assumption.
    - apply deconvR_derive; [intros c h w Hc Hh Hw; apply HK; assumption|exact HX].
  Qed.
End DeconvDeriv.

(* ---- max-pool ---- *)
Section PoolDeriv.
  Variables (kc ih iw oh ow : nat).

  (* backward, as in the model with loop factor 1: every output cell routes its gradient to the
     recorded input cell *)
  Definition pool_igR (g : nat -> nat -> nat -> R) (iy ix : nat -> nat -> nat -> nat) (c a b : nat) : R :=
    bsum oh (fun oy => bsum ow (fun ox =>
      if (iy c oy ox =? a)%nat && (ix c oy ox =? b)%nat then g c oy ox else 0)).

  Lemma pick2 (F : nat -> nat -> R) a0 b0 :
    (a0 < ih)%nat -> (b0 < iw)%nat ->
    bsum ih (fun a => bsum iw (fun b => if (a0 =? a)%nat && (b0 =? b)%nat then F a b else 0)) = F a0 b0.
  Proof.
    intros Ha Hb.
    transitivity (bsum ih (fun a => if (a =? a0)%nat then bsum iw (fun b => if (b =? b0)%nat then F a b else 0) else 0)).
    - apply bsum_ext. intros a _. rewrite (Nat.eqb_sym a0 a). destruct (a =? a0)%nat; cbn [andb].
      + apply bsum_ext. intros b _. rewrite (Nat.eqb_sym b0 b). reflexivity.
      + apply bsum_zero.
    - rewrite bsum_pick. replace (a0 <? ih)%nat with true by (symmetry; apply Nat.ltb_lt; exact Ha).
      rewrite bsum_pick. replace (b0 <? iw)%nat with true by (symmetry; apply Nat.ltb_lt; exact Hb). reflexivity.
  Qed.

  (* "away from ties": near h0 the window maxima stay at the recorded positions *)
  Theorem pool_reverse_mode (X : R -> nat -> nat -> nat -> R) X' (Y : R -> nat -> nat -> nat -> R) h0
          (g : nat -> nat -> nat -> R) (iy ix : nat -> nat -> nat -> nat) :
    (forall c y x, (c < kc)%nat -> (y < ih)%nat -> (x < iw)%nat ->
                   is_derive (fun t => X t c y x) h0 (X' c y x)) ->
    (forall c oy ox, (c < kc)%nat -> (oy < oh)%nat -> (ox < ow)%nat ->
                     (iy c oy ox < ih)%nat /\ (ix c oy ox < iw)%nat /\
                     locally h0 (fun t => Y t c oy ox = X t c (iy c oy ox) (ix c oy ox))) ->
    is_derive (fun t => bsum3 kc oh ow (fun c oy ox => g c oy ox * Y t c oy ox)) h0
              (bsum3 kc ih iw (fun c a b => X' c a b * pool_igR g iy ix c a b)).
  Proof.
    intros HX HY.
    assert (E : bsum3 kc ih iw (fun c a b => X' c a b * pool_igR g iy ix c a b)
                = bsum3 kc oh ow (fun c oy ox => g c oy ox * X' c (iy c oy ox) (ix c oy ox))).
    { unfold bsum3. apply bsum_ext. intros c Hc. unfold pool_igR.
      transitivity (bsum ih (fun a => bsum iw (fun b => bsum oh (fun oy => bsum ow (fun ox =>
         if (iy c oy ox =? a)%nat && (ix c oy ox =? b)%nat then g c oy ox * X' c a b else 0))))).
      { apply bsum_ext. intros a _. apply bsum_ext. intros b _. rewrite <- bsum_scal_l.
        apply bsum_ext. intros oy _. rewrite <- bsum_scal_l. apply bsum_ext. intros ox _.
        destruct ((iy c oy ox =? a)%nat && (ix c oy ox =? b)%nat); ring. }
      transitivity (bsum oh (fun oy => bsum ow (fun ox => bsum ih (fun a => bsum iw (fun b =>
         if (iy c oy ox =? a)%nat && (ix c oy ox =? b)%nat then g c oy ox * X' c a b else 0))))).
      { transitivity (bsum ih (fun a => bsum oh (fun oy => bsum iw (fun b => bsum ow (fun ox =>
           if (iy c oy ox =? a)%nat && (ix c oy ox =? b)%nat then g c oy ox * X' c a b else 0))))).
        { apply bsum_ext. intros a _. apply bsum_swap. }
        rewrite bsum_swap. apply bsum_ext. intros oy _.
        transitivity (bsum ih (fun a => bsum ow (fun ox => bsum iw (fun b =>
           if (iy c oy ox =? a)%nat && (ix c oy ox =? b)%nat then g c oy ox * X' c a b else 0)))).
        { apply bsum_ext. intros a _. apply bsum_swap. }
        apply bsum_swap. }
      apply bsum_ext. intros oy Hoy. apply bsum_ext. intros ox Hox.
      destruct (HY c oy ox Hc Hoy Hox) as (H1 & H2 & _).
      apply (pick2 (fun a b => g c oy ox * X' c a b) H1 H2). }
    rewrite E. apply is_derive_bsum3. intros c oy ox Hc Hoy Hox.
    destruct (HY c oy ox Hc Hoy Hox) as (H1 & H2 & Hloc).
    apply (is_derive_ext_loc (fun t => g c oy ox * X t c (iy c oy ox) (ix c oy ox))).
    - apply (filter_imp (fun t => Y t c oy ox = X t c (iy c oy ox) (ix c oy ox))); [|exact Hloc].
      intros t Ht. rewrite Ht. reflexivity.
    - apply (is_derive_scal (fun t => X t c (iy c oy ox) (ix c oy ox)) h0 (g c oy ox)). apply HX; assumption.
  Qed.
End PoolDeriv.

(* ---- soft-max output under the cross-entropy objective ---- *)
Section SoftmaxCE.
  Variable n : nat.

  Definition smR (z : nat -> R) (i : nat) : R := exp (z i) / bsum n (fun j => exp (z j)).
  (* cross-entropy of the soft-max outputs: - sum_i t_i ln p_i *)
  Definition ce_smR (tg : nat -> R) (z : nat -> R) : R := - bsum n (fun i => tg i * ln (smR z i)).

  Lemma sum_exp_pos (z : nat -> R) : (0 < n)%nat -> 0 < bsum n (fun j => exp (z j)).
  Proof.
    intros Hn. destruct n as [|m]; [lia|]. clear Hn. induction m as [|m IH].
    - rewrite bsum_S, bsum_0. pose proof (exp_pos (z 0%nat)). lra.
    - rewrite bsum_S. pose proof (exp_pos (z (S m))). lra.
  Qed.

  (* with targets summing to one, the gradient with respect to the logits is p - t: the value the
     library propagates (objective gradient p - t times a soft-max "derivative" of one) *)
  Theorem softmax_ce_gradient (Z : R -> nat -> R) Z' h0 (tg : nat -> R) :
    (0 < n)%nat -> bsum n tg = 1 ->
    (forall i, (i < n)%nat -> is_derive (fun t => Z t i) h0 (Z' i)) ->
    is_derive (fun t => ce_smR tg (Z t)) h0 (bsum n (fun i => Z' i * (smR (Z h0) i - tg i))).
  Proof.
    intros Hn Ht HZ.
    set (S := fun t => bsum n (fun j => exp (Z t j))).
    assert (HS : forall t, 0 < S t) by (intros t; apply sum_exp_pos; exact Hn).
    (* ln p_i = z_i - ln S *)
    assert (Eform : forall t, ce_smR tg (Z t) = - (bsum n (fun i => tg i * Z t i) - ln (S t))).
    { intros t. unfold ce_smR. f_equal.
      transitivity (bsum n (fun i => tg i * Z t i - tg i * ln (S t))).
      - apply bsum_ext. intros i _. unfold smR. fold (S t).
        unfold Rdiv. rewrite ln_mult; [|apply exp_pos|apply Rinv_0_lt_compat; apply HS].
        rewrite ln_exp, ln_Rinv by apply HS. ring.
      - transitivity (bsum n (fun i => tg i * Z t i + (- ln (S t)) * tg i)); [apply bsum_ext; intros; ring|].
        rewrite bsum_plus, bsum_scal_l, Ht. ring. }
    apply (is_derive_ext (fun t => - (bsum n (fun i => tg i * Z t i) - ln (S t)))); [intros t; symmetry; apply Eform|].
    assert (HdS : is_derive S h0 (bsum n (fun j => Z' j * exp (Z h0 j)))).
    { apply is_derive_bsum. intros j Hj.
      apply (is_derive_comp exp (fun t => Z t j)); [|apply HZ; exact Hj].
      apply is_derive_Reals, derivable_pt_lim_exp. }
    replace (bsum n (fun i => Z' i * (smR (Z h0) i - tg i)))
      with (- (bsum n (fun i => tg i * Z' i) - bsum n (fun j => Z' j * exp (Z h0 j)) / S h0)).
    2:{ transitivity (bsum n (fun i => Z' i * exp (Z h0 i) * / S h0) - bsum n (fun i => tg i * Z' i)).
        - rewrite bsum_scal_r. unfold Rdiv. ring.
        - rewrite <- bsum_minus. apply bsum_ext. intros i _. unfold smR. fold (S h0). unfold Rdiv. ring. }
    apply @is_derive_opp. apply @is_derive_minus.
    - apply is_derive_bsum. intros i Hi. apply (is_derive_scal (fun t => Z t i) h0 (tg i)). apply HZ. exact Hi.
    - replace (bsum n (fun j => Z' j * exp (Z h0 j)) / S h0)
        with (bsum n (fun j => Z' j * exp (Z h0 j)) * / S h0) by reflexivity.
      apply (is_derive_comp ln S); [|exact HdS].
      apply is_derive_Reals, derivable_pt_lim_ln. apply HS.
  Qed.
End SoftmaxCE.
