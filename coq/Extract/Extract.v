(* Extraction of the binary32 driver. Only ExtrOcamlBasic is used: bool, option, unit, list,
   prod, sumbool map to OCaml's; Z, positive, nat and the floats stay extracted inductives. *)
From NV Require Import NumF32 Driver.
Require Import ExtrOcamlBasic.
Extraction Language OCaml.
Extraction "model.ml" run_case Build_Libm.
