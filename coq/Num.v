(* The number structure over which the whole model is generic.
   NumF32 (Flocq binary32 + libm oracle) is the instance tied to the Rust code;
   NumR (Coq reals) is the instance the formula/derivative theorems speak about;
   NumZ is an exact instance for vm_compute witnesses. *)
From NV Require Import Prelude.

Record Num : Type := {
  T : Type;
  nofZ : Z -> T;                 (* integer literal / `as f32` conversion *)
  nnzero : T;                     (* -0.0 : start value of Rust's `Sum<f32>` *)
  nneginf : T;                   (* f32::NEG_INFINITY *)
  nfmin : T;                      (* f32::MIN *)
  nadd : T -> T -> T;
  nsub : T -> T -> T;
  nmul : T -> T -> T;
  ndiv : T -> T -> T;
  nneg : T -> T;
  nabs : T -> T;
  nsqrt : T -> T;
  nexp : T -> T;
  nln : T -> T;
  ntanh : T -> T;
  ncosh : T -> T;
  npowf2 : T -> T;                (* x.powf(2.0) *)
  nltb : T -> T -> bool;
  nleb : T -> T -> bool;
  neqb : T -> T -> bool;
  nisnan : T -> bool;
  ntoZ : T -> Z;                 (* `as usize`-style truncation: NaN and negatives give 0 *)
}.

Section Derived.
  Variable N : Num.
  Notation T := (T N).

  Definition zero : T := nofZ N 0.
  Definition one : T := nofZ N 1.
  Definition two : T := nofZ N 2.
  Definition of_nat (n : nat) : T := nofZ N (Z.of_nat n).
  (* decimal literal p/q, correctly rounded for exactly representable p and q *)
  Definition ratio (p q : Z) : T := ndiv N (nofZ N p) (nofZ N q).

  Definition gtb (a b : T) : bool := nltb N b a.

  (* Rust f32::max / f32::min (maxNum: a NaN operand is ignored; on ties the first wins) *)
  Definition fmax (a b : T) : T :=
    if nisnan N a then b else if nisnan N b then a else if nltb N a b then b else a.

  Definition fminn (a b : T) : T :=
    if nisnan N a then b else if nisnan N b then a else if nltb N b a then b else a.

  (* Rust f32::clamp(lo, hi) for lo <= hi: two comparisons *)
  Definition clamp (x lo hi : T) : T :=
    let x1 := if nltb N x lo then lo else x in
    if nltb N hi x1 then hi else x1.

  (* compiler-rt __powisf2 for a positive exponent: square and multiply *)
  Fixpoint powi_pos (a : T) (p : positive) : T -> T :=
    fun r =>
    match p with
    | xH => nmul N r a
    | xO p' => powi_pos (nmul N a a) p' r
    | xI p' => powi_pos (nmul N a a) p' (nmul N r a)
    end.
  Definition powi (a : T) (n : Z) : T :=
    match n with
    | Z0 => one
    | Zpos p => powi_pos a p one
    | Zneg p => ndiv N one (powi_pos a p one)
    end.

  (* iter.sum::<f32>() : left fold starting from -0.0 *)
  Definition fsum (l : list T) : T := fold_left (nadd N) l (nnzero N).
End Derived.

Arguments zero {N}.
Arguments one {N}.
Arguments two {N}.
Arguments of_nat {N} n.
Arguments ratio {N} p q.
Arguments gtb {N} a b.
Arguments fmax {N} a b.
Arguments fminn {N} a b.
Arguments clamp {N} x lo hi.
Arguments powi {N} a n.
Arguments fsum {N} l.
