(* src/optimizer.rs : SGD, SGDM, Adam, AdamW, RMSprop.
   State is indexed [layer][filter][bias] as in the Rust code. *)
From NV Require Import Prelude Num Random Tensor.
Set Implicit Arguments.

Section Optimizer.
  Variable N : Num.
  Notation T := (T N).
  Notation tensor := (tensor N).

  Definition slots := list (list (list tensor)).

  Record sgd_t := { sgd_lr : T; sgd_decay : option T }.
  Record sgdm_t := { sgdm_lr : T; sgdm_momentum : T; sgdm_dampening : T; sgdm_decay : option T;
                     sgdm_velocity : slots }.
  Record adam_t := { adam_lr : T; adam_b1 : T; adam_b2 : T; adam_eps : T; adam_decay : option T;
                     adam_velocity : slots; adam_momentum : slots }.
  Record adamw_t := { adamw_lr : T; adamw_b1 : T; adamw_b2 : T; adamw_eps : T; adamw_decay : T;
                      adamw_velocity : slots; adamw_momentum : slots }.
  Record rms_t := { rms_lr : T; rms_alpha : T; rms_eps : T; rms_decay : option T;
                    rms_momentum : option T; rms_centered : bool;
                    rms_velocity : slots; rms_gradient : slots; rms_buffer : slots }.

  Inductive optimizer :=
  | OSGD (o : sgd_t) | OSGDM (o : sgdm_t) | OAdam (o : adam_t) | OAdamW (o : adamw_t) | ORMS (o : rms_t).

  Definition is0 (x : T) : bool := neqb N x zero.
  Definition dflt (x d : T) : T := if is0 x then d else x.

  (* Optimizer::validate : replace zero hyper-parameters by defaults, install fresh state *)
  Definition opt_validate (o : optimizer) (v : slots) : optimizer :=
    match o with
    | OSGD p => OSGD {| sgd_lr := dflt (sgd_lr p) (ratio 1 10); sgd_decay := sgd_decay p |}
    | OSGDM p => OSGDM {| sgdm_lr := dflt (sgdm_lr p) (ratio 1 10);
                          sgdm_momentum := dflt (sgdm_momentum p) (ratio 9 10);
                          sgdm_dampening := sgdm_dampening p; sgdm_decay := sgdm_decay p;
                          sgdm_velocity := v |}
    | OAdam p => OAdam {| adam_lr := dflt (adam_lr p) (ratio 1 1000);
                          adam_b1 := dflt (adam_b1 p) (ratio 9 10);
                          adam_b2 := dflt (adam_b2 p) (ratio 999 1000);
                          adam_eps := dflt (adam_eps p) (ratio 1 100000000);
                          adam_decay := adam_decay p; adam_velocity := v; adam_momentum := v |}
    | OAdamW p => OAdamW {| adamw_lr := dflt (adamw_lr p) (ratio 1 1000);
                            adamw_b1 := dflt (adamw_b1 p) (ratio 9 10);
                            adamw_b2 := dflt (adamw_b2 p) (ratio 999 1000);
                            adamw_eps := dflt (adamw_eps p) (ratio 1 100000000);
                            adamw_decay := adamw_decay p; adamw_velocity := v; adamw_momentum := v |}
    | ORMS p => ORMS {| rms_lr := dflt (rms_lr p) (ratio 1 100);
                        rms_alpha := dflt (rms_alpha p) (ratio 99 100);
                        rms_eps := dflt (rms_eps p) (ratio 1 100000000);
                        rms_decay := rms_decay p; rms_momentum := rms_momentum p;
                        rms_centered := rms_centered p;
                        rms_velocity := v; rms_gradient := v; rms_buffer := v |}
    end.

  (* ---- scalar update rules: (weight, gradient, state...) -> new values ---- *)
  Definition decay_g (decay : option T) (w g : T) : T :=
    match decay with Some d => nadd N g (nmul N d w) | None => g end.

  (* returns (w', g') *)
  Definition sgd_step (p : sgd_t) (w g : T) : T * T :=
    let g1 := decay_g (sgd_decay p) w g in
    (nsub N w (nmul N (sgd_lr p) g1), g1).

  (* returns (w', g', v') *)
  Definition sgdm_step (p : sgdm_t) (stepnr : Z) (w g v : T) : T * T * T :=
    let g1 := decay_g (sgdm_decay p) w g in
    if (1 <? stepnr)%Z && negb (is0 (sgdm_momentum p)) then
      let v1 := nadd N (nmul N v (sgdm_momentum p)) (nmul N (nsub N one (sgdm_dampening p)) g1) in
      (nsub N w (nmul N (sgdm_lr p) v1), v1, v1)
    else
      (nsub N w (nmul N (sgdm_lr p) g1), g1, g1).

  (* shared Adam moment update: returns (w', m', v') from w (already decayed for AdamW) *)
  Definition adam_core (lr b1 b2 eps : T) (stepnr : Z) (w g m v : T) : T * T * T :=
    let m1 := nadd N (nmul N m b1) (nmul N g (nsub N one b1)) in
    let v1 := nadd N (nmul N v b2) (nmul N (npowf2 N g) (nsub N one b2)) in
    let mh := ndiv N m1 (nsub N one (powi b1 stepnr)) in
    let vh := ndiv N v1 (nsub N one (powi b2 stepnr)) in
    (nsub N w (ndiv N (nmul N lr mh) (nadd N (nsqrt N vh) eps)), m1, v1).

  (* returns (w', g', m', v') *)
  Definition adam_step (p : adam_t) (stepnr : Z) (w g m v : T) : T * T * T * T :=
    let g1 := decay_g (adam_decay p) w g in
    let '(w1, m1, v1) := adam_core (adam_lr p) (adam_b1 p) (adam_b2 p) (adam_eps p) stepnr w g1 m v in
    (w1, g1, m1, v1).

  Definition adamw_step (p : adamw_t) (stepnr : Z) (w g m v : T) : T * T * T * T :=
    let w0 := nsub N w (nmul N (nmul N (adamw_lr p) (adamw_decay p)) w) in
    let '(w1, m1, v1) := adam_core (adamw_lr p) (adamw_b1 p) (adamw_b2 p) (adamw_eps p) stepnr w0 g m v in
    (w1, g, m1, v1).

  (* returns (w', g', velocity', gradient', buffer') *)
  Definition rms_step (p : rms_t) (w g vel gr buf : T) : T * T * T * T * T :=
    let g1 := decay_g (rms_decay p) w g in
    let vel1 := nadd N (nmul N (rms_alpha p) vel) (nmul N (nsub N one (rms_alpha p)) (npowf2 N g1)) in
    let gr1 := if rms_centered p
               then nadd N (nmul N (rms_alpha p) gr) (nmul N (nsub N one (rms_alpha p)) g1)
               else gr in
    let v := if rms_centered p then fmax (nsub N vel1 (npowf2 N gr1)) zero else vel1 in
    let denom := nadd N (nsqrt N v) (rms_eps p) in
    match rms_momentum p with
    | Some mo =>
        let buf1 := nadd N (nmul N mo buf) (ndiv N g1 denom) in
        (nsub N w (nmul N (rms_lr p) buf1), g1, vel1, gr1, buf1)
    | None =>
        (nsub N w (ndiv N (nmul N (rms_lr p) g1) denom), g1, vel1, gr1, buf)
    end.

  (* ---- lifting a k-ary scalar step over the three supported ranks ----
     The loops run over the index ranges of `weights`; the other operands are indexed,
     so a shorter operand panics. *)
  Definition nth1 (l : list T) (i : nat) := nth_res l i.

  Section Lift.
    (* a step on [weights] element and a vector of [k] auxiliary elements, producing the new
       weight and the new auxiliaries *)
    Variable step : T -> list T -> T * list T.

    (* one row: weights row [ws] and a list of auxiliary rows *)
    Definition lift_row (ws : list T) (auxs : list (list T)) : res (list T * list (list T)) :=
      do r <- mapM (fun iw =>
               do a <- mapM (fun aux => nth_res aux (fst iw)) auxs;
               Ok (step (snd iw) a)) (combine (seq 0 (length ws)) ws);
      let ws' := map fst r in
      (* auxiliaries are written back by index: positions beyond |ws| stay unchanged *)
      let auxs' := mapi (fun k aux => zipk (fun _ (o : list T) => nth k o zero) aux (map snd r)) auxs in
      Ok (ws', auxs').

    Definition lift_mat (ws : vec2 T) (auxs : list (vec2 T)) : res (vec2 T * list (vec2 T)) :=
      do r <- mapM (fun iw =>
               do a <- mapM (fun aux => nth_res aux (fst iw)) auxs;
               lift_row (snd iw) a) (combine (seq 0 (length ws)) ws);
      let ws' := map fst r in
      let auxs' := mapi (fun k aux => zipk (fun _ (o : list (list T)) => nth k o []) aux (map snd r)) auxs in
      Ok (ws', auxs').

    Definition lift_cube (ws : vec3 T) (auxs : list (vec3 T)) : res (vec3 T * list (vec3 T)) :=
      do r <- mapM (fun iw =>
               do a <- mapM (fun aux => nth_res aux (fst iw)) auxs;
               lift_mat (snd iw) a) (combine (seq 0 (length ws)) ws);
      let ws' := map fst r in
      let auxs' := mapi (fun k aux => zipk (fun _ (o : list (vec2 T)) => nth k o []) aux (map snd r)) auxs in
      Ok (ws', auxs').

    (* all operands must have the same rank among Single/Double/Triple *)
    Definition lift_tensor (w : tensor) (auxs : list tensor) : res (tensor * list tensor) :=
      match tdata w with
      | DSingle ws =>
          do a <- mapM (fun t => match tdata t with DSingle d => Ok d | _ => Panic P_explicit end) auxs;
          do r <- lift_row ws a;
          Ok (mkT (tshape w) (DSingle (fst r)),
              map2 (fun t d => mkT (tshape t) (DSingle d)) auxs (snd r))
      | DDouble ws =>
          do a <- mapM (fun t => match tdata t with DDouble d => Ok d | _ => Panic P_explicit end) auxs;
          do r <- lift_mat ws a;
          Ok (mkT (tshape w) (DDouble (fst r)),
              map2 (fun t d => mkT (tshape t) (DDouble d)) auxs (snd r))
      | DTriple ws =>
          do a <- mapM (fun t => match tdata t with DTriple d => Ok d | _ => Panic P_explicit end) auxs;
          do r <- lift_cube ws a;
          Ok (mkT (tshape w) (DTriple (fst r)),
              map2 (fun t d => mkT (tshape t) (DTriple d)) auxs (snd r))
      | _ => Panic P_explicit
      end.
  End Lift.

  (* slot access: self.velocity[layer][filter][bias as usize] *)
  Definition slot_get (s : slots) (layer filter : nat) (bias : bool) : res tensor :=
    do l <- nth_res s layer; do f <- nth_res l filter; nth_res f (if bias then 1 else 0).
  Definition slot_set (s : slots) (layer filter : nat) (bias : bool) (t : tensor) : slots :=
    upd_nth s layer (fun l => upd_nth l filter (fun f => set_nth f (if bias then 1 else 0) t)).

  Definition two_of (l : list T) : T * T :=
    match l with a :: b :: _ => (a, b) | a :: _ => (a, zero) | _ => (zero, zero) end.

  (* Optimizer::update : returns the optimizer (state), the values and the mutated gradients *)
  Definition opt_update (o : optimizer) (layer filter : nat) (bias : bool) (stepnr : Z)
             (values gradients : tensor) : res (optimizer * tensor * tensor) :=
    match o with
    | OSGD p =>
        do r <- lift_tensor (fun w a => let '(w1, g1) := sgd_step p w (hd zero a) in (w1, [g1]))
                            values [gradients];
        Ok (o, fst r, hd gradients (snd r))
    | OSGDM p =>
        do vel <- slot_get (sgdm_velocity p) layer filter bias;
        do r <- lift_tensor (fun w a =>
                   let '(g, v) := two_of a in
                   let '(w1, g1, v1) := sgdm_step p stepnr w g v in (w1, [g1; v1]))
                 values [gradients; vel];
        match snd r with
        | [g'; v'] =>
            Ok (OSGDM {| sgdm_lr := sgdm_lr p; sgdm_momentum := sgdm_momentum p;
                         sgdm_dampening := sgdm_dampening p; sgdm_decay := sgdm_decay p;
                         sgdm_velocity := slot_set (sgdm_velocity p) layer filter bias v' |},
                fst r, g')
        | _ => Panic P_explicit
        end
    | OAdam p =>
        do mo <- slot_get (adam_momentum p) layer filter bias;
        do vel <- slot_get (adam_velocity p) layer filter bias;
        do r <- lift_tensor (fun w a =>
                   match a with
                   | [g; m; v] => let '(w1, g1, m1, v1) := adam_step p stepnr w g m v in (w1, [g1; m1; v1])
                   | _ => (w, a)
                   end) values [gradients; mo; vel];
        match snd r with
        | [g'; m'; v'] =>
            Ok (OAdam {| adam_lr := adam_lr p; adam_b1 := adam_b1 p; adam_b2 := adam_b2 p;
                         adam_eps := adam_eps p; adam_decay := adam_decay p;
                         adam_velocity := slot_set (adam_velocity p) layer filter bias v';
                         adam_momentum := slot_set (adam_momentum p) layer filter bias m' |},
                fst r, g')
        | _ => Panic P_explicit
        end
    | OAdamW p =>
        do mo <- slot_get (adamw_momentum p) layer filter bias;
        do vel <- slot_get (adamw_velocity p) layer filter bias;
        do r <- lift_tensor (fun w a =>
                   match a with
                   | [g; m; v] => let '(w1, g1, m1, v1) := adamw_step p stepnr w g m v in (w1, [g1; m1; v1])
                   | _ => (w, a)
                   end) values [gradients; mo; vel];
        match snd r with
        | [g'; m'; v'] =>
            Ok (OAdamW {| adamw_lr := adamw_lr p; adamw_b1 := adamw_b1 p; adamw_b2 := adamw_b2 p;
                          adamw_eps := adamw_eps p; adamw_decay := adamw_decay p;
                          adamw_velocity := slot_set (adamw_velocity p) layer filter bias v';
                          adamw_momentum := slot_set (adamw_momentum p) layer filter bias m' |},
                fst r, g')
        | _ => Panic P_explicit
        end
    | ORMS p =>
        do vel <- slot_get (rms_velocity p) layer filter bias;
        do gr <- slot_get (rms_gradient p) layer filter bias;
        do buf <- slot_get (rms_buffer p) layer filter bias;
        do r <- lift_tensor (fun w a =>
                   match a with
                   | [g; ve; gd; bu] =>
                       let '(w1, g1, ve1, gd1, bu1) := rms_step p w g ve gd bu in (w1, [g1; ve1; gd1; bu1])
                   | _ => (w, a)
                   end) values [gradients; vel; gr; buf];
        match snd r with
        | [g'; ve'; gd'; bu'] =>
            Ok (ORMS {| rms_lr := rms_lr p; rms_alpha := rms_alpha p; rms_eps := rms_eps p;
                        rms_decay := rms_decay p; rms_momentum := rms_momentum p;
                        rms_centered := rms_centered p;
                        rms_velocity := slot_set (rms_velocity p) layer filter bias ve';
                        rms_gradient := slot_set (rms_gradient p) layer filter bias gd';
                        rms_buffer := slot_set (rms_buffer p) layer filter bias bu' |},
                fst r, g')
        | _ => Panic P_explicit
        end
    end.
End Optimizer.
