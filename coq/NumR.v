(* The real-number instance of Num: the "exact result" the formula and derivative theorems are
   about. Comparisons are the classical decisions of R (not computable; this instance is only
   reasoned about, never evaluated). nneginf has no real counterpart and is set to 0 (theorems over
   NumR that involve it, the soft-max shift, say so); nfmin is the real number f32::MIN. *)
From NV Require Import Prelude Num.
Require Import Reals.
From Flocq Require Import Raux.
Local Open Scope R_scope.

Definition Rltb (a b : R) : bool := if Rlt_dec a b then true else false.
Definition Rleb (a b : R) : bool := if Rle_dec a b then true else false.
Definition Reqb (a b : R) : bool := if Req_EM_T a b then true else false.

Definition NumR : Num := {|
  T := R;
  nofZ := IZR;
  nnzero := 0;
  nneginf := 0;
  nfmin := IZR (-340282346638528859811704183484516925440);
  nadd := Rplus; nsub := Rminus; nmul := Rmult; ndiv := Rdiv;
  nneg := Ropp; nabs := Rabs; nsqrt := sqrt;
  nexp := exp; nln := ln; ntanh := tanh; ncosh := cosh;
  npowf2 := fun x => x * x;
  nltb := Rltb; nleb := Rleb; neqb := Reqb;
  nisnan := fun _ => false;
  ntoZ := fun x => if Rlt_dec x 0 then 0%Z else Ztrunc x;
|}.

Lemma Rltb_true a b : Rltb a b = true <-> a < b.
Proof. unfold Rltb. destruct (Rlt_dec a b); split; intros; try discriminate; auto; contradiction. Qed.
Lemma Rltb_false a b : Rltb a b = false <-> ~ a < b.
Proof. unfold Rltb. destruct (Rlt_dec a b); split; intros; try discriminate; auto; contradiction. Qed.
Lemma Reqb_true a b : Reqb a b = true <-> a = b.
Proof. unfold Reqb. destruct (Req_EM_T a b); split; intros; try discriminate; auto; contradiction. Qed.
Lemma Reqb_false a b : Reqb a b = false <-> a <> b.
Proof. unfold Reqb. destruct (Req_EM_T a b); split; intros; try discriminate; auto; contradiction. Qed.

(* the left fold that models `iter().sum()` is the mathematical sum *)
Fixpoint Rsum (l : list R) : R := match l with [] => 0 | x :: r => x + Rsum r end.
Lemma fold_add_Rsum l a : fold_left Rplus l a = a + Rsum l.
Proof. revert a; induction l as [|x l IH]; intros a; cbn [fold_left Rsum]; [ring|rewrite IH; ring]. Qed.
Lemma fsum_Rsum (l : list R) : fsum (N := NumR) l = Rsum l.
Proof. unfold fsum. cbn [nadd nnzero NumR]. rewrite fold_add_Rsum. apply Rplus_0_l. Qed.
