//! Network descriptions: encoded for the Coq driver and built through the public builder API.
use crate::tok::*;
use neurons::tensor::{Shape, Tensor};
use neurons::{activation, feedback, network, objective, optimizer};
use std::sync::Arc;

#[derive(Clone, Copy, Debug, PartialEq)]
pub enum Act {
    ReLU,
    Leaky,
    Sigmoid,
    Softmax,
    Tanh,
    Linear,
}
pub const ALL_ACTS: [Act; 6] = [Act::ReLU, Act::Leaky, Act::Sigmoid, Act::Softmax, Act::Tanh, Act::Linear];
impl Act {
    pub fn code(self) -> i128 {
        self as i128
    }
    pub fn to(self) -> activation::Activation {
        match self {
            Act::ReLU => activation::Activation::ReLU,
            Act::Leaky => activation::Activation::LeakyReLU,
            Act::Sigmoid => activation::Activation::Sigmoid,
            Act::Softmax => activation::Activation::Softmax,
            Act::Tanh => activation::Activation::Tanh,
            Act::Linear => activation::Activation::Linear,
        }
    }
}

#[derive(Clone, Copy, Debug, PartialEq)]
pub enum Acc {
    Add,
    Sub,
    Mul,
    Overwrite,
    Mean,
}
pub const ALL_ACCS: [Acc; 5] = [Acc::Add, Acc::Sub, Acc::Mul, Acc::Overwrite, Acc::Mean];
impl Acc {
    pub fn code(self) -> i128 {
        self as i128
    }
    pub fn to(self) -> feedback::Accumulation {
        match self {
            Acc::Add => feedback::Accumulation::Add,
            Acc::Sub => feedback::Accumulation::Subtract,
            Acc::Mul => feedback::Accumulation::Multiply,
            Acc::Overwrite => feedback::Accumulation::Overwrite,
            Acc::Mean => feedback::Accumulation::Mean,
        }
    }
}

#[derive(Clone, Copy, Debug, PartialEq)]
pub enum Obj {
    AE,
    MAE,
    MSE,
    RMSE,
    CE,
    BCE,
    KL,
}
pub const ALL_OBJS: [Obj; 7] = [Obj::AE, Obj::MAE, Obj::MSE, Obj::RMSE, Obj::CE, Obj::BCE, Obj::KL];
impl Obj {
    pub fn code(self) -> i128 {
        self as i128
    }
    pub fn to(self) -> objective::Objective {
        match self {
            Obj::AE => objective::Objective::AE,
            Obj::MAE => objective::Objective::MAE,
            Obj::MSE => objective::Objective::MSE,
            Obj::RMSE => objective::Objective::RMSE,
            Obj::CE => objective::Objective::CrossEntropy,
            Obj::BCE => objective::Objective::BinaryCrossEntropy,
            Obj::KL => objective::Objective::KLDivergence,
        }
    }
}

#[derive(Clone, Debug)]
pub enum Opt {
    SGD { lr: f32, decay: Option<f32> },
    SGDM { lr: f32, momentum: f32, dampening: f32, decay: Option<f32> },
    Adam { lr: f32, b1: f32, b2: f32, eps: f32, decay: Option<f32> },
    AdamW { lr: f32, b1: f32, b2: f32, eps: f32, decay: f32 },
    RMS { lr: f32, alpha: f32, eps: f32, decay: Option<f32>, momentum: Option<f32>, centered: bool },
}
impl Opt {
    pub fn enc(&self, t: &mut Tok) {
        match self {
            Opt::SGD { lr, decay } => {
                t.push(0);
                push_f(t, *lr);
                push_optf(t, *decay)
            }
            Opt::SGDM { lr, momentum, dampening, decay } => {
                t.push(1);
                push_f(t, *lr);
                push_f(t, *momentum);
                push_f(t, *dampening);
                push_optf(t, *decay)
            }
            Opt::Adam { lr, b1, b2, eps, decay } => {
                t.push(2);
                push_f(t, *lr);
                push_f(t, *b1);
                push_f(t, *b2);
                push_f(t, *eps);
                push_optf(t, *decay)
            }
            Opt::AdamW { lr, b1, b2, eps, decay } => {
                t.push(3);
                push_f(t, *lr);
                push_f(t, *b1);
                push_f(t, *b2);
                push_f(t, *eps);
                push_f(t, *decay)
            }
            Opt::RMS { lr, alpha, eps, decay, momentum, centered } => {
                t.push(4);
                push_f(t, *lr);
                push_f(t, *alpha);
                push_f(t, *eps);
                push_optf(t, *decay);
                push_optf(t, *momentum);
                push_b(t, *centered)
            }
        }
    }
    pub fn to(&self) -> optimizer::Optimizer {
        match self {
            Opt::SGD { lr, decay } => optimizer::SGD::create(*lr, *decay),
            Opt::SGDM { lr, momentum, dampening, decay } => {
                optimizer::SGDM::create(*lr, *momentum, *dampening, *decay)
            }
            Opt::Adam { lr, b1, b2, eps, decay } => optimizer::Adam::create(*lr, *b1, *b2, *eps, *decay),
            Opt::AdamW { lr, b1, b2, eps, decay } => optimizer::AdamW::create(*lr, *b1, *b2, *eps, *decay),
            Opt::RMS { lr, alpha, eps, decay, momentum, centered } => {
                optimizer::RMSprop::create(*lr, *alpha, *eps, *decay, *momentum, *centered)
            }
        }
    }
    pub fn kind(&self) -> &'static str {
        match self {
            Opt::SGD { .. } => "sgd",
            Opt::SGDM { .. } => "sgdm",
            Opt::Adam { .. } => "adam",
            Opt::AdamW { .. } => "adamw",
            Opt::RMS { .. } => "rmsprop",
        }
    }
}

pub type P2 = (usize, usize);

/// A plain layer (also the layer descriptions inside a feedback block).
#[derive(Clone, Debug)]
pub enum Simple {
    Dense { out: usize, act: Act, bias: bool, dropout: Option<f32> },
    Conv { filters: usize, kernel: P2, stride: P2, padding: P2, dilation: P2, act: Act, dropout: Option<f32> },
    Deconv { filters: usize, kernel: P2, stride: P2, padding: P2, act: Act, dropout: Option<f32> },
    Maxpool { kernel: P2, stride: P2 },
}
fn p2(t: &mut Tok, p: P2) {
    push_n(t, p.0);
    push_n(t, p.1);
}
impl Simple {
    pub fn enc(&self, t: &mut Tok) {
        match self {
            Simple::Dense { out, act, bias, dropout } => {
                t.push(0);
                push_n(t, *out);
                t.push(act.code());
                push_b(t, *bias);
                push_optf(t, *dropout)
            }
            Simple::Conv { filters, kernel, stride, padding, dilation, act, dropout } => {
                t.push(1);
                push_n(t, *filters);
                p2(t, *kernel);
                p2(t, *stride);
                p2(t, *padding);
                p2(t, *dilation);
                t.push(act.code());
                push_optf(t, *dropout)
            }
            Simple::Deconv { filters, kernel, stride, padding, act, dropout } => {
                t.push(2);
                push_n(t, *filters);
                p2(t, *kernel);
                p2(t, *stride);
                p2(t, *padding);
                t.push(act.code());
                push_optf(t, *dropout)
            }
            Simple::Maxpool { kernel, stride } => {
                t.push(3);
                p2(t, *kernel);
                p2(t, *stride)
            }
        }
    }
    pub fn kind(&self) -> &'static str {
        match self {
            Simple::Dense { .. } => "dense",
            Simple::Conv { .. } => "conv",
            Simple::Deconv { .. } => "deconv",
            Simple::Maxpool { .. } => "maxpool",
        }
    }
    fn to_fb(&self) -> feedback::Layer {
        match self {
            Simple::Dense { out, act, bias, dropout } => feedback::Layer::Dense(*out, act.to(), *bias, *dropout),
            Simple::Conv { filters, kernel, stride, padding, dilation, act, dropout } => {
                feedback::Layer::Convolution(*filters, act.to(), *kernel, *stride, *padding, *dilation, *dropout)
            }
            Simple::Deconv { filters, kernel, stride, padding, act, dropout } => {
                feedback::Layer::Deconvolution(*filters, act.to(), *kernel, *stride, *padding, *dropout)
            }
            Simple::Maxpool { kernel, stride } => feedback::Layer::Maxpool(*kernel, *stride),
        }
    }
}

#[derive(Clone, Debug)]
pub enum LayerSpec {
    One(Simple),
    Block { layers: Vec<Simple>, loops: usize, inskips: bool, outskips: bool, acc: Acc },
}
impl LayerSpec {
    pub fn enc(&self, t: &mut Tok) {
        match self {
            LayerSpec::One(s) => s.enc(t),
            LayerSpec::Block { layers, loops, inskips, outskips, acc } => {
                t.push(4);
                push_n(t, layers.len());
                layers.iter().for_each(|l| l.enc(t));
                push_n(t, *loops);
                push_b(t, *inskips);
                push_b(t, *outskips);
                t.push(acc.code());
            }
        }
    }
    pub fn kind(&self) -> &'static str {
        match self {
            LayerSpec::One(s) => s.kind(),
            LayerSpec::Block { .. } => "feedback",
        }
    }
}

/// Parameters of one parameterised layer.
#[derive(Clone, Debug)]
pub enum W {
    Dense(Tensor, Option<Tensor>),
    Kernels(Vec<Tensor>),
    None,
}
impl W {
    pub fn enc_in(&self, t: &mut Tok) {
        match self {
            W::Dense(w, b) => {
                t.push(0);
                enc_tensor_in(t, w);
                match b {
                    Some(b) => {
                        t.push(1);
                        enc_tensor_in(t, b)
                    }
                    None => t.push(0),
                }
            }
            W::Kernels(ks) => {
                t.push(1);
                push_n(t, ks.len());
                ks.iter().for_each(|k| enc_tensor_in(t, k));
            }
            W::None => t.push(2),
        }
    }
}
#[derive(Clone, Debug)]
pub enum LW {
    One(W),
    Block(Vec<W>),
}
impl LW {
    pub fn enc_in(&self, t: &mut Tok) {
        match self {
            LW::One(w) => w.enc_in(t),
            LW::Block(ws) => {
                t.push(4);
                push_n(t, ws.len());
                ws.iter().for_each(|w| w.enc_in(t));
            }
        }
    }
}

#[derive(Clone, Debug)]
pub struct NetSpec {
    pub input: Shape,
    pub layers: Vec<LayerSpec>,
    pub connect: Vec<(usize, usize)>, // (infrom, into)
    pub skipacc: Acc,
    pub loops: Vec<(usize, usize, usize, bool)>, // (outof, into, iterations, inskips)
    pub loopacc: Acc,
    pub opt: Opt,
    pub obj: Obj,
    pub clamp: Option<(f32, f32)>,
    pub weights: Option<Vec<LW>>,
}

impl NetSpec {
    pub fn new(input: Shape) -> Self {
        NetSpec {
            input,
            layers: vec![],
            connect: vec![],
            skipacc: Acc::Add,
            loops: vec![],
            loopacc: Acc::Mean,
            opt: Opt::SGD { lr: 0.1, decay: None },
            obj: Obj::MSE,
            clamp: None,
            weights: None,
        }
    }

    pub fn enc(&self, t: &mut Tok) {
        enc_shape(t, &self.input);
        push_n(t, self.layers.len());
        self.layers.iter().for_each(|l| l.enc(t));
        push_n(t, self.connect.len());
        self.connect.iter().for_each(|c| p2(t, *c));
        t.push(self.skipacc.code());
        push_n(t, self.loops.len());
        for (a, b, c, d) in &self.loops {
            push_n(t, *a);
            push_n(t, *b);
            push_n(t, *c);
            push_b(t, *d);
        }
        t.push(self.loopacc.code());
        self.opt.enc(t);
        t.push(self.obj.code());
        match self.clamp {
            Some((lo, hi)) => {
                t.push(1);
                push_f(t, lo);
                push_f(t, hi)
            }
            None => t.push(0),
        }
        match &self.weights {
            Some(ws) => {
                t.push(1);
                push_n(t, ws.len());
                ws.iter().for_each(|w| w.enc_in(t));
            }
            None => t.push(0),
        }
    }

    /// Performs the builder calls in the order the Coq driver does. Panics propagate.
    pub fn build(&self) -> network::Network {
        let mut n = self.build_layers();
        for (from, to) in &self.connect {
            n.connect(*from, *to);
        }
        self.finish(n)
    }

    pub fn build_layers(&self) -> network::Network {
        let mut n = network::Network::new(self.input.clone());
        for l in &self.layers {
            add_layer(&mut n, l);
        }
        n
    }

    pub fn finish(&self, mut n: network::Network) -> network::Network {
        for (outof, into, it, sk) in &self.loops {
            n.loopback(*outof, *into, *it, Arc::new(|x| 1.0 / x), *sk);
        }
        n.set_accumulation(self.skipacc.to(), self.loopacc.to());
        if let Some(ws) = &self.weights {
            assert_eq!(ws.len(), n.layers.len(), "weights/layers");
            for (l, w) in n.layers.iter_mut().zip(ws.iter()) {
                set_layer_w(l, w);
            }
        }
        n.set_optimizer(self.opt.to());
        n.set_objective(self.obj.to(), self.clamp);
        n
    }
}

pub fn add_layer(n: &mut network::Network, l: &LayerSpec) {
    match l {
        LayerSpec::One(Simple::Dense { out, act, bias, dropout }) => n.dense(*out, act.to(), *bias, *dropout),
        LayerSpec::One(Simple::Conv { filters, kernel, stride, padding, dilation, act, dropout }) => {
            n.convolution(*filters, *kernel, *stride, *padding, *dilation, act.to(), *dropout)
        }
        LayerSpec::One(Simple::Deconv { filters, kernel, stride, padding, act, dropout }) => {
            n.deconvolution(*filters, *kernel, *stride, *padding, act.to(), *dropout)
        }
        LayerSpec::One(Simple::Maxpool { kernel, stride }) => n.maxpool(*kernel, *stride),
        LayerSpec::Block { layers, loops, inskips, outskips, acc } => {
            n.feedback(layers.iter().map(|l| l.to_fb()).collect(), *loops, *inskips, *outskips, acc.to())
        }
    }
}

fn set_plain_w(l: &mut network::Layer, w: &W) {
    match (l, w) {
        (network::Layer::Dense(d), W::Dense(wt, b)) => {
            d.verif_set_weights(wt.clone());
            d.verif_set_bias(b.clone());
        }
        (network::Layer::Convolution(c), W::Kernels(ks)) => c.verif_set_kernels(ks.clone()),
        (network::Layer::Deconvolution(c), W::Kernels(ks)) => c.verif_set_kernels(ks.clone()),
        (network::Layer::Maxpool(_), W::None) => (),
        _ => panic!("weight/layer kind mismatch"),
    }
}
pub fn set_layer_w(l: &mut network::Layer, w: &LW) {
    match (l, w) {
        (network::Layer::Feedback(b), LW::Block(ws)) => {
            let len = ws.len();
            for (i, inner) in b.layers.iter_mut().enumerate() {
                set_plain_w(inner, &ws[i % len]);
            }
        }
        (l, LW::One(w)) => set_plain_w(l, w),
        _ => panic!("weight/layer kind mismatch"),
    }
}

// ---- reading parameters back (output encoding of coq/Driver.v: eweights) ----
fn enc_plain_w(t: &mut Tok, l: &network::Layer) {
    match l {
        network::Layer::Dense(d) => {
            t.push(0);
            enc_tensor_out(t, d.verif_weights());
            enc_opt_tensor_out(t, d.verif_bias());
        }
        network::Layer::Convolution(c) => {
            t.push(1);
            enc_list_tensor_out(t, c.verif_kernels());
        }
        network::Layer::Deconvolution(c) => {
            t.push(1);
            enc_list_tensor_out(t, c.verif_kernels());
        }
        network::Layer::Maxpool(_) => t.push(2),
        network::Layer::Feedback(b) => {
            t.push(4);
            push_n(t, b.layers.len());
            b.layers.iter().for_each(|l| enc_plain_w(t, l));
        }
    }
}
pub fn enc_weights(t: &mut Tok, n: &network::Network) {
    push_n(t, n.layers.len());
    n.layers.iter().for_each(|l| enc_plain_w(t, l));
}
pub fn enc_flags(t: &mut Tok, n: &network::Network) {
    let f = n.verif_flags();
    push_n(t, f.len());
    for x in f {
        t.push(match x {
            Some(b) => b as i128,
            None => 2,
        });
    }
}

/// Reads the current parameters of a network as an `LW` list (one repetition per block).
pub fn read_weights(n: &network::Network) -> Vec<LW> {
    fn plain(l: &network::Layer) -> W {
        match l {
            network::Layer::Dense(d) => W::Dense(d.verif_weights().clone(), d.verif_bias().clone()),
            network::Layer::Convolution(c) => W::Kernels(c.verif_kernels().clone()),
            network::Layer::Deconvolution(c) => W::Kernels(c.verif_kernels().clone()),
            network::Layer::Maxpool(_) => W::None,
            network::Layer::Feedback(_) => panic!("nested"),
        }
    }
    n.layers
        .iter()
        .map(|l| match l {
            network::Layer::Feedback(b) => {
                let len = b.verif_coupled().len();
                LW::Block(b.layers.iter().take(len).map(plain).collect())
            }
            l => LW::One(plain(l)),
        })
        .collect()
}
