mod case;
mod fals;
mod fals_a;
mod fals_b;
mod fals_c;
mod gen_basic;
mod gen_net;
mod gen_net2;
mod netgen;
mod gen_tensor;
mod rng;
mod spec;
mod tok;

use std::io::Write;

static LAST_PANIC: std::sync::Mutex<String> = std::sync::Mutex::new(String::new());

fn usage() -> ! {
    eprintln!("usage: nverif gen <PROP> <quick|thorough> <seed> <outdir>");
    std::process::exit(2)
}

fn main() {
    // the implementation panics on purpose in many cases; keep stderr quiet
    std::panic::set_hook(Box::new(|info| {
        if let Ok(mut m) = LAST_PANIC.lock() {
            *m = info.to_string();
        }
    }));
    let args: Vec<String> = std::env::args().collect();
    if args.len() < 2 {
        usage();
    }
    match args[1].as_str() {
        "gen" => {
            if args.len() != 6 {
                usage();
            }
            let prop = args[2].as_str();
            let thorough = args[3] == "thorough";
            let seed: u64 = args[4].parse().unwrap_or(0);
            let outdir = std::path::Path::new(&args[5]);
            std::fs::create_dir_all(outdir).unwrap();
            let mut rng = rng::Rng::new(seed ^ (prop.bytes().fold(0u64, |a, b| a * 131 + b as u64)));
            let release = !cfg!(debug_assertions);
            let mut frng = rng::Rng::new(seed.wrapping_add(0x5EED) ^ (prop.bytes().fold(0u64, |a, b| a * 131 + b as u64)));
            let cases = match prop {
                "C14" => gen_tensor::gen_c14(&mut rng, thorough),
                "C15" => gen_tensor::gen_c15(&mut rng, thorough),
                "C18" => gen_basic::gen_c18(&mut rng, thorough, release),
                "C07" => gen_basic::gen_c07(&mut rng, thorough),
                "C06" => gen_basic::gen_c06(&mut rng, thorough),
                "C03" => { let mut v = gen_basic::gen_c03(&mut rng, thorough); v.extend(gen_net2::gen_c03_net(&mut rng, thorough)); for f in [0usize, 1] { v.extend(gen_net2::gen_scripts(&mut rng, thorough, f, "c03")); } v },
                "C02" => gen_net::gen_c02(&mut rng, thorough),
                "C08" => gen_net::gen_c08(&mut rng, thorough),
                "C01" => { let mut v = gen_net::gen_c01(&mut rng, thorough); for f in [0usize, 1, 3, 4] { v.extend(gen_net2::gen_scripts(&mut rng, thorough, f, "c01")); } v },
                "C11" => gen_net2::gen_c11(&mut rng, thorough),
                "C10" => { let mut v = gen_net2::gen_c10(&mut rng, thorough); v.extend(gen_net2::gen_scripts(&mut rng, thorough, 1, "c10")); v },
                "C16" => gen_net2::gen_c16(&mut rng, thorough),
                "C17" => gen_net2::gen_c17(&mut rng, thorough),
                "C04" => { let mut v = gen_net2::gen_c04(&mut rng, thorough); for f in [0usize, 1, 3] { v.extend(gen_net2::gen_scripts(&mut rng, thorough, f, "c04")); } v },
                "C13" => { let mut v = gen_net2::gen_c13(&mut rng, thorough); v.extend(gen_net2::gen_scripts(&mut rng, thorough, 2, "c13")); v },
                "C09" => { let mut v = gen_net2::gen_c09(&mut rng, thorough); v.extend(gen_net2::gen_c09_blocks(&mut rng, thorough)); for f in [0usize, 1] { v.extend(gen_net2::gen_scripts(&mut rng, thorough, f, "c09")); } v },
                "C12" => { let mut v = gen_net2::gen_c12(&mut rng, thorough); for f in [0usize, 4] { v.extend(gen_net2::gen_scripts(&mut rng, thorough, f, "c12")); } v },
                "C05" => gen_net2::gen_c05(&mut rng, thorough),
                _ => {
                    eprintln!("no generator for {}", prop);
                    std::process::exit(2)
                }
            };
            // dev aid: VERIF_DERIVE=<index> replaces the case list by finer-grained cases derived from
            // one Learn case (forward / backward / single step per sample), to localise a disagreement
            let cases = match std::env::var("VERIF_DERIVE").ok().and_then(|v| v.parse::<usize>().ok()) {
                Some(k) if k < cases.len() => {
                    let mut d: Vec<(String, case::Case)> = vec![];
                    if let case::Case::Net(spec, case::NetCmd::Learn { data, batch, epochs, .. }) = &cases[k].1 {
                        for (i, (x, t)) in data.iter().enumerate() {
                            d.push((format!("fwd{}", i), case::Case::Net(spec.clone(), case::NetCmd::Forward(x.clone()))));
                            d.push((format!("bwd{}", i), case::Case::Net(spec.clone(), case::NetCmd::Backward(x.clone(), t.clone()))));
                            d.push((format!("step{}", i), case::Case::Net(spec.clone(), case::NetCmd::Step(x.clone(), t.clone(), 1))));
                        }
                        for k in 1..=data.len() {
                            d.push((format!("learn-e1-b1-first{}", k), case::Case::Net(spec.clone(), case::NetCmd::Learn { data: data[..k].to_vec(), val: None, batch: 1, epochs: 1 })));
                        }
                        {
                            // the same without dropout
                            let mut nd = spec.clone();
                            for l in nd.layers.iter_mut() {
                                if let spec::LayerSpec::One(s) = l {
                                    match s {
                                        spec::Simple::Dense { dropout, .. } | spec::Simple::Conv { dropout, .. } | spec::Simple::Deconv { dropout, .. } => *dropout = None,
                                        _ => (),
                                    }
                                }
                            }
                            for k in 1..=data.len().min(4) {
                                d.push((format!("nodropout-first{}", k), case::Case::Net(nd.clone(), case::NetCmd::Learn { data: data[..k].to_vec(), val: None, batch: 1, epochs: 1 })));
                            }
                        }
                        for e in 1..=*epochs {
                            d.push((format!("learn-e{}", e), case::Case::Net(spec.clone(), case::NetCmd::Learn { data: data.clone(), val: None, batch: *batch, epochs: e })));
                            d.push((format!("learn-e{}-b1", e), case::Case::Net(spec.clone(), case::NetCmd::Learn { data: data.clone(), val: None, batch: 1, epochs: e })));
                        }
                    }
                    d
                }
                _ => cases,
            };
            let mut fc = std::io::BufWriter::new(std::fs::File::create(outdir.join("cases.txt")).unwrap());
            let mut fi = std::io::BufWriter::new(std::fs::File::create(outdir.join("impl.txt")).unwrap());
            for (i, (tag, c)) in cases.iter().enumerate() {
                let id = format!("{}#{}#{}", prop, i, tag);
                // the case is on disk before the implementation runs it: if the process dies (abort, allocation
                // failure, stack overflow - nothing catch_unwind can stop), the case without a result line is the one
                writeln!(fc, "{}", tok::line(&id, &c.encode())).unwrap();
                fc.flush().unwrap();
                writeln!(fi, "{}", tok::line(&id, &c.run())).unwrap();
                fi.flush().unwrap();
            }
            // the falsifiers run AFTER the tie cases are on disk; a falsifier that does not guard a library call
            // itself must not take the run down: a panic that escapes it is recorded as a failed check of the class
            // "falsifier/escaped-panic" with the panic message (the library panicked where the falsifier expected a value)
            let fals = std::panic::catch_unwind(std::panic::AssertUnwindSafe(|| match prop {
                "C14" => gen_tensor::fals_c14(&mut frng, thorough),
                "C15" => fals::Fals::new(),
                "C18" => gen_basic::fals_c18(&mut frng, thorough, release),
                "C07" => gen_basic::fals_c07(&mut frng, thorough),
                "C06" => gen_basic::fals_c06(&mut frng, thorough),
                "C03" => gen_basic::fals_c03(&mut frng, thorough),
                "C02" => fals_b::fals_c02(&mut frng, thorough),
                "C08" => fals_b::fals_c08(&mut frng, thorough),
                "C01" => fals_a::fals_c01(&mut frng, thorough),
                "C11" => fals_b::fals_c11(&mut frng, thorough),
                "C10" => fals_c::fals_c10(&mut frng, thorough),
                "C16" => fals_a::fals_c16(&mut frng, thorough),
                "C17" => fals_b::fals_c17(&mut frng, thorough),
                "C04" => fals_c::fals_c04(&mut frng, thorough),
                "C13" => fals_c::fals_c13(&mut frng, thorough),
                "C09" => fals_c::fals_c09(&mut frng, thorough),
                "C12" => fals_c::fals_c12(&mut frng, thorough),
                "C05" => gen_net2::fals_c05(&mut frng, thorough),
                _ => fals::Fals::new(),
            }))
            .unwrap_or_else(|_| {
                let mut f = fals::Fals::new();
                let msg = LAST_PANIC.lock().map(|m| m.clone()).unwrap_or_default();
                f.check("falsifier/escaped-panic", false, "the library panicked on an input for which the falsifier expected a value", || msg);
                f
            });
            fals.write(&outdir.join("falsify.jsonl"));
            println!("{} cases", cases.len());
        }
        _ => usage(),
    }
}
