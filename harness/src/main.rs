fn main() {
    let e: Vec<f32> = vec![];
    println!("sum empty bits {:08x}", e.iter().sum::<f32>().to_bits());
    println!("sum [0.0] bits {:08x}", vec![0.0f32].iter().sum::<f32>().to_bits());
    println!("(-0).max(0) {:08x} (0).max(-0) {:08x}", (-0.0f32).max(0.0).to_bits(), (0.0f32).max(-0.0).to_bits());
    println!("nan.max(1) {:08x} 1.max(nan) {:08x}", f32::NAN.max(1.0).to_bits(), 1.0f32.max(f32::NAN).to_bits());
    println!("NEG_INF.max(-0) {:08x}", f32::NEG_INFINITY.max(-0.0).to_bits());
    println!("clamp -0 in [0,1]: {:08x}", (-0.0f32).clamp(0.0,1.0).to_bits());
    println!("0/0 {:08x} inf-inf {:08x} sqrt(-1) {:08x}", (0.0f32/std::hint::black_box(0.0f32)).to_bits(), (f32::INFINITY-std::hint::black_box(f32::INFINITY)).to_bits(), std::hint::black_box(-1.0f32).sqrt().to_bits());
    println!("1e9 as usize {} nan as usize {} -1 as usize {}", 1e9f32 as usize, f32::NAN as usize, -1.0f32 as usize);
    println!("powi {:08x} {:08x}", std::hint::black_box(0.9f32).powi(std::hint::black_box(5)).to_bits(), {let a=0.9f32; let a2=a*a; let a4=a2*a2; (a*a4).to_bits()});
    println!("0.01 {:08x} 1/100 {:08x}; 1e-6 {:08x} {:08x}; 1e-8 {:08x} {:08x}; 0.999 {:08x} {:08x}; 1-1e-6 {:08x}", 0.01f32.to_bits(), (1.0f32/100.0).to_bits(), 1e-6f32.to_bits(), (1.0f32/1e6).to_bits(), 1e-8f32.to_bits(), (1.0f32/1e8).to_bits(), 0.999f32.to_bits(), (999.0f32/1000.0).to_bits(), (1.0f32-1e-6).to_bits());
    println!("0.1 {:08x} {:08x} 0.9 {:08x} {:08x} 0.001 {:08x} {:08x} 0.99 {:08x} {:08x}", 0.1f32.to_bits(), (1.0f32/10.0).to_bits(), 0.9f32.to_bits(), (9.0f32/10.0).to_bits(), 0.001f32.to_bits(), (1.0f32/1000.0).to_bits(), 0.99f32.to_bits(), (99.0f32/100.0).to_bits());
}
