mod case;
mod gen_tensor;
mod rng;
mod spec;
mod tok;

use std::io::Write;

fn usage() -> ! {
    eprintln!("usage: nverif gen <PROP> <quick|thorough> <seed> <outdir>");
    std::process::exit(2)
}

fn main() {
    // the implementation panics on purpose in many cases; keep stderr quiet
    std::panic::set_hook(Box::new(|_| {}));
    let args: Vec<String> = std::env::args().collect();
    if args.len() < 2 {
        usage();
    }
    match args[1].as_str() {
        "gen" => {
            if args.len() != 6 {
                usage();
            }
            let prop = args[2].as_str();
            let thorough = args[3] == "thorough";
            let seed: u64 = args[4].parse().unwrap_or(0);
            let outdir = std::path::Path::new(&args[5]);
            std::fs::create_dir_all(outdir).unwrap();
            let mut rng = rng::Rng::new(seed ^ (prop.bytes().fold(0u64, |a, b| a * 131 + b as u64)));
            let cases = match prop {
                "C14" => gen_tensor::gen_c14(&mut rng, thorough),
                "C15" => gen_tensor::gen_c15(&mut rng, thorough),
                _ => {
                    eprintln!("no generator for {}", prop);
                    std::process::exit(2)
                }
            };
            let mut fc = std::io::BufWriter::new(std::fs::File::create(outdir.join("cases.txt")).unwrap());
            let mut fi = std::io::BufWriter::new(std::fs::File::create(outdir.join("impl.txt")).unwrap());
            for (i, (tag, c)) in cases.iter().enumerate() {
                let id = format!("{}#{}#{}", prop, i, tag);
                writeln!(fc, "{}", tok::line(&id, &c.encode())).unwrap();
                writeln!(fi, "{}", tok::line(&id, &c.run())).unwrap();
            }
            println!("{} cases", cases.len());
        }
        _ => usage(),
    }
}
