//! Model-free falsifiers for C04 (training = ordered mini-batch gradient-sum descent), C09 (dropout
//! never leaks into prediction / validation), C10 (feedback blocks stay weight-tied, parameters
//! counted once), C12 (validate / predict_batch are faithful aggregations of predict) and C13
//! (early stopping and returned histories).
//!
//! Every check runs the real library only. Oracles: a hand replay of `learn` with the library's own
//! per-sample primitives (C04), a twin network built from the same description without dropout
//! (C09), bit comparison of the unrolled repetitions and an independent parameter count from the
//! description (C10), re-aggregation of `predict` + `objective.loss` (C12), and the trajectory of a
//! twin run that cannot stop (C13). Class keys are functions of the configuration only.
use crate::fals::Fals;
use crate::gen_basic::rand_opt;
use crate::gen_net2::{block_weights, rand_block_layers, rand_data};
use crate::netgen::*;
use crate::rng::Rng;
use crate::spec::*;
use crate::tok::*;
use neurons::network::{self, Network};
use neurons::tensor::Tensor;
use std::panic::{catch_unwind, AssertUnwindSafe};

// ------------------------------------------------------------------ helpers

/// runs `f`, turning a panic into its message
fn guard<T>(f: impl FnOnce() -> T) -> Result<T, String> {
    match catch_unwind(AssertUnwindSafe(f)) {
        Ok(v) => Ok(v),
        Err(e) => Err(if let Some(s) = e.downcast_ref::<&str>() {
            s.to_string()
        } else if let Some(s) = e.downcast_ref::<String>() {
            s.clone()
        } else {
            "panic".to_string()
        }),
    }
}

fn f_eq(a: f32, b: f32) -> bool {
    a.to_bits() == b.to_bits() || (a.is_nan() && b.is_nan())
}
fn v_eq(a: &[f32], b: &[f32]) -> bool {
    a.len() == b.len() && a.iter().zip(b.iter()).all(|(x, y)| f_eq(*x, *y))
}
fn t_eq(a: &Tensor, b: &Tensor) -> bool {
    a.shape == b.shape && v_eq(&flat_of(a), &flat_of(b))
}
fn ot_eq(a: &Option<Tensor>, b: &Option<Tensor>) -> bool {
    match (a, b) {
        (Some(a), Some(b)) => t_eq(a, b),
        (None, None) => true,
        _ => false,
    }
}
fn wtok(n: &Network) -> Vec<i128> {
    let mut t = vec![];
    enc_weights(&mut t, n);
    t
}

fn fmt_t(t: &Tensor) -> String {
    format!("{:?}{:?}", t.shape, flat_of(t))
}
fn fmt_pairs(d: &[(Tensor, Tensor)]) -> String {
    let v: Vec<String> = d.iter().map(|(x, y)| format!("(x={} t={})", fmt_t(x), fmt_t(y))).collect();
    format!("[{}]", v.join(", "))
}
fn fmt_w(w: &W) -> String {
    match w {
        W::Dense(w, b) => format!("dense(w={} b={})", fmt_t(w), b.as_ref().map_or("none".to_string(), fmt_t)),
        W::Kernels(ks) => format!("kernels[{}]", ks.iter().map(fmt_t).collect::<Vec<_>>().join(", ")),
        W::None => "-".to_string(),
    }
}
/// self-contained description of a network (builder arguments + installed parameters)
fn fmt_spec(s: &NetSpec) -> String {
    let ws = match &s.weights {
        None => "library-initialised".to_string(),
        Some(ws) => ws
            .iter()
            .map(|w| match w {
                LW::One(w) => fmt_w(w),
                LW::Block(ws) => format!("block[{}]", ws.iter().map(fmt_w).collect::<Vec<_>>().join("; ")),
            })
            .collect::<Vec<_>>()
            .join(" | "),
    };
    format!("network(input {:?}; layers {:?}; optimizer {:?}; objective {:?}; parameters per layer: {})", s.input, s.layers, s.opt, s.obj, ws)
}

fn refs(d: &[(Tensor, Tensor)]) -> (Vec<&Tensor>, Vec<&Tensor>) {
    (d.iter().map(|p| &p.0).collect(), d.iter().map(|p| &p.1).collect())
}

type Hist = (Vec<f32>, Vec<f32>, Vec<f32>);
fn run_learn(n: &mut Network, data: &[(Tensor, Tensor)], val: Option<(&[(Tensor, Tensor)], i32)>, batch: usize, epochs: i32) -> Hist {
    let (xs, ys) = refs(data);
    match val {
        Some((v, th)) => {
            let (vx, vy) = refs(v);
            n.learn(&xs, &ys, Some((&vx, &vy, th)), batch, epochs, crate::case::print_freq(batch, epochs))
        }
        None => n.learn(&xs, &ys, None, batch, epochs, crate::case::print_freq(batch, epochs)),
    }
}
fn run_validate(n: &mut Network, data: &[(Tensor, Tensor)], tol: f32) -> (f32, f32) {
    let (xs, ys) = refs(data);
    n.validate(&xs, &ys, tol)
}

fn set_simple_dropout(s: &mut Simple, d: Option<f32>) -> bool {
    match s {
        Simple::Dense { dropout, .. } | Simple::Conv { dropout, .. } | Simple::Deconv { dropout, .. } => {
            *dropout = d;
            true
        }
        Simple::Maxpool { .. } => false,
    }
}
fn simple_dropout(s: &Simple) -> bool {
    match s {
        Simple::Dense { dropout, .. } | Simple::Conv { dropout, .. } | Simple::Deconv { dropout, .. } => dropout.is_some(),
        Simple::Maxpool { .. } => false,
    }
}
fn layer_dropout(l: &LayerSpec) -> bool {
    match l {
        LayerSpec::One(s) => simple_dropout(s),
        LayerSpec::Block { layers, .. } => layers.iter().any(simple_dropout),
    }
}
fn clear_layer_dropout(l: &mut LayerSpec) {
    match l {
        LayerSpec::One(s) => {
            set_simple_dropout(s, None);
        }
        LayerSpec::Block { layers, .. } => layers.iter_mut().for_each(|s| {
            set_simple_dropout(s, None);
        }),
    }
}
/// puts dropout on the layer (a random inner layer of a block); false for max-pool
fn force_layer_dropout(rng: &mut Rng, l: &mut LayerSpec, rate: f32) -> bool {
    match l {
        LayerSpec::One(s) => set_simple_dropout(s, Some(rate)),
        LayerSpec::Block { layers, .. } => {
            let k = rng.below(layers.len());
            set_simple_dropout(&mut layers[k], Some(rate))
        }
    }
}
/// the same description without any dropout
fn without_dropout(s: &NetSpec) -> NetSpec {
    let mut t = s.clone();
    t.layers.iter_mut().for_each(clear_layer_dropout);
    t
}

/// copies every parameter tensor (all unrolled repetitions individually) from `src` to `dst`
fn copy_params(src: &Network, dst: &mut Network) {
    fn one(s: &network::Layer, d: &mut network::Layer) {
        match (s, d) {
            (network::Layer::Dense(s), network::Layer::Dense(d)) => {
                d.verif_set_weights(s.verif_weights().clone());
                d.verif_set_bias(s.verif_bias().clone());
            }
            (network::Layer::Convolution(s), network::Layer::Convolution(d)) => d.verif_set_kernels(s.verif_kernels().clone()),
            (network::Layer::Deconvolution(s), network::Layer::Deconvolution(d)) => d.verif_set_kernels(s.verif_kernels().clone()),
            (network::Layer::Maxpool(_), network::Layer::Maxpool(_)) => (),
            (network::Layer::Feedback(s), network::Layer::Feedback(d)) => {
                assert_eq!(s.layers.len(), d.layers.len());
                for (a, b) in s.layers.iter().zip(d.layers.iter_mut()) {
                    one(a, b);
                }
            }
            _ => panic!("copy_params: layer kinds differ"),
        }
    }
    assert_eq!(src.layers.len(), dst.layers.len());
    for (a, b) in src.layers.iter().zip(dst.layers.iter_mut()) {
        one(a, b);
    }
}

/// A sequential network ending in a dense layer, optionally with one shape-preserving feedback
/// block inserted in front of one of its layers. Returns (description, input, output).
/// `skips`: whether the block may carry internal skips. Training comparisons between two separately
/// built networks must not use them: Feedback::backward walks a HashMap to add the skip gradients,
/// so with input skips and three or more loops the last bits depend on the hasher seed.
fn seq_net(rng: &mut Rng, o: &GenOpts, spatial: bool, depth: usize, with_block: bool, skips: bool) -> Option<(NetSpec, Sh, Sh)> {
    let input = if spatial { Sh::Sp(rng.range(1, 2), rng.range(2, 4), rng.range(2, 4)) } else { Sh::Flat(rng.range(1, 5)) };
    let kinds: Vec<&str> = if spatial { vec!["conv", "maxpool", "deconv", "dense", "dense"] } else { vec!["dense", "dense", "dense", "conv"] };
    let (mut spec, shapes) = rand_seq(rng, o, input, depth, &kinds, true)?;
    if with_block {
        let p = rng.below(spec.layers.len());
        let sh = shapes[p];
        // a dense layer in front of which a spatial block is inserted is fine (the builder flattens the block)
        let nl = rng.range(1, 2);
        let ls = rand_block_layers(rng, o, sh, nl)?;
        let bw = block_weights(rng, &ls, sh, o.wkind)?;
        let loops = rng.range(1, 3);
        let acc = *rng.pick(&[Acc::Add, Acc::Mean]);
        spec.layers.insert(p, LayerSpec::Block { layers: ls, loops, inskips: skips && rng.chance(1, 8), outskips: skips && rng.chance(1, 8), acc });
        spec.weights.as_mut().unwrap().insert(p, bw);
    }
    Some((spec, input, *shapes.last().unwrap()))
}

fn arch_of(s: &NetSpec) -> &'static str {
    let block = s.layers.iter().any(|l| matches!(l, LayerSpec::Block { .. }));
    let sp = s.layers.iter().any(|l| match l {
        LayerSpec::One(Simple::Dense { .. }) => false,
        LayerSpec::One(_) => true,
        LayerSpec::Block { layers, .. } => layers.iter().any(|x| !matches!(x, Simple::Dense { .. })),
    });
    match (sp, block) {
        (false, false) => "dense",
        (true, false) => "conv",
        (false, true) => "dense+block",
        (true, true) => "conv+block",
    }
}

// ------------------------------------------------------------------ C04

fn batch_class(n: usize, b: usize) -> &'static str {
    if b == 1 {
        "B=1"
    } else if b > n {
        "B>N"
    } else if b == n {
        "B=N"
    } else if n % b == 0 {
        "B-divides-N"
    } else {
        "B-not-dividing-N"
    }
}

/// `learn` by hand: consecutive groups of `b` samples, per-sample forward / loss / backward, in-order
/// gradient sum, one update per group with step number = epoch. Err when a NaN loss shows up
/// (the documented refusal of `learn`).
fn replay_learn(spec: &NetSpec, data: &[(Tensor, Tensor)], b: usize, epochs: i32) -> Result<(Vec<f32>, Vec<i128>), String> {
    let mut net = spec.build();
    let mut hist = vec![];
    for epoch in 1..=epochs {
        let mut loss_epoch: f32 = 0.0;
        let mut groups = 0usize;
        for group in data.chunks(b) {
            let mut wacc: Vec<Tensor> = vec![];
            let mut bacc: Vec<Option<Tensor>> = vec![];
            let mut losses: Vec<f32> = vec![];
            for (k, (x, t)) in group.iter().enumerate() {
                let (pre, post, mx, fb) = net.forward(x);
                let (l, g) = net.verif_objective().loss(post.last().unwrap(), t);
                if l.is_nan() {
                    return Err("NaN loss".into());
                }
                let (wg, bg) = net.verif_backward(g, &pre, &post, &mx, fb);
                losses.push(l);
                if k == 0 {
                    wacc = wg;
                    bacc = bg;
                } else {
                    for (a, n) in wacc.iter_mut().zip(wg.iter()) {
                        a.add_inplace(n);
                    }
                    for (a, n) in bacc.iter_mut().zip(bg.iter()) {
                        if let (Some(a), Some(n)) = (a.as_mut(), n.as_ref()) {
                            a.add_inplace(n);
                        }
                    }
                }
            }
            let mut s: f32 = -0.0;
            for l in &losses {
                s += *l;
            }
            loss_epoch += s / losses.len() as f32;
            net.verif_update(epoch, wacc, bacc);
            groups += 1;
        }
        hist.push(loss_epoch / groups as f32);
    }
    Ok((hist, wtok(&net)))
}

const NB_PAIRS: [&[(usize, usize)]; 5] = [
    &[(1, 1), (2, 1), (3, 1), (5, 1), (9, 1)],                                                                 // B=1
    &[(4, 2), (6, 2), (8, 2), (6, 3), (9, 3), (8, 4)],                                                         // B divides N, 1<B<N
    &[(3, 2), (5, 2), (7, 2), (9, 2), (4, 3), (5, 3), (7, 3), (8, 3), (5, 4), (6, 4), (7, 4), (9, 4), (9, 8), (130, 100)], // B not dividing N
    &[(2, 2), (3, 3), (4, 4), (8, 8), (70, 70)],                                                               // B=N
    &[(1, 2), (1, 3), (2, 3), (1, 4), (3, 4), (1, 8), (2, 8), (5, 8), (7, 8)],                                 // B>N
];

pub fn fals_c04(rng: &mut Rng, thorough: bool) -> Fals {
    let mut f = Fals::new();
    let mut o = GenOpts::default();
    o.wkind = 2;
    o.acts = vec![Act::Linear, Act::Tanh, Act::Sigmoid, Act::Leaky, Act::ReLU];
    let reps = if thorough { 40 } else { 4 };
    for rep in 0..reps {
        for arch in ["dense", "conv", "block"] {
            for kind in 0..5usize {
                for bc in 0..5usize {
                    let (n, b) = *rng.pick(NB_PAIRS[bc]);
                    let spatial = arch == "conv" || (arch == "block" && rng.coin());
                    let epochs = if rep % 4 == 0 { 1 } else { rng.range(1, 3) as i32 };
                    // network
                    let mut made = None;
                    for _ in 0..50 {
                        let depth = rng.range(1, 3);
                        if let Some(x) = seq_net(rng, &o, spatial, depth, arch == "block", false) {
                            if arch == "conv" && arch_of(&x.0) != "conv" {
                                continue;
                            }
                            made = Some(x);
                            break;
                        }
                    }
                    let (mut spec, input, outsh) = match made {
                        Some(x) => x,
                        None => continue,
                    };
                    spec.opt = rand_opt(rng, kind);
                    // objective: the probability objectives only behind a sigmoid / soft-max output
                    let nout = outsh.numel();
                    let mut prob_out = false;
                    if let Some(LayerSpec::One(Simple::Dense { act, .. })) = spec.layers.last_mut() {
                        if arch == "dense" && nout >= 2 && rng.chance(1, 4) {
                            *act = Act::Softmax;
                        }
                        prob_out = matches!(*act, Act::Softmax | Act::Sigmoid);
                    }
                    spec.obj = if prob_out && rng.coin() { *rng.pick(&[Obj::CE, Obj::BCE, Obj::KL]) } else { *rng.pick(&[Obj::MSE, Obj::MAE, Obj::AE, Obj::RMSE]) };
                    let data = rand_data(rng, n, input, outsh, spec.obj);
                    let key = format!("learn-replay/{}/{}/{}", arch, spec.opt.kind(), batch_class(n, b));
                    let got = guard(|| {
                        let mut net = spec.build();
                        let h = run_learn(&mut net, &data, None, b, epochs);
                        (h, wtok(&net))
                    });
                    let want = guard(|| replay_learn(&spec, &data, b, epochs)).and_then(|x| x);
                    let desc = || format!("{}; N={} B={} E={}; data {}", fmt_spec(&spec), n, b, epochs, fmt_pairs(&data));
                    match (got, want) {
                        (Ok(((tl, _, _), w)), Ok((rl, rw))) => {
                            f.check(&key, v_eq(&tl, &rl), "per-epoch training loss of learn differs from the hand replay (mean over groups of the mean per-sample loss)", || {
                                format!("{} -> learn {:?}, replay {:?}", desc(), tl, rl)
                            });
                            f.check(&key, w == rw, "parameters after learn differ from the hand replay (one step per group on the in-order gradient sum, step number = epoch)", || {
                                let pos = w.iter().zip(rw.iter()).position(|(a, b)| a != b).unwrap_or(0);
                                let val = |t: &Vec<i128>| t.get(pos).map_or("-".to_string(), |x| if *x >= FLOAT_TAG { format!("{:?}", f32::from_bits((*x - FLOAT_TAG) as u32)) } else { format!("#{}", x) });
                                format!("{} -> first difference at position {} of the parameter listing (layer order, row-major): learn {} vs replay {}", desc(), pos, val(&w), val(&rw))
                            });
                        }
                        (Err(_), Err(_)) => (), // refused consistently (NaN loss or a layer defect that is another property's business)
                        (Ok(_), Err(e)) => f.check(&key, false, "learn succeeded although the per-sample replay is refused", || format!("{} -> replay: {}", desc(), e)),
                        (Err(e), Ok(_)) => f.check(&key, false, "learn panicked although the per-sample replay runs", || format!("{} -> learn: {}", desc(), e)),
                    }
                }
            }
        }
    }
    // groups that are fitted exactly (every loss and gradient 0) still take their step
    for rep in 0..(if thorough { 40 } else { 10 }) {
        let n = rng.range(2, 3);
        let mut spec = NetSpec::new(Sh::Flat(n).to_shape());
        spec.layers.push(LayerSpec::One(Simple::Dense { out: n, act: Act::Linear, bias: rep % 2 == 0, dropout: None }));
        let mut w = vec![0.0f32; n * n];
        for i in 0..n {
            w[i * n + i] = 1.0;
        }
        spec.weights = Some(vec![LW::One(W::Dense(t2(n, n, &w), if rep % 2 == 0 { Some(t1(vec![0.0; n])) } else { None }))]);
        spec.opt = rand_opt(rng, rep % 5);
        spec.obj = Obj::MSE;
        let b = *rng.pick(&[1usize, 2]);
        let nsamp = rng.range(3, 6);
        let data: Vec<(Tensor, Tensor)> = (0..nsamp).map(|k| {
            let x: Vec<f32> = (0..n).map(|_| rng.sym()).collect();
            let t: Vec<f32> = if k < 2 * b || k % 3 == 0 { x.clone() } else { x.iter().map(|v| v + 0.5).collect() };
            (t1(x), t1(t))
        }).collect();
        let epochs = rng.range(2, 3) as i32;
        let key = format!("learn-replay/exact-fit-groups/{}", spec.opt.kind());
        let got = guard(|| {
            let mut net = spec.build();
            let h = run_learn(&mut net, &data, None, b, epochs);
            (h, wtok(&net))
        });
        let want = guard(|| replay_learn(&spec, &data, b, epochs)).and_then(|x| x);
        if let (Ok((_, w)), Ok((_, rw))) = (got, want) {
            f.check(&key, w == rw, "parameters after learn differ from the hand replay when some groups are fitted exactly (a zero-gradient step still applies decay / momentum / moments)", || {
                format!("{}; B={} E={}; data {}", fmt_spec(&spec), b, epochs, fmt_pairs(&data))
            });
        }
    }
    f
}

// ------------------------------------------------------------------ C09

/// indices of the top-level dense layers. `validate` clears the training flags of everything up to
/// and including the first of them and stops at the second.
fn dense_positions(s: &NetSpec) -> Vec<usize> {
    s.layers.iter().enumerate().filter(|(_, l)| matches!(l, LayerSpec::One(Simple::Dense { .. }))).map(|(i, _)| i).collect()
}
/// class of the dropout positions (a function of the layer list only)
fn dropout_class(s: &NetSpec) -> &'static str {
    if !s.layers.iter().any(layer_dropout) {
        return "no-dropout";
    }
    let d = dense_positions(s);
    let k1 = d.first().cloned().unwrap_or(s.layers.len());
    if let Some(k2) = d.get(1) {
        if s.layers[*k2..].iter().any(layer_dropout) {
            return "dropout-at-or-after-second-dense";
        }
    }
    if s.layers.iter().skip(k1 + 1).any(layer_dropout) {
        "dropout-between-first-and-second-dense"
    } else {
        "dropout-only-up-to-first-dense"
    }
}

fn droppable(s: &NetSpec, range: std::ops::Range<usize>) -> Vec<usize> {
    range.filter(|i| !matches!(s.layers[*i], LayerSpec::One(Simple::Maxpool { .. }))).collect()
}

/// steers the dropout positions of `spec` into the wanted class (0 none, 1 only up to the first
/// top-level dense layer, 2 also strictly between the first and the second one but not later,
/// 3 at or after the second one); false when impossible for this layer sequence
fn steer_dropout(rng: &mut Rng, spec: &mut NetSpec, want: usize, rate: f32) -> bool {
    let d = dense_positions(spec);
    let n = spec.layers.len();
    let k1 = match d.first() {
        Some(k) => *k,
        None => return false,
    };
    let k2 = d.get(1).cloned();
    let force_in = |rng: &mut Rng, spec: &mut NetSpec, cands: Vec<usize>| -> bool {
        if cands.iter().any(|i| layer_dropout(&spec.layers[*i])) {
            return true;
        }
        if cands.is_empty() {
            return false;
        }
        let i = *rng.pick(&cands);
        force_layer_dropout(rng, &mut spec.layers[i], rate)
    };
    match want {
        0 => {
            spec.layers.iter_mut().for_each(clear_layer_dropout);
            true
        }
        1 => {
            spec.layers[k1 + 1..].iter_mut().for_each(clear_layer_dropout);
            let c = droppable(spec, 0..k1 + 1);
            force_in(rng, spec, c)
        }
        2 => {
            let k2 = match k2 {
                Some(k) => k,
                None => return false,
            };
            spec.layers[k2..].iter_mut().for_each(clear_layer_dropout);
            let c = droppable(spec, k1 + 1..k2);
            force_in(rng, spec, c)
        }
        _ => {
            let k2 = match k2 {
                Some(k) => k,
                None => return false,
            };
            // the head keeps whatever the generator drew
            let c = droppable(spec, k2..n);
            force_in(rng, spec, c)
        }
    }
}

pub fn fals_c09(rng: &mut Rng, thorough: bool) -> Fals {
    let mut f = Fals::new();
    let mut o = GenOpts::default();
    o.wkind = 2;
    o.dropout = true;
    o.max_flat = 8;
    o.acts = vec![Act::Linear, Act::Tanh, Act::Sigmoid, Act::Leaky];
    let nets = if thorough { 600 } else { 96 };
    let mut built = 0usize;
    let mut tries = 0usize;
    while built < nets && tries < nets * 40 {
        tries += 1;
        let want = built % 4;
        // the first networks of every class are tiny flat ones (readable counterexamples come first)
        let small = built < 8 && want != 2;
        let spatial = !small && (built / 4) % 3 == 2;
        // a layer strictly between two top-level dense layers is a block (or a spatial layer)
        let with_block = !small && (want == 2 || (built / 12) % 2 == 1);
        let depth = if small { rng.range(2, 3) } else if want >= 2 { rng.range(2, 4) } else { rng.range(1, 4) };
        let mut oo = o.clone();
        if small {
            oo.max_flat = 3;
            oo.dropout = false;
        }
        // eight networks are blocks in which a max-pool layer stands first / last / in the middle (see gen_net2)
        // and as many as there are special-relation layers carry dropout on such a layer (pointwise, patch-wise, ...)
        let nspecial = crate::netgen::special_relation_layers().len();
        let special = if built >= 8 && built < 16 {
            crate::gen_net2::pool_dropout_block_net(rng, built - 8)
        } else if built >= 16 && built < 16 + nspecial && tries < nets * 20 {
            match crate::gen_net2::dropout_special_net(rng, built - 16) {
                Some(x) => Some(x),
                None => { built += 1; continue }
            }
        } else {
            None
        };
        let is_special = special.is_some();
        let (mut spec, input, outsh) = match special {
            Some(x) => x,
            None => match seq_net(rng, &oo, spatial, depth, with_block, true) {
                Some(x) => x,
                None => continue,
            },
        };
        if !is_special && small && (input.numel() > 2 || arch_of(&spec) != "dense") {
            continue;
        }
        let rate = if small { 0.9 } else { *rng.pick(&[0.3f32, 0.5, 0.9, 0.99]) };
        if !is_special && !steer_dropout(rng, &mut spec, want, rate) {
            continue;
        }
        let lr = *rng.pick(&[0.05f32, 0.01, 1e-30]);
        let ok = rng.below(5);
        spec.opt = if rng.chance(1, 4) { rand_opt(rng, ok) } else { Opt::SGD { lr, decay: None } };
        spec.obj = Obj::MSE;
        let cls = dropout_class(&spec);
        let twin_spec = without_dropout(&spec);
        let nd = rng.range(1, 4);
        let data = rand_data(rng, nd, input, outsh, Obj::MSE);
        let nv = rng.range(1, 3);
        let val = rand_data(rng, nv, input, outsh, Obj::MSE);
        let probes: Vec<Tensor> = (0..3).map(|_| rand_input(rng, input, 2)).collect();
        let batch = rng.range(1, 3);
        let epochs = rng.range(1, 3) as i32;
        let tol = *rng.pick(&[0.1f32, 0.5, 1e-6]);
        let base = || format!("{}; training data {}; validation data {}; batch {}", fmt_spec(&spec), fmt_pairs(&data), fmt_pairs(&val), batch);

        // the network must be usable at all (layer defects of other properties are skipped)
        let usable = guard(|| {
            let n = spec.build();
            let t = twin_spec.build();
            probes.iter().all(|x| t_eq(&n.predict(x), &t.predict(x)))
        });
        match usable {
            Err(_) => continue,
            Ok(same) => f.check(&format!("predict-before-training/{}", cls), same, "prediction of an untrained network differs from the dropout-free twin", || base()),
        }
        built += 1;

        // (b) validate: outside training, and with the training flags raised as `learn` does
        for in_training in [false, true] {
            let r = guard(|| {
                let mut n = spec.build();
                let mut t = twin_spec.build();
                if in_training {
                    n.verif_set_training(true);
                }
                (run_validate(&mut n, &val, tol), run_validate(&mut t, &val, tol))
            });
            if let Ok((a, b)) = r {
                let key = format!("{}/{}", if in_training { "validate-in-training" } else { "validate-outside-training" }, cls);
                f.check(&key, f_eq(a.0, b.0) && f_eq(a.1, b.1), "validate differs from validate of the dropout-free twin", || {
                    format!("{}; tolerance {}; training flags {} -> (loss, accuracy) {:?}, dropout-free {:?}", base(), tol, if in_training { "raised (verif_set_training(true))" } else { "not raised" }, a, b)
                });
            }
        }

        // (a) after learn returns: three ways of ending; (b) the last reported validation metrics are
        // those of the dropout-free network carrying the weights learn left
        let modes: [(&str, Option<i32>, i32); 3] = [("no-validation", None, epochs), ("validation-all-epochs", Some(100), epochs), ("early-stopped(tolerance=1)", Some(1), rng.range(2, 4) as i32)];
        for (mode, th, ep) in modes {
            let ep_list: Vec<i32> = if mode == "validation-all-epochs" { (1..=ep).collect() } else { vec![ep] };
            for e in ep_list {
                let r = guard(|| {
                    let mut n = spec.build();
                    let h = run_learn(&mut n, &data, th.map(|t| (&val[..], t)), batch, e);
                    let mut t = twin_spec.build();
                    copy_params(&n, &mut t);
                    let flags = n.verif_flags();
                    let preds: Vec<(Tensor, Tensor)> = probes.iter().chain(data.iter().map(|d| &d.0)).map(|x| (n.predict(x), t.predict(x))).collect();
                    let pb = n.predict_batch(&probes.iter().collect());
                    let pb_ok = pb.len() == probes.len() && pb.iter().zip(probes.iter()).all(|(p, x)| t_eq(p, &t.predict(x)));
                    let vn = run_validate(&mut n, &val, 1e-6);
                    let vt = run_validate(&mut t, &val, 1e-6);
                    (h, flags, preds, pb_ok, vn, vt)
                });
                let ((_, vl, va), flags, preds, pb_ok, vn, vt) = match r {
                    Ok(x) => x,
                    Err(_) => continue, // NaN loss or a layer defect: not this property
                };
                let d2 = || format!("{}; learn(validation {}, epochs {})", base(), match th { Some(t) => format!("given with tolerance {}", t), None => "none".to_string() }, e);
                if e == ep {
                    let key = format!("after-learn/{}/{}", mode, cls);
                    f.check(&key, flags.iter().all(|x| *x != Some(true)), "a training flag is still raised after learn returned", || format!("{} -> flags {:?}", d2(), flags));
                    let bad = preds.iter().position(|(a, b)| !t_eq(a, b));
                    f.check(&key, bad.is_none() && pb_ok, "prediction after learn differs from the dropout-free twin carrying the same parameters", || {
                        let k = bad.unwrap_or(0);
                        format!("{} -> input #{} (3 probes, then the training inputs): {} vs dropout-free {}", d2(), k, fmt_t(&preds[k].0), fmt_t(&preds[k].1))
                    });
                    f.check(&key, f_eq(vn.0, vt.0) && f_eq(vn.1, vt.1), "validate after learn differs from the dropout-free twin", || format!("{} -> {:?} vs {:?}", d2(), vn, vt));
                }
                if th.is_some() && !vl.is_empty() && !va.is_empty() {
                    let key = format!("learn-validation-metrics/{}", cls);
                    let (l, a) = (*vl.last().unwrap(), *va.last().unwrap());
                    f.check(&key, f_eq(l, vt.0) && f_eq(a, vt.1), "last validation loss/accuracy reported by learn is not that of the dropout-free network with the parameters learn left", || {
                        format!("{} -> reported (loss {:?}, accuracy {:?}) after {} recorded epochs, dropout-free network: {:?}", d2(), l, a, vl.len(), vt)
                    });
                }
            }
        }
    }
    // networks without a dense layer at the top level (fully convolutional) with dropout: the flags
    // are cleared after learn and prediction equals the dropout-free twin carrying the same parameters
    for _ in 0..(if thorough { 60 } else { 10 }) {
        let input = Sh::Sp(1, rng.range(2, 4), rng.range(2, 4));
        let depth = rng.range(1, 3);
        let (mut spec, shapes) = match rand_seq(rng, &o, input, depth, &["conv", "deconv", "conv"], false) { Some(x) => x, None => continue };
        if let Some(LayerSpec::One(Simple::Conv { dropout, .. })) | Some(LayerSpec::One(Simple::Deconv { dropout, .. })) = spec.layers.first_mut() {
            *dropout = Some(0.5);
        }
        spec.opt = Opt::SGD { lr: 0.05, decay: None };
        spec.obj = Obj::MSE;
        let twin_spec = without_dropout(&spec);
        let outsh = *shapes.last().unwrap();
        let data = rand_data(rng, 2, input, outsh, Obj::MSE);
        let probe = rand_input(rng, input, 2);
        let r = guard(|| {
            let mut n = spec.build();
            run_learn(&mut n, &data, None, 1, 2);
            let mut t = twin_spec.build();
            copy_params(&n, &mut t);
            (n.verif_flags(), n.predict(&probe), t.predict(&probe))
        });
        if let Ok((flags, a, b)) = r {
            f.check("after-learn/no-validation/no-top-level-dense", flags.iter().all(|x| *x != Some(true)) && t_eq(&a, &b),
                    "after learn a network without a top-level dense layer keeps a training flag raised or predicts with dropout", || {
                format!("{}; training data {} -> flags {:?}; prediction {} vs dropout-free {}", fmt_spec(&spec), fmt_pairs(&data), flags, fmt_t(&a), fmt_t(&b))
            });
        }
    }
    f
}

// ------------------------------------------------------------------ C10

fn block_kind(ls: &[Simple]) -> String {
    let dense = ls.iter().any(|l| matches!(l, Simple::Dense { .. }));
    let conv = ls.iter().any(|l| matches!(l, Simple::Conv { .. }));
    let deconv = ls.iter().any(|l| matches!(l, Simple::Deconv { .. }));
    if dense {
        if ls.iter().any(|l| matches!(l, Simple::Dense { bias: true, .. })) { "dense-bias".into() } else { "dense-nobias".into() }
    } else if conv && deconv {
        "conv+deconv".into()
    } else if conv {
        "conv".into()
    } else {
        "deconv".into()
    }
}

/// parameters of a layer list on input `inp`, each counted once, from the description alone
fn count_params(ls: &[Simple], inp: Sh) -> Option<(usize, Sh)> {
    let mut cur = inp;
    let mut n = 0usize;
    for l in ls {
        n += match l {
            Simple::Dense { out, bias, .. } => cur.numel() * out + if *bias { *out } else { 0 },
            Simple::Conv { filters, kernel, .. } | Simple::Deconv { filters, kernel, .. } => filters * as_spatial(cur)?.0 * kernel.0 * kernel.1,
            Simple::Maxpool { .. } => 0,
        };
        cur = out_shape(l, cur)?;
    }
    Some((n, cur))
}
fn count_net_params(s: &NetSpec, input: Sh) -> Option<usize> {
    let mut cur = input;
    let mut n = 0usize;
    for l in &s.layers {
        let (k, next) = match l {
            LayerSpec::One(x) => count_params(std::slice::from_ref(x), cur)?,
            LayerSpec::Block { layers, .. } => count_params(layers, cur)?,
        };
        n += k;
        cur = next;
    }
    Some(n)
}

/// first violation of the tie in any feedback block of `n` (None = all repetitions identical)
fn tie_violation(n: &Network, spec: &NetSpec) -> Option<String> {
    for (li, (l, ls)) in n.layers.iter().zip(spec.layers.iter()).enumerate() {
        if let (network::Layer::Feedback(b), LayerSpec::Block { layers, loops, .. }) = (l, ls) {
            let len = layers.len();
            if b.layers.len() != len * loops {
                return Some(format!("block at layer {} holds {} layers, expected {} x {}", li, b.layers.len(), len, loops));
            }
            for k in 0..len {
                for i in 1..*loops {
                    let same = match (&b.layers[k], &b.layers[k + i * len]) {
                        (network::Layer::Dense(a), network::Layer::Dense(c)) => t_eq(a.verif_weights(), c.verif_weights()) && ot_eq(a.verif_bias(), c.verif_bias()),
                        (network::Layer::Convolution(a), network::Layer::Convolution(c)) => {
                            a.verif_kernels().len() == c.verif_kernels().len() && a.verif_kernels().iter().zip(c.verif_kernels().iter()).all(|(x, y)| t_eq(x, y))
                        }
                        (network::Layer::Deconvolution(a), network::Layer::Deconvolution(c)) => {
                            a.verif_kernels().len() == c.verif_kernels().len() && a.verif_kernels().iter().zip(c.verif_kernels().iter()).all(|(x, y)| t_eq(x, y))
                        }
                        (network::Layer::Maxpool(_), network::Layer::Maxpool(_)) => true,
                        _ => false,
                    };
                    if !same {
                        return Some(format!("block at layer {}: block layer {} of repetition {} differs from repetition 0 (unrolled indices {} and {})", li, k, i, k + i * len, k));
                    }
                }
            }
        }
    }
    None
}

pub fn fals_c10(rng: &mut Rng, thorough: bool) -> Fals {
    let mut f = Fals::new();
    let mut o = GenOpts::default();
    o.wkind = 2;
    o.acts = vec![Act::Linear, Act::Tanh, Act::Sigmoid, Act::ReLU, Act::Leaky];
    let reps = if thorough { 30 } else { 3 };
    let accs = [Acc::Add, Acc::Sub, Acc::Mul, Acc::Mean];
    let mut serial = 0usize;
    for _ in 0..reps {
        for spatial in [false, true] {
            for loops in 1..=4usize {
                for acc in accs {
                    for kind in 0..5usize {
                        serial += 1;
                        // block description (for spatial blocks steer the layer kinds: conv only / deconv only / both)
                        let mut made = None;
                        for _ in 0..60 {
                            // one optimizer kind in five: a WIDE dense block with bias (loops x scalars beyond 2^13)
                            let wide = !spatial && kind == 2;
                            let input = if wide { Sh::Flat(if loops >= 2 { 64 } else { 91 }) } else if spatial { Sh::Sp(rng.range(1, 2), rng.range(2, 4), rng.range(2, 4)) } else { Sh::Flat(rng.range(1, 5)) };
                            let nl = if wide { 1 } else { rng.range(1, 3) };
                            let mut oo = o.clone();
                            if !spatial {
                                oo.bias = match serial % 3 { 0 => Some(true), 1 => Some(false), _ => None };
                            }
                            if wide {
                                oo.bias = Some(true);
                            }
                            let ls = match rand_block_layers(rng, &oo, input, nl) {
                                Some(l) => l,
                                None => continue,
                            };
                            if spatial {
                                let want = ["conv", "deconv", "conv+deconv"][serial % 3];
                                if block_kind(&ls) != want {
                                    continue;
                                }
                            }
                            if let Some(bw) = block_weights(rng, &ls, input, 2) {
                                made = Some((input, ls, bw));
                                break;
                            }
                        }
                        let (input, ls, bw) = match made {
                            Some(x) => x,
                            None => continue,
                        };
                        let bk = block_kind(&ls);
                        let mut spec = NetSpec::new(input.to_shape());
                        let mut ws = vec![];
                        let mut outsh = input;
                        // optional dense layer in front (flat only), the block, optional dense layer behind
                        if !spatial && rng.chance(1, 3) {
                            let d = Simple::Dense { out: input.numel(), act: *rng.pick(&o.acts), bias: rng.coin(), dropout: None };
                            ws.push(LW::One(rand_w(rng, &d, input, 2)));
                            spec.layers.push(LayerSpec::One(d));
                        }
                        let (inskips, outskips) = (rng.chance(1, 5), rng.chance(1, 5));
                        spec.layers.push(LayerSpec::Block { layers: ls.clone(), loops, inskips, outskips, acc });
                        ws.push(bw);
                        if rng.chance(2, 3) {
                            let d = Simple::Dense { out: rng.range(1, 4), act: *rng.pick(&o.acts), bias: rng.coin(), dropout: None };
                            ws.push(LW::One(rand_w(rng, &d, Sh::Flat(input.numel()), 2)));
                            outsh = Sh::Flat(match &d { Simple::Dense { out, .. } => *out, _ => 0 });
                            spec.layers.push(LayerSpec::One(d));
                        }
                        spec.weights = Some(ws);
                        spec.opt = rand_opt(rng, kind);
                        spec.obj = Obj::MSE;
                        let lk = if loops == 1 { "loops=1" } else { "loops>1" };

                        // creation: parameters drawn by the library itself
                        let mut fresh = spec.clone();
                        fresh.weights = None;
                        match guard(|| {
                            let n = fresh.build();
                            (tie_violation(&n, &fresh), n.verif_parameters())
                        }) {
                            Ok((viol, params)) => {
                                f.check(&format!("creation/{}/{}", bk, lk), viol.is_none(), "repetitions of a freshly created block differ", || {
                                    format!("network(input {:?}; layers {:?}) with library-initialised parameters -> {}", fresh.input, fresh.layers, viol.clone().unwrap_or_default())
                                });
                                let want = count_net_params(&spec, input);
                                f.check(&format!("parameters/{}/{}", bk, lk), Some(params) == want, "reported parameter count differs from the count of the description (shared parameters once)", || {
                                    format!("network(input {:?}; layers {:?}) -> reported {}, expected {:?}", fresh.input, fresh.layers, params, want)
                                });
                            }
                            Err(e) => f.check(&format!("creation/{}/{}", bk, lk), false, "building the network panicked", || format!("network(input {:?}; layers {:?}) -> {}", fresh.input, fresh.layers, e)),
                        }

                        // training
                        let n = rng.range(1, 4);
                        let batch = rng.range(1, 3);
                        let epochs = rng.range(1, 4) as i32;
                        let data = rand_data(rng, n, input, outsh, Obj::MSE);
                        let unsupported = spatial && loops > 1 && matches!(acc, Acc::Sub | Acc::Mul);
                        let skips = inskips || outskips;
                        let key = if unsupported {
                            "coupling/nested-sub-mul-unsupported".to_string()
                        } else {
                            format!("after-learn/{}/{:?}/{}", bk, acc, lk)
                        };
                        let r = guard(|| {
                            let mut net = spec.build();
                            let before = tie_violation(&net, &spec);
                            run_learn(&mut net, &data, None, batch, epochs);
                            (before, tie_violation(&net, &spec), net.verif_parameters())
                        });
                        let desc = || format!("{}; data {}; batch {}; epochs {}", fmt_spec(&spec), fmt_pairs(&data), batch, epochs);
                        match r {
                            Ok((before, after, params)) => {
                                f.check(&key, before.is_none() && after.is_none(), "repetitions of a block differ after training", || {
                                    format!("{} -> {}", desc(), before.clone().or(after.clone()).unwrap_or_default())
                                });
                                f.check(&format!("parameters/{}/{}", bk, lk), Some(params) == count_net_params(&spec, input), "parameter count after training differs from the count of the description", || {
                                    format!("{} -> reported {}", desc(), params)
                                });
                            }
                            Err(e) if unsupported => f.check(&key, true, "", || e.clone()),
                            Err(e) if e.contains("NaN") => (), // documented refusal of learn on a diverged run
                            Err(_) if skips => (),             // forward / backward through internal skips: other properties (C11, C01 excludes them)
                            Err(e) => f.check(&key, false, "learn panicked on a supported block configuration", || format!("{} -> {}", desc(), e)),
                        }
                    }
                }
            }
        }
    }
    f
}

// ------------------------------------------------------------------ C12

const CHUNK: usize = 64;
fn size_class(n: usize) -> &'static str {
    if n == 0 {
        "n=0"
    } else if n < CHUNK {
        "n<chunk"
    } else if n == CHUNK {
        "n=chunk"
    } else if n % CHUNK == 0 {
        "n=k*chunk"
    } else {
        "n>chunk-not-multiple"
    }
}

/// indices of the maximal components
fn max_set(v: &[f32]) -> Vec<usize> {
    let m = v.iter().cloned().fold(f32::NEG_INFINITY, f32::max);
    (0..v.len()).filter(|i| v[*i] == m).collect()
}

fn mean_in_order(v: &[f32]) -> f32 {
    let mut s: f32 = -0.0;
    for x in v {
        s += *x;
    }
    s / v.len() as f32
}

/// per-sample accuracy bounds (lo, hi) per the property text; lo == hi unless the sample is a tie
/// (soft-max) or a component sits on the tolerance boundary
fn sample_accuracy(softmax: bool, p: &[f32], t: &[f32], tol: f32) -> (f32, f32) {
    if softmax {
        let (ps, ts) = (max_set(p), max_set(t));
        if !ps.iter().any(|i| ts.contains(i)) {
            (0.0, 0.0)
        } else if ps.len() == 1 && ts.len() == 1 {
            (1.0, 1.0)
        } else {
            (0.0, 1.0)
        }
    } else {
        let (mut lo, mut hi) = (0usize, 0usize);
        for (a, b) in t.iter().zip(p.iter()) {
            let d = (*a as f64 - *b as f64).abs();
            let tl = tol as f64;
            let band = 1e-6 * d.max(tl.abs()) + 1e-30;
            if d < tl - band {
                lo += 1;
                hi += 1;
            } else if d <= tl + band {
                hi += 1;
            }
        }
        let n = t.len() as f32;
        (lo as f32 / n, hi as f32 / n)
    }
}

pub fn fals_c12(rng: &mut Rng, thorough: bool) -> Fals {
    let mut f = Fals::new();
    let mut o = GenOpts::default();
    o.wkind = 2;
    let sizes = [1usize, 2, 63, 64, 65, 127, 128, 129, 200, 191, 192, 193, 256, 257, 300];
    let reps = if thorough { 20 } else { 2 };
    let mut serial = 0usize;
    for rep in 0..reps {
        for &size in &sizes {
            for outkind in ["softmax", "single-output", "multi-output"] {
                serial += 1;
                let n = if rep % 3 == 2 && size < CHUNK { rng.range(1, 62) } else { size };
                // architecture: dense chains, spatial front ends, feedback blocks
                let arch_sel = serial % 4;
                let mut made = None;
                for _ in 0..60 {
                    let depth = rng.range(1, 3);
                    if let Some(x) = seq_net(rng, &o, arch_sel == 2, depth, arch_sel == 3, true) {
                        made = Some(x);
                        break;
                    }
                }
                let (mut spec, input, _) = match made {
                    Some(x) => x,
                    None => continue,
                };
                // the wanted output layer
                let nl = spec.layers.len();
                let prev_numel = match &spec.weights.as_ref().unwrap()[nl - 1] {
                    LW::One(W::Dense(w, _)) => match w.shape {
                        neurons::tensor::Shape::Double(_, i) => i,
                        _ => continue,
                    },
                    _ => continue,
                };
                let out = if outkind == "single-output" { 1 } else { rng.range(2, 5) };
                let act = if outkind == "softmax" { Act::Softmax } else { *rng.pick(&[Act::Linear, Act::Tanh, Act::Sigmoid, Act::ReLU, Act::Leaky]) };
                let last = Simple::Dense { out, act, bias: rng.coin(), dropout: None };
                spec.weights.as_mut().unwrap()[nl - 1] = LW::One(rand_w(rng, &last, Sh::Flat(prev_numel), 2));
                spec.layers[nl - 1] = LayerSpec::One(last);
                // a soft-max HIDDEN layer must not change the accuracy rule (it follows the output layer)
                if serial % 3 == 1 {
                    for k in 0..nl.saturating_sub(1) {
                        if let LayerSpec::One(Simple::Dense { act: a, .. }) = &mut spec.layers[k] {
                            *a = Act::Softmax;
                            break;
                        }
                    }
                }
                let outsh = Sh::Flat(out);
                let prob = matches!(act, Act::Softmax | Act::Sigmoid);
                spec.obj = if prob { ALL_OBJS[serial % 7] } else { [Obj::AE, Obj::MAE, Obj::MSE, Obj::RMSE][serial % 4] };
                let arch = arch_of(&spec);

                let net = match guard(|| spec.build()) {
                    Ok(n) => n,
                    Err(_) => continue,
                };
                let mut net = net;
                // data: random targets, some equal to / close to the prediction, one-hot (with ties) behind soft-max
                let xs: Vec<Tensor> = (0..n).map(|_| rand_input(rng, input, 2)).collect();
                let preds = match guard(|| xs.iter().map(|x| net.predict(x)).collect::<Vec<Tensor>>()) {
                    Ok(p) => p,
                    Err(_) => continue, // a layer defect of another property
                };
                if preds.iter().any(|p| flat_of(p).iter().any(|v| v.is_nan())) {
                    continue;
                }
                let mut data: Vec<(Tensor, Tensor)> = vec![];
                for (x, p) in xs.iter().zip(preds.iter()) {
                    let pv = flat_of(p);
                    let t = if outkind == "softmax" {
                        match rng.below(6) {
                            0 | 1 => {
                                let mut v = vec![0.0f32; out];
                                v[rng.below(out)] = 1.0;
                                t1(v)
                            }
                            2 => {
                                let mut v = vec![0.0f32; out];
                                v[max_set(&pv)[0]] = 1.0;
                                t1(v)
                            }
                            3 => {
                                let mut v = vec![0.0f32; out];
                                v[rng.below(out)] = 1.0;
                                v[rng.below(out)] = 1.0;
                                t1(v)
                            }
                            _ => rand_target(rng, outsh, Obj::CE),
                        }
                    } else {
                        match rng.below(5) {
                            0 => t1(pv.clone()),
                            1 => t1(pv.iter().map(|v| v + if rng.coin() { 0.05 } else { 0.3 }).collect()),
                            2 => t1(pv.iter().map(|v| if rng.coin() { *v } else { v - 0.2 }).collect()),
                            _ => rand_target(rng, outsh, spec.obj),
                        }
                    };
                    data.push((x.clone(), t));
                }
                let sc = size_class(n);
                let desc_net = fmt_spec(&spec);

                // predict == last activation of forward
                let pf_bad = preds.iter().zip(xs.iter()).position(|(p, x)| !t_eq(p, net.forward(x).1.last().unwrap()));
                f.check(&format!("predict-vs-forward/{}", arch), pf_bad.is_none(), "predict differs from the last activation of forward", || {
                    format!("{}; input {}", desc_net, fmt_t(&xs[pf_bad.unwrap_or(0)]))
                });

                // predict_batch
                let ms: Vec<usize> = if serial % 3 == 0 { vec![n, 0] } else { vec![n] };
                for m in ms {
                    let sub: Vec<&Tensor> = xs.iter().take(m).collect();
                    match guard(|| net.predict_batch(&sub)) {
                        Ok(pb) => {
                            let bad = pb.iter().zip(preds.iter()).position(|(a, b)| !t_eq(a, b));
                            f.check(&format!("predict_batch/{}/{}", size_class(m), arch), pb.len() == m && bad.is_none(), "predict_batch is not predict of each input in input order", || {
                                format!("{}; {} inputs (returned {}), first differing position {:?}; inputs {:?}", desc_net, m, pb.len(), bad, xs.iter().take(m).map(fmt_t).collect::<Vec<_>>())
                            });
                        }
                        Err(e) => f.check(&format!("predict_batch/{}/{}", size_class(m), arch), false, "predict_batch panicked although predict runs on every input", || format!("{}; {} inputs -> {}", desc_net, m, e)),
                    }
                }

                // validate
                let losses: Vec<f32> = preds.iter().zip(data.iter()).map(|(p, d)| net.verif_objective().loss(p, &d.1).0).collect();
                let want_loss = mean_in_order(&losses);
                let mean64: f64 = losses.iter().map(|x| *x as f64).sum::<f64>() / n as f64;
                for tol in [1e-6f32, 0.1, *rng.pick(&[0.0f32, 0.25, 0.5, 10.0])] {
                    let r = guard(|| run_validate(&mut net, &data, tol));
                    let kl = format!("validate-loss/{}/{}", sc, outkind);
                    let ka = format!("validate-accuracy/{}/{}", sc, outkind);
                    let (l, a) = match r {
                        Ok(x) => x,
                        Err(e) => {
                            f.check(&kl, false, "validate panicked although predict and the objective run on every sample", || {
                                format!("{}; tolerance {}; data {} -> {}", desc_net, tol, fmt_pairs(&data), e)
                            });
                            continue;
                        }
                    };
                    f.check(&kl, f_eq(l, want_loss), "validate loss is not the f32 mean (in-order sum / count) of objective.loss(predict(x), t)", || {
                        format!("{}; tolerance {}; data {} -> validate {:?}, in-order f32 mean {:?} (f64 mean {:e})", desc_net, tol, fmt_pairs(&data), l, want_loss, mean64)
                    });
                    let bounds: Vec<(f32, f32)> = preds.iter().zip(data.iter()).map(|(p, d)| sample_accuracy(outkind == "softmax", &flat_of(p), &flat_of(&d.1), tol)).collect();
                    let exact = bounds.iter().all(|(lo, hi)| lo == hi);
                    let lo = mean_in_order(&bounds.iter().map(|b| b.0).collect::<Vec<_>>());
                    let hi = mean_in_order(&bounds.iter().map(|b| b.1).collect::<Vec<_>>());
                    let ok = if exact { f_eq(a, lo) } else { a >= lo - 1e-4 && a <= hi + 1e-4 };
                    f.check(&ka, ok, "validate accuracy is not the mean per-sample score (arg-max agreement behind soft-max, else fraction of components within the tolerance)", || {
                        format!("{}; tolerance {}; data {} -> validate {:?}, expected {}", desc_net, tol, fmt_pairs(&data), a, if exact { format!("{:?}", lo) } else { format!("within [{:?}, {:?}] (ties / boundary components)", lo, hi) })
                    });
                }
            }
        }
    }
    f
}

// ------------------------------------------------------------------ C13

/// (objective, learning rate, validation target, designed shape of the validation-loss trajectory)
/// for the 1 -> 1 linear network with weight 0.5, trained on (x = 1, t = 1), validated on (x = 1, t = vt)
const C13_CONFIGS: [(Obj, f32, f32, &str); 16] = [
    (Obj::MSE, 0.1, 1.0, "falling"),
    (Obj::MSE, 0.25, 3.0, "falling"),
    (Obj::MSE, 0.9, 1.0, "falling"),
    (Obj::MSE, -0.05, 1.0, "rising"),
    (Obj::MSE, -0.2, 1.0, "rising"),
    (Obj::MSE, 2.0, 1.0, "rising"),
    (Obj::MSE, 2.2, 0.5, "rising"),
    (Obj::MSE, 0.25, 0.0, "rising"),
    (Obj::MSE, 1.0, 1.0, "plateau"),
    (Obj::MSE, 1e-30, 3.0, "plateau"),
    (Obj::MSE, -1e-30, 1.0, "plateau"),
    (Obj::MSE, 1.0, 3.0, "oscillating"),
    (Obj::MSE, 0.9, 3.0, "oscillating"),
    (Obj::MSE, 2.0, -1.0, "fall-then-rise"),
    (Obj::MAE, 0.25, 0.0, "rise-then-plateau"),
    (Obj::MAE, 0.125, 1.0, "fall-then-plateau"),
];

fn expected_epochs(full: &[f32], t: usize, e: usize) -> usize {
    for ep in 1..=e {
        if ep > t && full[ep - t..ep].windows(2).all(|w| w[0] < w[1]) {
            return ep;
        }
    }
    e
}

pub fn fals_c13(_rng: &mut Rng, thorough: bool) -> Fals {
    let mut f = Fals::new();
    let (tmax, emax) = if thorough { (10usize, 30usize) } else { (6, 12) };
    let starts: &[f32] = if thorough { &[0.5, 0.75, 0.25] } else { &[0.5] };
    for (obj, lr, vt, shape) in C13_CONFIGS {
        for &w0 in starts {
            // other start weights keep the designed shape only for the geometric (MSE, vt = 1) families
            if w0 != 0.5 && !(obj == Obj::MSE && vt == 1.0) {
                continue;
            }
            let mut spec = NetSpec::new(Sh::Flat(1).to_shape());
            spec.layers.push(LayerSpec::One(Simple::Dense { out: 1, act: Act::Linear, bias: false, dropout: None }));
            spec.weights = Some(vec![LW::One(W::Dense(t2(1, 1, &[w0]), None))]);
            spec.opt = Opt::SGD { lr, decay: None };
            spec.obj = obj;
            let data = vec![(t1(vec![1.0]), t1(vec![1.0]))];
            let val = vec![(t1(vec![1.0]), t1(vec![vt]))];
            let base = format!("1->1 linear dense layer without bias, weight {}, SGD(lr {:e}), {:?}; training data (x=1, t=1); validation data (x=1, t={}); batch 1", w0, lr, obj, vt);
            // the whole trajectory from a run that cannot stop
            let full = match guard(|| {
                let mut n = spec.build();
                run_learn(&mut n, &data, Some((&val[..], 10_000)), 1, emax as i32)
            }) {
                Ok(h) => h,
                Err(e) => {
                    f.check(&format!("early-stop/{}/full-run", shape), false, "learn with an unreachable tolerance panicked", || format!("{}; tolerance 10000; epochs {} -> {}", base, emax, e));
                    continue;
                }
            };
            f.check(&format!("early-stop/{}/full-run", shape), full.0.len() == emax && full.1.len() == emax && full.2.len() == emax, "a run whose tolerance exceeds the epoch budget did not record every epoch", || {
                format!("{}; tolerance 10000; epochs {} -> lengths {} {} {}", base, emax, full.0.len(), full.1.len(), full.2.len())
            });
            if full.0.len() != emax || full.1.len() != emax || full.2.len() != emax {
                continue;
            }
            for e in 1..=emax {
                // without validation data
                let r = guard(|| {
                    let mut n = spec.build();
                    run_learn(&mut n, &data, None, 1, e as i32)
                });
                let key = format!("no-validation/{}", shape);
                match r {
                    Ok((tl, vl, va)) => f.check(&key, tl.len() == e && vl.is_empty() && va.is_empty() && v_eq(&tl, &full.0[..e]), "without validation data: not all epochs ran, or validation histories are not empty, or the training losses differ from the run with validation", || {
                        format!("{}; no validation; epochs {} -> train {:?} validation {:?} accuracy {:?}; expected train {:?}", base, e, tl, vl, va, &full.0[..e])
                    }),
                    Err(m) => f.check(&key, false, "learn panicked", || format!("{}; no validation; epochs {} -> {}", base, e, m)),
                }
                for t in 1..=tmax {
                    let key = format!("early-stop/{}/{}/{}", shape, if t == 1 { "T=1" } else { "T>=2" }, if e <= t { "E<=T" } else { "E>T" });
                    let n_exp = expected_epochs(&full.1, t, e);
                    let r = guard(|| {
                        let mut n = spec.build();
                        run_learn(&mut n, &data, Some((&val[..], t as i32)), 1, e as i32)
                    });
                    match r {
                        Ok((tl, vl, va)) => {
                            let ok = tl.len() == n_exp && vl.len() == n_exp && va.len() == n_exp && v_eq(&vl, &full.1[..n_exp]) && v_eq(&tl, &full.0[..n_exp]) && v_eq(&va, &full.2[..n_exp]);
                            f.check(&key, ok, "history lengths / contents differ from the contract (stop at the first epoch e > tolerance whose last `tolerance` validation losses rise strictly, else run all epochs)", || {
                                format!("{}; tolerance {}; epochs {} -> lengths (train {}, validation {}, accuracy {}), validation losses {:?}; expected {} epochs, validation-loss trajectory of the non-stopping run {:?}", base, t, e, tl.len(), vl.len(), va.len(), vl, n_exp, &full.1[..e])
                            });
                        }
                        Err(m) => f.check(&key, false, "learn panicked", || format!("{}; tolerance {}; epochs {} -> {}", base, t, e, m)),
                    }
                }
            }
        }
    }
    f
}
