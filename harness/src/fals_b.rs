//! Model-free falsifiers for C02 (forward operators), C08 (shapes), C11 (feedback blocks) and
//! C17 (loop connections). Every oracle here is either an f64 re-computation of the defining
//! formula, this module's own shape arithmetic, or a second way of computing the same value with
//! the public per-layer API of the library. Class keys are functions of the configuration only.
use crate::fals::Fals;
use crate::gen_net2::{block_weights, rand_block_layers};
use crate::netgen::*;
use crate::rng::Rng;
use crate::spec::*;
use crate::tok::*;
use neurons::network::{Layer, Network};
use neurons::tensor::{Data, Shape, Tensor};
use std::panic::{catch_unwind, AssertUnwindSafe};

// ------------------------------------------------------------------ helpers
fn guard<T>(f: impl FnOnce() -> T) -> Option<T> {
    catch_unwind(AssertUnwindSafe(f)).ok()
}

/// the recorded shape agrees with the actual nested lengths (rectangular data)
fn well_formed(t: &Tensor) -> bool {
    match (&t.shape, &t.data) {
        (Shape::Single(n), Data::Single(v)) => v.len() == *n,
        (Shape::Double(r, c), Data::Double(v)) => v.len() == *r && v.iter().all(|x| x.len() == *c),
        (Shape::Triple(c, h, w), Data::Triple(v)) => {
            v.len() == *c && v.iter().all(|m| m.len() == *h && m.iter().all(|r| r.len() == *w))
        }
        (Shape::Quadruple(a, c, h, w), Data::Quadruple(v)) => {
            v.len() == *a
                && v.iter().all(|q| q.len() == *c && q.iter().all(|m| m.len() == *h && m.iter().all(|r| r.len() == *w)))
        }
        _ => false,
    }
}

fn has_shape(t: &Tensor, s: &Shape) -> bool {
    t.shape == *s && well_formed(t)
}

/// numerically equal element by element (NaN equals NaN); no tolerance
fn num_eq(a: &[f32], b: &[f32]) -> bool {
    a.len() == b.len() && a.iter().zip(b).all(|(x, y)| x == y || (x.is_nan() && y.is_nan()))
}

fn tensor_eq(a: &Tensor, b: &Tensor) -> bool {
    a.shape == b.shape && well_formed(a) && well_formed(b) && num_eq(&flat_of(a), &flat_of(b))
}

fn vals(v: &[f32]) -> String {
    format!("{:?}", v)
}

fn tdesc(t: &Tensor) -> String {
    format!("{:?}{}", t.shape, vals(&flat_of(t)))
}

fn layer_fwd(l: &Layer, x: &Tensor) -> (Tensor, Tensor) {
    match l {
        Layer::Dense(l) => l.forward(x),
        Layer::Convolution(l) => l.forward(x),
        Layer::Deconvolution(l) => l.forward(x),
        Layer::Maxpool(l) => {
            let (pre, post, _) = l.forward(x);
            (pre, post)
        }
        Layer::Feedback(b) => {
            let (pre, post, _, _, _) = b.forward(x);
            (pre, post)
        }
    }
}

fn layer_shapes(l: &Layer) -> (Shape, Shape) {
    match l {
        Layer::Dense(l) => l.verif_shapes(),
        Layer::Convolution(l) => l.verif_shapes(),
        Layer::Deconvolution(l) => l.verif_shapes(),
        Layer::Maxpool(l) => l.verif_shapes(),
        Layer::Feedback(l) => l.verif_shapes(),
    }
}

/// bit patterns of the parameters of a plain layer
fn enc_layer_params(t: &mut Tok, l: &Layer) {
    match l {
        Layer::Dense(d) => {
            flat_of(d.verif_weights()).iter().for_each(|x| t.push(x.to_bits() as i128));
            if let Some(b) = d.verif_bias() {
                flat_of(b).iter().for_each(|x| t.push(x.to_bits() as i128));
            }
        }
        Layer::Convolution(c) => c.verif_kernels().iter().for_each(|k| flat_of(k).iter().for_each(|x| t.push(x.to_bits() as i128))),
        Layer::Deconvolution(c) => c.verif_kernels().iter().for_each(|k| flat_of(k).iter().for_each(|x| t.push(x.to_bits() as i128))),
        _ => {}
    }
}

fn wdesc(w: &W) -> String {
    match w {
        W::Dense(wt, b) => format!("W(row-major {:?})={} b={}", wt.shape, vals(&flat_of(wt)), match b { Some(b) => vals(&flat_of(b)), None => "none".into() }),
        W::Kernels(ks) => format!("kernels[filter](row-major c x kh x kw)={:?}", ks.iter().map(|k| flat_of(k)).collect::<Vec<_>>()),
        W::None => "-".into(),
    }
}

/// self-contained description of a network (layers, connections, explicit weights)
fn spec_desc(spec: &NetSpec) -> String {
    let mut s = format!("network input {:?}; layers: ", spec.input);
    for (i, l) in spec.layers.iter().enumerate() {
        s.push_str(&format!("[{}] {:?} ", i, l));
        if let Some(ws) = &spec.weights {
            match &ws[i] {
                LW::One(w) => s.push_str(&format!("with {}; ", wdesc(w))),
                LW::Block(b) => s.push_str(&format!("with per-repetition weights {:?}; ", b.iter().map(wdesc).collect::<Vec<_>>())),
            }
        }
    }
    if !spec.loops.is_empty() {
        s.push_str(&format!("loopback(outof, into, iterations, inskips)={:?} loop accumulation {:?}; ", spec.loops, spec.loopacc));
    }
    s
}

fn act64(a: Act, z: &[f64]) -> Vec<f64> {
    match a {
        Act::ReLU => z.iter().map(|x| x.max(0.0)).collect(),
        Act::Leaky => z.iter().map(|x| if *x > 0.0 { *x } else { 0.01f32 as f64 * *x }).collect(),
        Act::Sigmoid => z.iter().map(|x| 1.0 / (1.0 + (-x).exp())).collect(),
        Act::Tanh => z.iter().map(|x| x.tanh()).collect(),
        Act::Linear => z.to_vec(),
        Act::Softmax => {
            let m = z.iter().cloned().fold(f64::NEG_INFINITY, f64::max);
            let e: Vec<f64> = z.iter().map(|x| (x - m).exp()).collect();
            let s: f64 = e.iter().sum();
            e.iter().map(|x| x / s).collect()
        }
    }
}

/// tolerance of the pre-activation: f32 accumulation of n <= ~150 products of magnitude sum `mag`
fn tol_pre(mag: f64) -> f64 {
    5e-5 * mag + 1e-9
}

/// compares pre- and post-activation values with the f64 reference
fn cmp_pre_post(act: Act, pre: &[f32], post: &[f32], rpre: &[f64], mag: &[f64]) -> Result<(), String> {
    if pre.len() != rpre.len() || post.len() != rpre.len() {
        return Err(format!("{} / {} values produced, {} expected", pre.len(), post.len(), rpre.len()));
    }
    let rpost = act64(act, rpre);
    let tp: Vec<f64> = mag.iter().map(|m| tol_pre(*m)).collect();
    let tmax = tp.iter().cloned().fold(0.0, f64::max);
    for i in 0..rpre.len() {
        if !(pre[i].is_finite() && (pre[i] as f64 - rpre[i]).abs() <= tp[i]) {
            return Err(format!("pre-activation element {}: {:e}, defining sum gives {:e}", i, pre[i], rpre[i]));
        }
        let lip = if act == Act::Softmax { 2.0 * tmax } else { tp[i] };
        let t = lip + 2e-6 * (1.0 + rpost[i].abs());
        if !(post[i].is_finite() && (post[i] as f64 - rpost[i]).abs() <= t) {
            return Err(format!("output element {}: {:e}, activation of the defining sum gives {:e}", i, post[i], rpost[i]));
        }
    }
    Ok(())
}

fn feat(l: &Simple) -> String {
    let mut v: Vec<&str> = vec![];
    match l {
        Simple::Conv { kernel, stride, padding, dilation, .. } => {
            if stride.0 > 1 || stride.1 > 1 {
                v.push("stride>1");
            }
            if padding.0 > 0 || padding.1 > 0 {
                v.push("padding>0");
            }
            if eff_dilated(l) {
                v.push("dilation>1");
            }
            let _ = (kernel, dilation);
        }
        Simple::Deconv { stride, padding, .. } => {
            if stride.0 > 1 || stride.1 > 1 {
                v.push("stride>1");
            }
            if padding.0 > 0 || padding.1 > 0 {
                v.push("padding>0");
            }
        }
        Simple::Maxpool { kernel, stride } => {
            if stride.0 < kernel.0 || stride.1 < kernel.1 {
                v.push("overlapping");
            } else if stride == kernel {
                v.push("stride=kernel");
            } else {
                v.push("stride>kernel");
            }
        }
        Simple::Dense { .. } => {}
    }
    if v.is_empty() {
        "basic".into()
    } else {
        v.join("+")
    }
}

/// a dilation that actually spreads the kernel (kernel extent > 1 in a dilated dimension)
fn eff_dilated(l: &Simple) -> bool {
    match l {
        Simple::Conv { kernel, dilation, .. } => (dilation.0 > 1 && kernel.0 > 1) || (dilation.1 > 1 && kernel.1 > 1),
        _ => false,
    }
}

/// `Deconvolution::forward` evaluates (i-1)*s - 2p + k from left to right in usize
fn deconv_underflow(l: &Simple, h: usize, w: usize) -> bool {
    match l {
        Simple::Deconv { stride, padding, .. } => (h - 1) * stride.0 < 2 * padding.0 || (w - 1) * stride.1 < 2 * padding.1,
        _ => false,
    }
}

/// the class in which `Convolution::backward` underflows: (i-1)*s < (k-1)*(d-1) in a dimension
fn conv_bwd_underflow(l: &Simple, h: usize, w: usize) -> bool {
    match l {
        Simple::Conv { kernel, stride, dilation, .. } => {
            (h - 1) * stride.0 < (kernel.0 - 1) * (dilation.0 - 1) || (w - 1) * stride.1 < (kernel.1 - 1) * (dilation.1 - 1)
        }
        _ => false,
    }
}

struct Ranges {
    cmax: usize,
    hmax: usize,
    fmax: usize,
    kmax: usize,
    smax: usize,
    pmax: usize,
    dmax: usize,
    numel_max: usize,
}

fn rpair(rng: &mut Rng, lo: usize, hi: usize, plain: usize) -> P2 {
    // one third: the plain value in both dimensions; otherwise independent (asymmetric) values
    if rng.chance(1, 3) {
        (plain, plain)
    } else {
        (rng.range(lo, hi), rng.range(lo, hi))
    }
}

fn gen_conv(rng: &mut Rng, r: &Ranges, act: Act) -> (Sh, Simple, Sh) {
    gen_conv_on(rng, r, act, None)
}

fn gen_conv_on(rng: &mut Rng, r: &Ranges, act: Act, fixed: Option<Sh>) -> (Sh, Simple, Sh) {
    loop {
        let inp = fixed.unwrap_or_else(|| Sh::Sp(rng.range(1, r.cmax), rng.range(1, r.hmax), rng.range(1, r.hmax)));
        let l = Simple::Conv {
            filters: rng.range(1, r.fmax),
            kernel: (rng.range(1, r.kmax), rng.range(1, r.kmax)),
            stride: rpair(rng, 1, r.smax, 1),
            padding: rpair(rng, 0, r.pmax, 0),
            dilation: rpair(rng, 1, r.dmax, 1),
            act,
            dropout: None,
        };
        if let Some(out) = out_shape(&l, inp) {
            if out.numel() <= r.numel_max {
                return (inp, l, out);
            }
        }
    }
}

fn gen_deconv(rng: &mut Rng, r: &Ranges, act: Act) -> (Sh, Simple, Sh) {
    loop {
        let inp = Sh::Sp(rng.range(1, r.cmax), rng.range(1, r.hmax), rng.range(1, r.hmax));
        let l = Simple::Deconv {
            filters: rng.range(1, r.fmax),
            kernel: (rng.range(1, r.kmax), rng.range(1, r.kmax)),
            stride: rpair(rng, 1, r.smax, 1),
            padding: rpair(rng, 0, r.pmax, 0),
            act,
            dropout: None,
        };
        if let Some(out) = out_shape(&l, inp) {
            if out.numel() <= r.numel_max {
                return (inp, l, out);
            }
        }
    }
}

fn gen_pool(rng: &mut Rng, r: &Ranges) -> (Sh, Simple, Sh) {
    loop {
        let inp = Sh::Sp(rng.range(1, r.cmax), rng.range(1, r.hmax), rng.range(1, r.hmax));
        let l = Simple::Maxpool { kernel: (rng.range(1, r.kmax), rng.range(1, r.kmax)), stride: rpair(rng, 1, r.smax, 1) };
        if let Some(out) = out_shape(&l, inp) {
            return (inp, l, out);
        }
    }
}

fn dims(s: Sh) -> (usize, usize, usize) {
    match s {
        Sh::Sp(c, h, w) => (c, h, w),
        Sh::Flat(n) => (1, 1, n),
    }
}

fn kernels_of(w: &W) -> Vec<Vec<f32>> {
    match w {
        W::Kernels(ks) => ks.iter().map(flat_of).collect(),
        _ => vec![],
    }
}

// ------------------------------------------------------------------ f64 reference operators
/// zero-padded, strided, dilated cross-correlation; returns (values, magnitude sums)
fn conv_ref(x: &[f32], inp: (usize, usize, usize), ker: &[Vec<f32>], k: P2, s: P2, p: P2, d: P2, oh: usize, ow: usize) -> (Vec<f64>, Vec<f64>) {
    let (c, h, w) = inp;
    let mut out = vec![];
    let mut mag = vec![];
    for f in 0..ker.len() {
        for oy in 0..oh {
            for ox in 0..ow {
                let mut sum = 0f64;
                let mut m = 0f64;
                for ch in 0..c {
                    for ky in 0..k.0 {
                        for kx in 0..k.1 {
                            let iy = (oy * s.0 + ky * d.0) as isize - p.0 as isize;
                            let ix = (ox * s.1 + kx * d.1) as isize - p.1 as isize;
                            if iy < 0 || ix < 0 || iy >= h as isize || ix >= w as isize {
                                continue;
                            }
                            let t = ker[f][(ch * k.0 + ky) * k.1 + kx] as f64 * x[(ch * h + iy as usize) * w + ix as usize] as f64;
                            sum += t;
                            m += t.abs();
                        }
                    }
                }
                out.push(sum);
                mag.push(m);
            }
        }
    }
    (out, mag)
}

/// strided transposed convolution, cropped by the padding on every side
fn deconv_ref(x: &[f32], inp: (usize, usize, usize), ker: &[Vec<f32>], k: P2, s: P2, p: P2, oh: usize, ow: usize) -> (Vec<f64>, Vec<f64>) {
    let (c, h, w) = inp;
    let mut out = vec![0f64; ker.len() * oh * ow];
    let mut mag = vec![0f64; ker.len() * oh * ow];
    for f in 0..ker.len() {
        for ch in 0..c {
            for i in 0..h {
                for j in 0..w {
                    for ki in 0..k.0 {
                        for kj in 0..k.1 {
                            let oy = (i * s.0 + ki) as isize - p.0 as isize;
                            let ox = (j * s.1 + kj) as isize - p.1 as isize;
                            if oy < 0 || ox < 0 || oy >= oh as isize || ox >= ow as isize {
                                continue;
                            }
                            let t = x[(ch * h + i) * w + j] as f64 * ker[f][(ch * k.0 + ki) * k.1 + kj] as f64;
                            let o = (f * oh + oy as usize) * ow + ox as usize;
                            out[o] += t;
                            mag[o] += t.abs();
                        }
                    }
                }
            }
        }
    }
    (out, mag)
}

fn pool_ref(x: &[f32], inp: (usize, usize, usize), k: P2, s: P2, oh: usize, ow: usize) -> Vec<f32> {
    let (c, h, w) = inp;
    let mut out = vec![];
    for ch in 0..c {
        for oy in 0..oh {
            for ox in 0..ow {
                let mut m = f32::NEG_INFINITY;
                for ky in 0..k.0 {
                    for kx in 0..k.1 {
                        let v = x[(ch * h + oy * s.0 + ky) * w + ox * s.1 + kx];
                        if v > m {
                            m = v;
                        }
                    }
                }
                out.push(m);
            }
        }
    }
    out
}

fn single_spec(inp: Sh, l: &Simple, w: W) -> NetSpec {
    let mut spec = NetSpec::new(inp.to_shape());
    spec.layers.push(LayerSpec::One(l.clone()));
    spec.weights = Some(vec![LW::One(w)]);
    spec
}

/// forward of the single layer of `net`: (pre, post)
fn fwd1(net: &Network, x: &Tensor) -> Option<(Tensor, Tensor)> {
    guard(|| {
        let (pre, post, _, _) = net.forward(x);
        (pre[0].clone(), post[1].clone())
    })
}

// ------------------------------------------------------------------ C02
const SMOOTH_ACTS: [Act; 5] = [Act::Linear, Act::ReLU, Act::Leaky, Act::Tanh, Act::Sigmoid];

fn c02_dense(f: &mut Fals, rng: &mut Rng, n: usize) {
    for i in 0..n {
        let nin = rng.range(1, 12);
        let nout = rng.range(1, 8);
        let act = ALL_ACTS[i % 6];
        let bias = rng.coin();
        let kind = *rng.pick(&[1u8, 2]);
        let wv = rng.vec(nout * nin, kind);
        let bv = rng.vec(nout, kind);
        let xk = *rng.pick(&[0u8, 1, 2, 3]);
        let xv = rng.vec(nin, xk);
        // a configured dropout rate is inactive outside training
        let l = Simple::Dense { out: nout, act, bias, dropout: if rng.chance(1, 4) { Some(0.5) } else { None } };
        let spec = single_spec(Sh::Flat(nin), &l, W::Dense(t2(nout, nin, &wv), if bias { Some(t1(bv.clone())) } else { None }));
        let key = format!("dense/{:?}", act);
        let input = || format!("{}; input {}", spec_desc(&spec), vals(&xv));
        let net = match guard(|| spec.build()) {
            Some(n) => n,
            None => {
                f.check(&key, false, "builder panicked on a dense layer", input);
                continue;
            }
        };
        let (pre, post) = match fwd1(&net, &t1(xv.clone())) {
            Some(r) => r,
            None => {
                f.check(&key, false, "forward panicked on a dense layer", input);
                continue;
            }
        };
        let mut rpre = vec![];
        let mut mag = vec![];
        for o in 0..nout {
            let mut s = 0f64;
            let mut m = 0f64;
            for j in 0..nin {
                let t = wv[o * nin + j] as f64 * xv[j] as f64;
                s += t;
                m += t.abs();
            }
            if bias {
                s += bv[o] as f64;
                m += (bv[o] as f64).abs();
            }
            rpre.push(s);
            mag.push(m);
        }
        let shapes_ok = has_shape(&pre, &Shape::Single(nout)) && has_shape(&post, &Shape::Single(nout));
        let r = if shapes_ok { cmp_pre_post(act, &flat_of(&pre), &flat_of(&post), &rpre, &mag) } else { Err(format!("output shape {:?}", post.shape)) };
        f.check(&key, r.is_ok(), "dense layer output differs from activation(W x + b)", || format!("{} -> {}", input(), r.clone().err().unwrap_or_default()));
    }
}

fn c02_spatial(f: &mut Fals, rng: &mut Rng, n: usize) {
    let r = Ranges { cmax: 3, hmax: 7, fmax: 3, kmax: 3, smax: 3, pmax: 3, dmax: 3, numel_max: 400 };
    for i in 0..n {
        let act = ALL_ACTS[(i / 3) % 6];
        let wkind = *rng.pick(&[1u8, 2]);
        let xkind = *rng.pick(&[0u8, 1, 2, 3]);
        let (inp, l, out) = match i % 3 {
            0 => gen_conv(rng, &r, act),
            1 => gen_deconv(rng, &Ranges { hmax: 5, kmax: 4, pmax: 2, ..r_copy(&r) }, act),
            _ => gen_pool(rng, &r),
        };
        let l = with_dropout(l, if rng.chance(1, 4) { Some(0.5) } else { None });
        let (c, h, w) = dims(inp);
        let (oc, oh, ow) = dims(out);
        let wts = rand_w(rng, &l, inp, wkind);
        let ker = kernels_of(&wts);
        let xv = rng.vec(inp.numel(), xkind);
        let spec = single_spec(inp, &l, wts);
        let kind = l.kind();
        let key = if deconv_underflow(&l, h, w) { "deconv/forward-usize-underflow".to_string() } else { format!("{}/{}", kind, feat(&l)) };
        let input = || format!("{}; input (row-major c x h x w) {}", spec_desc(&spec), vals(&xv));
        let net = match guard(|| spec.build()) {
            Some(n) => n,
            None => {
                f.check(&key, false, "builder panicked on a valid configuration", input);
                continue;
            }
        };
        let xt = t3(c, h, w, &xv);
        let tri = fwd1(&net, &xt);
        // (a) the defining operator
        match &tri {
            None => f.check(&key, false, "forward panicked on a valid configuration", input),
            Some((pre, post)) => {
                let oshape = Shape::Triple(oc, oh, ow);
                let res: Result<(), String> = if !(has_shape(pre, &oshape) && has_shape(post, &oshape)) {
                    Err(format!("output shape {:?}, expected {:?}", post.shape, oshape))
                } else {
                    match &l {
                        Simple::Conv { kernel, stride, padding, dilation, .. } => {
                            let (rp, mg) = conv_ref(&xv, (c, h, w), &ker, *kernel, *stride, *padding, *dilation, oh, ow);
                            cmp_pre_post(act, &flat_of(pre), &flat_of(post), &rp, &mg)
                        }
                        Simple::Deconv { kernel, stride, padding, .. } => {
                            let (rp, mg) = deconv_ref(&xv, (c, h, w), &ker, *kernel, *stride, *padding, oh, ow);
                            cmp_pre_post(act, &flat_of(pre), &flat_of(post), &rp, &mg)
                        }
                        Simple::Maxpool { kernel, stride } => {
                            let rp = pool_ref(&xv, (c, h, w), *kernel, *stride, oh, ow);
                            if num_eq(&flat_of(post), &rp) && num_eq(&flat_of(pre), &rp) { Ok(()) } else { Err(format!("got {}, window maxima are {}", vals(&flat_of(post)), vals(&rp))) }
                        }
                        _ => Ok(()),
                    }
                };
                let what = match kind {
                    "conv" => "convolution output differs from the zero-padded, strided, dilated cross-correlation",
                    "deconv" => "deconvolution output differs from the strided transposed convolution cropped by the padding",
                    _ => "max-pool output differs from the window maxima",
                };
                f.check(&key, res.is_ok(), what, || format!("{} -> {}", input(), res.clone().err().unwrap_or_default()));
            }
        }
        // (b) the same input as a flat vector
        let fkey = if deconv_underflow(&l, h, w) {
            "deconv/forward-usize-underflow".to_string()
        } else if kind == "maxpool" && (oh, ow) == (h, w) {
            "maxpool/flat-input-same-size".to_string()
        } else {
            format!("{}/flat-input", kind)
        };
        if let Some((pre, post)) = &tri {
            match fwd1(&net, &t1(xv.clone())) {
                None => f.check(&fkey, false, "forward panicked on the flat representation of a valid input", input),
                Some((fpre, fpost)) => {
                    let ok = tensor_eq(pre, &fpre) && tensor_eq(post, &fpost);
                    f.check(&fkey, ok, "flat (Single) and c x h x w (Triple) representation of the same input give different results", || {
                        format!("{} -> Triple input gives {}, flat input gives {}", input(), tdesc(post), tdesc(&fpost))
                    });
                }
            }
        }
    }
}

fn with_dropout(l: Simple, d: Option<f32>) -> Simple {
    match l {
        Simple::Conv { filters, kernel, stride, padding, dilation, act, .. } => Simple::Conv { filters, kernel, stride, padding, dilation, act, dropout: d },
        Simple::Deconv { filters, kernel, stride, padding, act, .. } => Simple::Deconv { filters, kernel, stride, padding, act, dropout: d },
        l => l,
    }
}

fn r_copy(r: &Ranges) -> Ranges {
    Ranges { cmax: r.cmax, hmax: r.hmax, fmax: r.fmax, kmax: r.kmax, smax: r.smax, pmax: r.pmax, dmax: r.dmax, numel_max: r.numel_max }
}

/// is layer i a max-pool that directly follows a flat (dense) output and changes the spatial size
fn shrinking_pool_on_flat(spec: &NetSpec, shapes: &[Sh]) -> bool {
    spec.layers.iter().enumerate().any(|(i, l)| match (l, shapes[i], shapes[i + 1]) {
        (LayerSpec::One(Simple::Maxpool { .. }), Sh::Flat(n), Sh::Sp(_, oh, ow)) => {
            let r = isqrt(n);
            (oh, ow) != (r, r)
        }
        _ => false,
    })
}

/// max-pool on a flat input whose output extent is smaller than the kernel: `Maxpool::forward`
/// re-chunks by the output extent and then underflows `ih - kernel + 1`
fn pool_on_flat_out_lt_kernel(spec: &NetSpec, shapes: &[Sh]) -> bool {
    spec.layers.iter().enumerate().any(|(i, l)| match (l, shapes[i], shapes[i + 1]) {
        (LayerSpec::One(Simple::Maxpool { kernel, .. }), Sh::Flat(_), Sh::Sp(_, oh, ow)) => oh < kernel.0 || ow < kernel.1,
        _ => false,
    })
}

fn seq_opts() -> GenOpts {
    let mut o = GenOpts::default();
    o.max_flat = 16;
    o.stride_max = 3;
    o.pad_max = 2;
    o.dil_max = 2;
    o.max_sp = 6;
    o
}

fn rand_net(rng: &mut Rng, o: &GenOpts, dmin: usize, dmax: usize) -> (NetSpec, Vec<Sh>) {
    loop {
        let depth = rng.range(dmin, dmax);
        let spatial = rng.chance(2, 3);
        let input = if spatial { Sh::Sp(rng.range(1, 2), rng.range(2, 6), rng.range(2, 6)) } else { Sh::Flat(rng.range(1, 9)) };
        let kinds: Vec<&str> = if spatial { vec!["conv", "deconv", "maxpool", "dense"] } else { vec!["dense", "conv", "deconv", "maxpool"] };
        let end_dense = rng.chance(1, 3);
        if let Some(r) = rand_seq(rng, o, input, depth, &kinds, end_dense) {
            return r;
        }
    }
}

fn c02_compose(f: &mut Fals, rng: &mut Rng, n: usize) {
    let mut o = seq_opts();
    for i in 0..n {
        o.wkind = if i % 2 == 0 { 1 } else { 2 };
        let (spec, shapes) = rand_net(rng, &o, 2, 4);
        let xk = *rng.pick(&[0u8, 2]);
        let x = rand_input(rng, shapes[0], xk);
        let key = if shrinking_pool_on_flat(&spec, &shapes) { "compose/maxpool-on-flat-input".to_string() } else { format!("compose/depth{}", spec.layers.len()) };
        let input = || format!("{}; input {}", spec_desc(&spec), tdesc(&x));
        let net = match guard(|| spec.build()) {
            Some(n) => n,
            None => {
                f.check(&key, false, "builder panicked on a valid layer sequence", input);
                continue;
            }
        };
        let got = guard(|| net.predict(&x));
        // by hand: one layer at a time, every layer fed in its canonical representation
        let hand = guard(|| {
            let mut cur = x.clone();
            for (k, l) in net.layers.iter().enumerate() {
                let v = flat_of(&cur);
                let simple = match &spec.layers[k] {
                    LayerSpec::One(s) => s,
                    _ => unreachable!(),
                };
                let xin = match simple {
                    Simple::Dense { .. } => t1(v),
                    _ => {
                        let (c, h, w) = as_spatial(shapes[k]).unwrap();
                        t3(c, h, w, &v)
                    }
                };
                cur = layer_fwd(l, &xin).1;
            }
            cur
        });
        match (got, hand) {
            (Some(g), Some(hd)) => {
                let last = *shapes.last().unwrap();
                let ok = num_eq(&flat_of(&g), &flat_of(&hd)) && has_shape(&g, &last.to_shape());
                f.check(&key, ok, "predict differs from feeding the layers one by one", || format!("{} -> predict {}, layer by layer {}", input(), tdesc(&g), tdesc(&hd)));
            }
            (g, hd) => f.check(&key, false, "predict or a single layer panicked on a valid layer sequence", || {
                format!("{} -> predict {}, layer-by-layer {}", input(), if g.is_some() { "ok" } else { "panicked" }, if hd.is_some() { "ok" } else { "panicked" })
            }),
        }
    }
}

pub fn fals_c02(rng: &mut Rng, thorough: bool) -> Fals {
    let mut f = Fals::new();
    let m = if thorough { 10 } else { 1 };
    c02_dense(&mut f, rng, 120 * m);
    c02_spatial(&mut f, rng, 540 * m);
    c02_compose(&mut f, rng, 150 * m);
    f
}

// ------------------------------------------------------------------ C08
fn c08_single(f: &mut Fals, rng: &mut Rng, n: usize) {
    let r = Ranges { cmax: 3, hmax: 12, fmax: 3, kmax: 5, smax: 4, pmax: 4, dmax: 3, numel_max: 2000 };
    for i in 0..n {
        let act = SMOOTH_ACTS[i % 5];
        let (inp, l, out) = match i % 7 {
            0 | 1 | 2 => gen_conv(rng, &r, act),
            3 | 4 => gen_deconv(rng, &Ranges { hmax: 7, ..r_copy(&r) }, act),
            5 => gen_pool(rng, &r),
            _ => {
                let nin = rng.range(1, 20);
                let l = Simple::Dense { out: rng.range(1, 20), act, bias: rng.coin(), dropout: None };
                let o = out_shape(&l, Sh::Flat(nin)).unwrap();
                (Sh::Flat(nin), l, o)
            }
        };
        let (_, h, w) = dims(inp);
        let key = if deconv_underflow(&l, h, w) { "deconv/forward-usize-underflow".to_string() } else { format!("{}-shape/{}", l.kind(), feat(&l)) };
        let input = || format!("input shape {:?}, single layer {:?}", inp.to_shape(), l);
        let mut spec = NetSpec::new(inp.to_shape());
        spec.layers.push(LayerSpec::One(l.clone()));
        let net = match guard(|| spec.build()) {
            Some(n) => n,
            None => {
                f.check(&key, false, "builder panicked on a valid configuration", input);
                continue;
            }
        };
        let (ain, aout) = layer_shapes(&net.layers[0]);
        f.check(&key, ain == inp.to_shape() && aout == out.to_shape(), "announced shapes differ from the standard size formulas", || {
            format!("{} -> announced {:?} -> {:?}, formulas give {:?} -> {:?}", input(), ain, aout, inp.to_shape(), out.to_shape())
        });
        let x = rand_input(rng, inp, 2);
        match fwd1(&net, &x) {
            None => f.check(&key, false, "forward panicked on a valid configuration", || format!("{} (announced output {:?})", input(), aout)),
            Some((pre, post)) => f.check(&key, has_shape(&pre, &aout) && has_shape(&post, &aout), "produced shape differs from the announced shape", || {
                format!("{} -> announced {:?}, produced {:?} (well-formed: {})", input(), aout, post.shape, well_formed(&post))
            }),
        }
    }
}

/// expected parameter-gradient shapes of a simple layer on input `inp`
fn grad_ok(l: &Simple, inp: Sh, wg: &Tensor, bg: &Option<Tensor>) -> bool {
    match l {
        Simple::Dense { out, bias, .. } => {
            has_shape(wg, &Shape::Double(*out, inp.numel()))
                && match (bias, bg) {
                    (true, Some(b)) => has_shape(b, &Shape::Single(*out)),
                    (false, None) => true,
                    _ => false,
                }
        }
        Simple::Conv { filters, kernel, .. } | Simple::Deconv { filters, kernel, .. } => {
            let c = as_spatial(inp).map_or(0, |s| s.0);
            has_shape(wg, &Shape::Quadruple(*filters, c, kernel.0, kernel.1)) && bg.is_none()
        }
        Simple::Maxpool { .. } => true,
    }
}

fn c08_seq(f: &mut Fals, rng: &mut Rng, n: usize) {
    let mut o = seq_opts();
    o.wkind = 2;
    let r = Ranges { cmax: 1, hmax: 4, fmax: 2, kmax: 3, smax: 2, pmax: 2, dmax: 3, numel_max: 200 };
    for i in 0..n {
        if i % 4 == 3 {
            // dense(r*r) -> convolution (any stride / padding / dilation) [-> dense]
            let side = rng.range(1, 5);
            let (inp, conv, out) = gen_conv_on(rng, &r, SMOOTH_ACTS[i % 5], Some(Sh::Sp(1, side, side)));
            let nin = rng.range(1, 4);
            let mut spec = NetSpec::new(Shape::Single(nin));
            let mut shapes = vec![Sh::Flat(nin), Sh::Flat(inp.numel()), out];
            spec.layers.push(LayerSpec::One(Simple::Dense { out: inp.numel(), act: SMOOTH_ACTS[(i / 4) % 5], bias: rng.coin(), dropout: None }));
            spec.layers.push(LayerSpec::One(conv));
            if rng.coin() {
                let d = rng.range(1, 5);
                spec.layers.push(LayerSpec::One(Simple::Dense { out: d, act: Act::Tanh, bias: rng.coin(), dropout: None }));
                shapes.push(Sh::Flat(d));
            }
            c08_check_seq(f, rng, spec, shapes);
        } else {
            let (spec, shapes) = rand_net(rng, &o, 1, 5);
            c08_check_seq(f, rng, spec, shapes);
        }
    }
}

fn c08_check_seq(f: &mut Fals, rng: &mut Rng, spec: NetSpec, shapes: Vec<Sh>) {
    {
        let simples: Vec<Simple> = spec.layers.iter().map(|l| match l { LayerSpec::One(s) => s.clone(), _ => unreachable!() }).collect();
        let nl = simples.len();
        let pool_flat = shrinking_pool_on_flat(&spec, &shapes);
        let pool_panic = pool_on_flat_out_lt_kernel(&spec, &shapes);
        let key = if pool_panic {
            "seq/maxpool-on-flat-input/out<kernel".to_string()
        } else if pool_flat {
            "seq/maxpool-on-flat-input/out>=kernel".to_string()
        } else {
            format!("seq/depth{}", nl)
        };
        let x = rand_input(rng, shapes[0], 2);
        let input = || format!("{}", spec_desc(&NetSpec { weights: None, ..spec.clone() }));
        let net = match guard(|| spec.build()) {
            Some(n) => n,
            None => {
                f.check(&key, false, "builder panicked on a valid layer sequence", input);
                return;
            }
        };
        // announced shapes against this module's arithmetic
        let mut bad = None;
        for k in 0..nl {
            let (ain, aout) = layer_shapes(&net.layers[k]);
            let ein = match (&simples[k], shapes[k]) {
                (Simple::Dense { .. }, s) => Shape::Single(s.numel()),
                (_, s) => {
                    let (c, h, w) = as_spatial(s).unwrap();
                    Shape::Triple(c, h, w)
                }
            };
            if ain != ein || aout != shapes[k + 1].to_shape() {
                bad = Some(format!("layer {} announces {:?} -> {:?}, formulas give {:?} -> {:?}", k, ain, aout, ein, shapes[k + 1].to_shape()));
                break;
            }
        }
        f.check(&key, bad.is_none(), "announced shapes differ from the standard size formulas / consecutive layers do not fit", || format!("{} -> {}", input(), bad.clone().unwrap_or_default()));
        // produced shapes; flatten before a dense layer keeps the row-major order
        let fw = guard(|| net.forward(&x));
        let (pre, post, mx, fb) = match fw {
            Some(r) => r,
            None => {
                f.check(&key, false, "forward panicked on a valid layer sequence", || format!("{}; input {}", input(), tdesc(&x)));
                return;
            }
        };
        let mut bad = None;
        if pre.len() != nl || post.len() != nl + 1 {
            bad = Some("wrong number of intermediate tensors".to_string());
        } else {
            for k in 0..nl {
                let (_, aout) = layer_shapes(&net.layers[k]);
                let flattened = k + 1 < nl && matches!(simples[k + 1], Simple::Dense { .. }) && matches!(shapes[k + 1], Sh::Sp(..));
                let eout = if flattened { Shape::Single(shapes[k + 1].numel()) } else { aout.clone() };
                if !has_shape(&pre[k], &aout) || !has_shape(&post[k + 1], &eout) {
                    bad = Some(format!("layer {} announces {:?} (passed on as {:?}) but produces pre {:?} / post {:?}", k, aout, eout, pre[k].shape, post[k + 1].shape));
                    break;
                }
                if flattened {
                    // the flattened output must be the row-major reading of the unflattened one
                    let act = match &simples[k] {
                        Simple::Conv { act, .. } | Simple::Deconv { act, .. } => Some(*act),
                        _ => None,
                    };
                    let unflat = match act {
                        Some(a) => flat_of(&neurons::activation::Function::create(&a.to()).forward(&pre[k])),
                        None => flat_of(&pre[k]),
                    };
                    if !num_eq(&unflat, &flat_of(&post[k + 1])) {
                        bad = Some(format!("layer {}: flattened output {} is not the row-major reading of {}", k, vals(&flat_of(&post[k + 1])), vals(&unflat)));
                        break;
                    }
                }
            }
        }
        f.check(&key, bad.is_none(), "produced shapes differ from the announced shapes / flattening does not preserve the row-major order", || {
            format!("{}; input {} -> {}", input(), tdesc(&x), bad.clone().unwrap_or_default())
        });
        // gradient shapes
        // class of the sequence: the worst convolution class it contains, then the max-pool class
        let mut cls = 0;
        for k in 0..nl {
            if eff_dilated(&simples[k]) {
                let (_, h, w) = as_spatial(shapes[k]).unwrap();
                let c = if conv_bwd_underflow(&simples[k], h, w) {
                    3
                } else if k > 0 && matches!(simples[k - 1], Simple::Dense { .. }) {
                    2
                } else {
                    1
                };
                cls = cls.max(c);
            }
        }
        let gkey = match cls {
            3 => "grad-shape/conv-dilation>1/backward-usize-underflow",
            2 => "grad-shape/conv-dilation>1/after-dense",
            _ if pool_flat => "grad-shape/maxpool-on-flat-input",
            1 => "grad-shape/conv-dilation>1/other",
            _ => "grad-shape/no-dilation",
        }
        .to_string();
        let g = tensor_of_shape(&post[nl].shape, &vec![1.0f32; shape_numel(&post[nl].shape)]);
        match guard(|| net.verif_backward(g, &pre, &post, &mx, fb)) {
            None => f.check(&gkey, false, "backward panicked on a valid layer sequence", || format!("{}; input {}; output gradient all ones", input(), tdesc(&x))),
            Some((wg, bg)) => {
                let mut bad = None;
                if wg.len() != nl || bg.len() != nl {
                    bad = Some("wrong number of gradients".to_string());
                } else {
                    for k in 0..nl {
                        // gradients are returned last layer first
                        let (w, b) = (&wg[nl - 1 - k], &bg[nl - 1 - k]);
                        if !grad_ok(&simples[k], shapes[k], w, b) {
                            bad = Some(format!("layer {}: weight gradient {:?} (well-formed {}), bias gradient {:?}", k, w.shape, well_formed(w), b.as_ref().map(|b| b.shape.clone())));
                            break;
                        }
                    }
                }
                f.check(&gkey, bad.is_none(), "a gradient tensor does not have the shape of its parameter", || format!("{} -> {}", input(), bad.clone().unwrap_or_default()));
            }
        }
    }
}

/// `backward` of single layers called directly: parameter gradients have the parameter shapes,
/// the gradient passed to the previous layer has the input shape
fn c08_layer_backward(f: &mut Fals, rng: &mut Rng, n: usize) {
    let r = Ranges { cmax: 2, hmax: 8, fmax: 2, kmax: 4, smax: 3, pmax: 3, dmax: 3, numel_max: 600 };
    for i in 0..n {
        let act = SMOOTH_ACTS[i % 5];
        let (inp, l, _out) = match i % 6 {
            0 | 1 | 2 => gen_conv(rng, &r, act),
            3 => gen_deconv(rng, &Ranges { hmax: 6, ..r_copy(&r) }, act),
            4 => gen_pool(rng, &r),
            _ => {
                let nin = rng.range(1, 12);
                let l = Simple::Dense { out: rng.range(1, 12), act, bias: rng.coin(), dropout: None };
                let o = out_shape(&l, Sh::Flat(nin)).unwrap();
                (Sh::Flat(nin), l, o)
            }
        };
        let (_, h, w) = dims(inp);
        if deconv_underflow(&l, h, w) {
            continue; // the forward pass of this class is covered by "deconv/forward-usize-underflow"
        }
        // all effectively dilated convolutions form one class (whatever stride and padding), split
        // by whether `Convolution::backward` underflows
        let cls = if eff_dilated(&l) {
            if conv_bwd_underflow(&l, h, w) { "dilation>1-usize-underflow".to_string() } else { "dilation>1".to_string() }
        } else {
            feat(&l)
        };
        let key = format!("{}-backward/{}", l.kind(), cls);
        let ikey = format!("{}-backward-input-gradient/{}", l.kind(), cls);
        let input = || format!("input shape {:?}, single layer {:?}, forward on a random input, backward with an all-ones output gradient", inp.to_shape(), l);
        let mut spec = NetSpec::new(inp.to_shape());
        spec.layers.push(LayerSpec::One(l.clone()));
        let x = rand_input(rng, inp, 2);
        let res = guard(|| {
            let net = spec.build();
            let (pre, post, mx, _) = net.forward(&x);
            let g = tensor_of_shape(&post[1].shape, &vec![1.0f32; shape_numel(&post[1].shape)]);
            match &net.layers[0] {
                Layer::Dense(d) => d.backward(&g, &x, &pre[0]),
                Layer::Convolution(d) => d.backward(&g, &x, &pre[0]),
                Layer::Deconvolution(d) => d.backward(&g, &x, &pre[0]),
                Layer::Maxpool(d) => (d.backward(&g, mx[0].as_ref().unwrap()), t1(vec![]), None),
                _ => unreachable!(),
            }
        });
        match res {
            None => {
                f.check(&key, false, "forward/backward of a single layer panicked on a valid configuration", input);
                f.check(&ikey, false, "forward/backward of a single layer panicked on a valid configuration", input);
            }
            Some((ig, wg, bg)) => {
                f.check(&key, grad_ok(&l, inp, &wg, &bg), "a gradient tensor does not have the shape of its parameter", || {
                    format!("{} -> weight gradient {:?} (well-formed {}), bias gradient {:?}", input(), wg.shape, well_formed(&wg), bg.as_ref().map(|b| b.shape.clone()))
                });
                f.check(&ikey, has_shape(&ig, &inp.to_shape()), "the gradient passed to the previous layer does not have the layer's input shape", || {
                    format!("{} -> input gradient {:?} (well-formed {})", input(), ig.shape, well_formed(&ig))
                });
            }
        }
    }
}

/// flat -> spatial: dense(n) followed by a 1x1 spatial layer, for every n in 1..=200
fn c08_flat_to_spatial(f: &mut Fals, rng: &mut Rng, reps: usize) {
    for rep in 0..reps {
        for n in 1..=200usize {
            let root = isqrt(n);
            let square = root * root == n;
            let key = if square {
                "flat-square"
            } else if n % root == 0 {
                "flat-nonsquare/accepted" // non-squares n with n % floor(sqrt n) == 0: 2, 3, 6, 8, 12, 15, 20, ...
            } else {
                "flat-nonsquare/other"
            };
            for kind in 0..3 {
                let sp = match kind {
                    0 => Simple::Conv { filters: 1, kernel: (1, 1), stride: (1, 1), padding: (0, 0), dilation: (1, 1), act: Act::Linear, dropout: None },
                    1 => Simple::Deconv { filters: 1, kernel: (1, 1), stride: (1, 1), padding: (0, 0), act: Act::Linear, dropout: None },
                    _ => Simple::Maxpool { kernel: (1, 1), stride: (1, 1) },
                };
                let vals_n = rng.distinct(n);
                let mut spec = NetSpec::new(Shape::Single(1));
                spec.layers.push(LayerSpec::One(Simple::Dense { out: n, act: Act::Linear, bias: false, dropout: None }));
                spec.layers.push(LayerSpec::One(sp.clone()));
                let built = guard(|| {
                    let mut net = spec.build();
                    // dense weights: the column of pairwise distinct values; 1x1 identity kernel
                    if let Layer::Dense(d) = &mut net.layers[0] {
                        d.verif_set_weights(t2(n, 1, &vals_n));
                    }
                    match &mut net.layers[1] {
                        Layer::Convolution(c) => c.verif_set_kernels(vec![t3(1, 1, 1, &[1.0])]),
                        Layer::Deconvolution(c) => c.verif_set_kernels(vec![t3(1, 1, 1, &[1.0])]),
                        _ => {}
                    }
                    net
                });
                let input = || format!("network input Single(1), dense({}, linear, no bias) with weight column = `Rng::distinct({})` (shuffled (i - n/2)/8 + 1/16), then {:?} (convolution/deconvolution kernel [[[1.0]]]); input [1.0] (repetition {})", n, n, sp, rep);
                match built {
                    None => f.check(key, !square, "a spatial layer after a dense layer of perfect-square size was rejected", input),
                    Some(net) => {
                        if !square {
                            f.check(key, false, "a spatial layer after a dense layer of non-perfect-square size was accepted", input);
                            continue;
                        }
                        let (ain, aout) = layer_shapes(&net.layers[1]);
                        let want = Shape::Triple(1, root, root);
                        f.check(key, ain == want && aout == want, "a flat vector of length r*r is not announced as 1 x r x r", || format!("{} -> announced {:?} -> {:?}", input(), ain, aout));
                        match guard(|| net.forward(&t1(vec![1.0]))) {
                            None => f.check(key, false, "forward panicked", input),
                            Some((_, post, _, _)) => {
                                let ok = post.len() == 3 && has_shape(&post[2], &want) && num_eq(&flat_of(&post[2]), &vals_n) && num_eq(&flat_of(&post[1]), &vals_n);
                                f.check(key, ok, "flat -> spatial transition does not preserve every element in row-major order", || {
                                    format!("{} -> dense output {}, spatial output {}", input(), post.get(1).map_or("?".into(), tdesc), post.get(2).map_or("?".into(), tdesc))
                                });
                            }
                        }
                    }
                }
            }
        }
    }
}

pub fn fals_c08(rng: &mut Rng, thorough: bool) -> Fals {
    let mut f = Fals::new();
    let m = if thorough { 10 } else { 1 };
    c08_single(&mut f, rng, 420 * m);
    c08_seq(&mut f, rng, 200 * m);
    c08_layer_backward(&mut f, rng, 360 * m);
    c08_flat_to_spatial(&mut f, rng, if thorough { 3 } else { 1 });
    f
}

// ------------------------------------------------------------------ accumulation reference
/// the configured accumulation of `first` with `others` in f64: (value, magnitude) per element.
/// Overwrite: the last source replaces (no source: unchanged).
fn acc_ref(acc: Acc, first: &[f32], others: &[Vec<f32>]) -> (Vec<f64>, Vec<f64>) {
    let n = first.len();
    let mut v = vec![];
    let mut m = vec![];
    for i in 0..n {
        let a = first[i] as f64;
        let os: Vec<f64> = others.iter().map(|o| o[i] as f64).collect();
        let (x, mag) = match acc {
            Acc::Add => (a + os.iter().sum::<f64>(), a.abs() + os.iter().map(|x| x.abs()).sum::<f64>()),
            Acc::Sub => (a - os.iter().sum::<f64>(), a.abs() + os.iter().map(|x| x.abs()).sum::<f64>()),
            Acc::Mul => {
                let p = a * os.iter().product::<f64>();
                (p, p.abs())
            }
            Acc::Mean => {
                let k = (os.len() + 1) as f64;
                ((a + os.iter().sum::<f64>()) / k, (a.abs() + os.iter().map(|x| x.abs()).sum::<f64>()) / k)
            }
            Acc::Overwrite => {
                let l = *os.last().unwrap_or(&a);
                (l, l.abs())
            }
        };
        v.push(x);
        m.push(mag);
    }
    (v, m)
}

/// element-wise combination of two tensors in f32 (one correctly rounded operation per element;
/// the mean of two values divides the rounded sum by two)
fn acc2_f32(acc: Acc, x: &[f32], y: &[f32]) -> Vec<f32> {
    x.iter()
        .zip(y)
        .map(|(a, b)| match acc {
            Acc::Add => a + b,
            Acc::Sub => a - b,
            Acc::Mul => a * b,
            Acc::Mean => (a + b) / 2.0,
            Acc::Overwrite => *b,
        })
        .collect()
}

/// finite, not huge, and either zero or not tiny (products of a few such values neither overflow
/// nor lose precision to underflow)
fn moderate(v: &[f32]) -> bool {
    v.iter().all(|x| x.is_finite() && x.abs() < 1e12 && (*x == 0.0 || x.abs() > 1e-6))
}

fn close_all(got: &[f32], r: &[f64], mag: &[f64]) -> bool {
    got.len() == r.len() && got.iter().zip(r.iter().zip(mag)).all(|(g, (r, m))| g.is_finite() && (*g as f64 - r).abs() <= 2e-5 * m + 1e-30)
}

// ------------------------------------------------------------------ C11
fn c11_one(f: &mut Fals, rng: &mut Rng, spatial: bool, loops: usize, inskips: bool, outskips: bool, acc: Acc, follow: bool, variant: usize) {
    let mut o = GenOpts::default();
    o.wkind = 2;
    // variant 1: the block is preceded by a layer of its own kind; variant 2: a spatial block fed by a flat vector
    let flat_fed = spatial && variant == 2;
    let (input, ls) = loop {
        let input = if spatial {
            if flat_fed { let r = rng.range(2, 4); Sh::Sp(1, r, r) } else { Sh::Sp(rng.range(1, 2), rng.range(2, 4), rng.range(2, 4)) }
        } else {
            Sh::Flat(rng.range(1, 5))
        };
        let nl = rng.range(1, 3);
        if let Some(mut ls) = rand_block_layers(rng, &o, input, nl) {
            if spatial && rng.chance(1, 4) {
                // a 1x1 max-pool keeps the shape wherever it sits
                let at = rng.range(0, ls.len());
                ls.insert(at, Simple::Maxpool { kernel: (1, 1), stride: (1, 1) });
            }
            break (input, ls);
        }
    };
    let bw = match block_weights(rng, &ls, input, 2) {
        Some(w) => w,
        None => return,
    };
    let nrep = ls.len();
    let net_input = if flat_fed { Sh::Flat(input.numel()) } else { input };
    let mut spec = NetSpec::new(net_input.to_shape());
    let mut ws = vec![];
    let prefix = variant == 1;
    if prefix {
        let p = if spatial {
            Simple::Conv { filters: dims(input).0, kernel: (1, 1), stride: (1, 1), padding: (0, 0), dilation: (1, 1), act: Act::Tanh, dropout: None }
        } else {
            Simple::Dense { out: input.numel(), act: Act::Tanh, bias: true, dropout: None }
        };
        ws.push(LW::One(rand_w(rng, &p, input, 2)));
        spec.layers.push(LayerSpec::One(p));
    }
    spec.layers.push(LayerSpec::Block { layers: ls.clone(), loops, inskips, outskips, acc });
    ws.push(bw);
    if follow {
        let d = Simple::Dense { out: rng.range(1, 4), act: Act::Tanh, bias: rng.coin(), dropout: None };
        ws.push(LW::One(rand_w(rng, &d, Sh::Flat(input.numel()), 2)));
        spec.layers.push(LayerSpec::One(d));
    }
    // one case in three keeps the parameters the library draws itself (the repetitions must share them)
    let own_weights = rng.chance(1, 3);
    spec.weights = if own_weights { None } else { Some(ws) };
    let x = rand_input(rng, net_input, 0);
    let bi = if prefix { 1 } else { 0 };
    let skips = match (inskips, outskips) {
        (false, false) => "no-skips",
        (true, false) => "inskips",
        (false, true) => "outskips",
        (true, true) => "inskips+outskips",
    };
    let key = if loops == 1 && outskips && matches!(acc, Acc::Mean | Acc::Overwrite) {
        "block/L1-outskips-mean-or-overwrite".to_string()
    } else if flat_fed {
        "block/spatial-block-on-flat-input".to_string()
    } else {
        format!("block/{}/{}/{:?}", if spatial { "spatial" } else { "flat" }, skips, acc)
    };
    let net = match guard(|| spec.build()) {
        Some(n) => n,
        None => {
            f.check(&key, false, "builder panicked on a valid feedback block", || format!("{}; input {}", spec_desc(&spec), tdesc(&x)));
            return;
        }
    };
    if own_weights {
        // describe the case with the parameters of the first repetition, as drawn by the library
        spec.weights = Some(read_weights(&net));
    }
    let input_d = || format!("{}; input {}", spec_desc(&spec), tdesc(&x));
    if own_weights {
        let shared = match &net.layers[bi] {
            Layer::Feedback(b) => {
                let mut ok = b.layers.len() == nrep * loops;
                for r in 0..loops {
                    for i in 0..nrep {
                        if r * nrep + i >= b.layers.len() {
                            continue;
                        }
                        let mut ta: Tok = vec![];
                        let mut tb: Tok = vec![];
                        enc_layer_params(&mut ta, &b.layers[i]);
                        enc_layer_params(&mut tb, &b.layers[r * nrep + i]);
                        ok = ok && ta == tb;
                    }
                }
                ok
            }
            _ => false,
        };
        f.check(&key, shared, "the repetitions of the block do not share their parameters", input_d);
    }
    // by hand: one repetition's layers, applied L times
    let hand = guard(|| {
        let block = match &net.layers[bi] {
            Layer::Feedback(b) => b,
            _ => unreachable!(),
        };
        let mut xin = x.clone();
        if prefix {
            xin = layer_fwd(&net.layers[0], &xin).1;
        }
        if flat_fed {
            let (c, h, w) = dims(input);
            xin = t3(c, h, w, &flat_of(&xin));
        }
        let shape = xin.shape.clone();
        let xin_v = flat_of(&xin);
        let mut cur = xin.clone();
        let mut outs: Vec<Vec<f32>> = vec![];
        for r in 0..loops {
            if r > 0 && inskips {
                cur = tensor_of_shape(&shape, &acc2_f32(acc, &flat_of(&cur), &xin_v));
            }
            for l in &block.layers[0..nrep] {
                cur = layer_fwd(l, &cur).1;
            }
            outs.push(flat_of(&cur));
        }
        let last = outs.pop().unwrap();
        let (v, m) = if outskips { acc_ref(acc, &last, &outs) } else { acc_ref(Acc::Add, &last, &[]) };
        let all_moderate = moderate(&last) && outs.iter().all(|o| moderate(o)) && v.iter().all(|x| x.abs() < 1e12);
        (v, m, all_moderate)
    });
    let (rv, rm, ok_mag) = match hand {
        Some(h) => h,
        None => {
            f.check(&key, false, "a single layer of the block panicked on a valid input", input_d);
            return;
        }
    };
    if !ok_mag {
        return; // values left the moderate range: no verdict
    }
    match guard(|| net.forward(&x)) {
        None => f.check(&key, false, "forward panicked on a valid feedback block", input_d),
        Some((_, post, _, _)) => {
            let got = &post[bi + 1];
            let want_shape = if follow || !spatial { Shape::Single(input.numel()) } else { input.to_shape() };
            let ok = has_shape(got, &want_shape) && close_all(&flat_of(got), &rv, &rm);
            f.check(&key, ok, "block output differs from the L-fold repeated (skip-combined) layer sequence, or is not flattened before a dense layer", || {
                format!("{} -> block output {}, expected {:?} {:?}", input_d(), tdesc(got), want_shape, rv)
            });
        }
    }
}

pub fn fals_c11(rng: &mut Rng, thorough: bool) -> Fals {
    let mut f = Fals::new();
    let reps = if thorough { 30 } else { 3 };
    for rep in 0..reps {
        for spatial in [false, true] {
            for loops in 1..=4usize {
                for (inskips, outskips) in [(false, false), (true, false), (false, true), (true, true)] {
                    for acc in ALL_ACCS {
                        let follow = (rep + loops + inskips as usize) % 2 == 0;
                        let variant = if rng.chance(1, 4) { 1 } else { 0 };
                        c11_one(&mut f, rng, spatial, loops, inskips, outskips, acc, follow, variant);
                    }
                }
            }
        }
    }
    // spatial blocks whose input arrives as a flat vector of perfect-square length
    for i in 0..(if thorough { 200 } else { 20 }) {
        let acc = ALL_ACCS[i % 5];
        c11_one(&mut f, rng, true, 1 + i % 4, i % 2 == 0, i % 3 == 0, acc, i % 4 == 0, 2);
    }
    f
}

// ------------------------------------------------------------------ C17
struct Chain {
    spec: NetSpec,
    shapes: Vec<Sh>,
    kind: &'static str,
}

/// a chain of layers in which some range a..=b maps its input shape to itself
fn c17_chain(rng: &mut Rng, which: usize) -> Option<Chain> {
    let mut o = GenOpts::default();
    o.wkind = 2;
    o.acts = vec![Act::Linear, Act::Tanh, Act::Sigmoid, Act::ReLU, Act::Leaky];
    let depth = rng.range(1, 4);
    let mut ws = vec![];
    let mut spec;
    let mut shapes = vec![];
    let kind;
    match which {
        0 => {
            let n = rng.range(1, 5);
            kind = "dense";
            spec = NetSpec::new(Shape::Single(n));
            shapes.push(Sh::Flat(n));
            for _ in 0..depth {
                let d = Simple::Dense { out: n, act: *rng.pick(&o.acts), bias: rng.coin(), dropout: None };
                ws.push(LW::One(rand_w(rng, &d, Sh::Flat(n), 2)));
                spec.layers.push(LayerSpec::One(d));
                shapes.push(Sh::Flat(n));
            }
        }
        _ => {
            let input = Sh::Sp(rng.range(1, 2), rng.range(2, 4), rng.range(2, 4));
            spec = NetSpec::new(input.to_shape());
            shapes.push(input);
            let ls = rand_block_layers(rng, &o, input, depth)?;
            let with_pool = which == 2;
            let nls = ls.len();
            let pool_at = rng.range(0, nls);
            let mut cur = input;
            for (k, l) in ls.into_iter().enumerate() {
                if with_pool && k == pool_at {
                    spec.layers.push(LayerSpec::One(Simple::Maxpool { kernel: (1, 1), stride: (1, 1) }));
                    ws.push(LW::One(W::None));
                    shapes.push(cur);
                }
                ws.push(LW::One(rand_w(rng, &l, cur, 2)));
                cur = out_shape(&l, cur)?;
                spec.layers.push(LayerSpec::One(l));
                shapes.push(cur);
            }
            if with_pool && pool_at == nls {
                spec.layers.push(LayerSpec::One(Simple::Maxpool { kernel: (1, 1), stride: (1, 1) }));
                ws.push(LW::One(W::None));
                shapes.push(cur);
            }
            kind = if which == 3 {
                let d = Simple::Dense { out: rng.range(1, 4), act: *rng.pick(&o.acts), bias: rng.coin(), dropout: None };
                ws.push(LW::One(rand_w(rng, &d, Sh::Flat(cur.numel()), 2)));
                shapes.push(Sh::Flat(match &d { Simple::Dense { out, .. } => *out, _ => 0 }));
                spec.layers.push(LayerSpec::One(d));
                "spatial-then-dense"
            } else if with_pool {
                "spatial+maxpool"
            } else {
                "spatial"
            };
        }
    }
    spec.weights = Some(ws);
    Some(Chain { spec, shapes, kind })
}

fn c17_one(f: &mut Fals, rng: &mut Rng, which: usize, acc: Acc, inskips: bool, k: usize) {
    let chain = loop {
        if let Some(c) = c17_chain(rng, which) {
            break c;
        }
    };
    let Chain { mut spec, shapes, kind } = chain;
    let nl = spec.layers.len();
    // ranges a..=b whose output shape equals the input shape of a (a dense tail is never in a range)
    let mut ranges = vec![];
    for a in 0..nl {
        for b in a..nl {
            if shapes[a] == shapes[b + 1] && !(which == 3 && b == nl - 1) {
                ranges.push((a, b));
            }
        }
    }
    if ranges.is_empty() {
        return;
    }
    // for the flatten-boundary kind, half of the ranges end at the flattened layer
    let (a, b) = if which == 3 && rng.coin() {
        let c: Vec<(usize, usize)> = ranges.iter().cloned().filter(|r| r.1 == nl - 2).collect();
        if c.is_empty() { *rng.pick(&ranges) } else { *rng.pick(&c) }
    } else {
        *rng.pick(&ranges)
    };
    spec.loops = vec![(b, a, k, inskips)];
    spec.loopacc = acc;
    let boundary = which == 3 && b == nl - 2; // layer b's output is flattened for the dense layer
    let kind_s = if which == 3 { if boundary { "flatten-boundary" } else { "spatial" } } else { kind };
    // the flattened output of layer b cannot be added to the c x h x w input of layer a: one class
    let key = if boundary && inskips { "loop/flatten-boundary+inskips".to_string() } else { format!("loop/{}/{:?}/{}", kind_s, acc, if inskips { "inskips" } else { "no-inskips" }) };
    let x = rand_input(rng, shapes[0], 0);
    let input_d = || format!("{}; input {}", spec_desc(&spec), tdesc(&x));
    let net = match guard(|| spec.build()) {
        Some(n) => n,
        None => {
            f.check(&key, false, "builder panicked on a valid loop connection", input_d);
            return;
        }
    };
    // (1) Overwrite without input skips: the explicitly unrolled plain network
    if acc == Acc::Overwrite && !inskips {
        let ukey = format!("unroll/{}", kind_s);
        let mut un = NetSpec::new(spec.input.clone());
        let mut uw = vec![];
        let ws = spec.weights.clone().unwrap();
        let mut order: Vec<usize> = (0..a).collect();
        for _ in 0..=k {
            order.extend(a..=b);
        }
        order.extend(b + 1..nl);
        for i in order {
            un.layers.push(spec.layers[i].clone());
            uw.push(ws[i].clone());
        }
        un.weights = Some(uw);
        let r = guard(|| (net.predict(&x), un.build().predict(&x)));
        match r {
            None => f.check(&ukey, false, "predict panicked (looped or unrolled network)", input_d),
            Some((g, u)) => f.check(&ukey, tensor_eq(&g, &u), "Overwrite loop differs from the plain network with layers a..b repeated k+1 times", || {
                format!("{} -> looped {}, unrolled {}", input_d(), tdesc(&g), tdesc(&u))
            }),
        }
    }
    // (2) the value passed on after layer b: accumulation of the k+1 successive outputs
    let hand = guard(|| {
        let mut xa = x.clone();
        for l in &net.layers[0..a] {
            xa = layer_fwd(l, &xa).1;
        }
        let shape = xa.shape.clone();
        let xa_v = flat_of(&xa);
        let apply = |v: &Tensor| {
            let mut cur = v.clone();
            for l in &net.layers[a..=b] {
                cur = layer_fwd(l, &cur).1;
            }
            cur
        };
        let mut outs = vec![apply(&xa)];
        for _ in 0..k {
            let prev = outs.last().unwrap();
            let fed = if inskips { tensor_of_shape(&shape, &acc2_f32(Acc::Add, &flat_of(prev), &xa_v)) } else { prev.clone() };
            outs.push(apply(&fed));
        }
        let o0 = flat_of(&outs[0]);
        let rest: Vec<Vec<f32>> = outs[1..].iter().map(flat_of).collect();
        let (v, m) = acc_ref(acc, &o0, &rest);
        let ok = moderate(&o0) && rest.iter().all(|o| moderate(o)) && v.iter().all(|x| x.abs() < 1e12);
        (v, m, ok, outs[0].shape.clone())
    });
    let (rv, rm, ok_mag, oshape) = match hand {
        Some(h) => h,
        None => {
            f.check(&key, false, "a single layer panicked on a valid input", input_d);
            return;
        }
    };
    if !ok_mag {
        return;
    }
    match guard(|| net.forward(&x)) {
        None => f.check(&key, false, "forward panicked on a valid loop connection", input_d),
        Some((_, post, _, _)) => {
            let got = &post[b + 1];
            let mut ok = has_shape(got, &oshape) && close_all(&flat_of(got), &rv, &rm);
            // the layers after b continue from the passed-on value
            let rest = guard(|| {
                let mut cur = got.clone();
                for l in &net.layers[b + 1..] {
                    cur = layer_fwd(l, &cur).1;
                }
                (cur, net.predict(&x))
            });
            let mut tail = String::new();
            match rest {
                Some((cur, pred)) => {
                    if !tensor_eq(&cur, &pred) {
                        ok = false;
                        tail = format!("; prediction {} but the layers after b applied to the passed-on value give {}", tdesc(&pred), tdesc(&cur));
                    }
                }
                None => {
                    ok = false;
                    tail = "; predict panicked".into();
                }
            }
            f.check(&key, ok, "value passed on after layer b differs from the accumulation of the k+1 successive outputs", || {
                format!("{} -> passed on {}, expected {:?} {:?}{}", input_d(), tdesc(got), oshape, rv, tail)
            });
        }
    }
}

pub fn fals_c17(rng: &mut Rng, thorough: bool) -> Fals {
    let mut f = Fals::new();
    let reps = if thorough { 40 } else { 4 };
    for rep in 0..reps {
        for which in 0..4usize {
            for acc in ALL_ACCS {
                for inskips in [false, true] {
                    for k in 1..=4usize {
                        if !thorough && (k + rep + which) % 2 == 0 && acc != Acc::Overwrite {
                            continue;
                        }
                        c17_one(&mut f, rng, which, acc, inskips, k);
                    }
                }
            }
        }
    }
    f
}
