//! Tie cases for feedback blocks (C10, C11), skip and loop connections (C16, C17) and the
//! training loop (C04, C05, C09, C12, C13).
use crate::case::{Case, NetCmd};
use crate::gen_basic::rand_opt;
use crate::gen_tensor::Tagged;
use crate::netgen::*;
use crate::rng::Rng;
use crate::spec::*;
use crate::tok::*;
use neurons::tensor::Tensor;

/// a shape-preserving block layer list on `inp`
pub fn rand_block_layers(rng: &mut Rng, o: &GenOpts, inp: Sh, nlayers: usize) -> Option<Vec<Simple>> {
    let mut ls = vec![];
    match inp {
        Sh::Flat(n) => {
            let mut cur = n;
            for k in 0..nlayers {
                let out = if k + 1 == nlayers { n } else { rng.range(1, o.max_flat) };
                ls.push(Simple::Dense { out, act: *rng.pick(&o.acts), bias: o.bias.unwrap_or_else(|| rng.coin()), dropout: rand_dropout(rng, o) });
                cur = out;
            }
            let _ = cur;
            Some(ls)
        }
        Sh::Sp(c, h, w) => {
            // "same" convolutions (odd kernel, stride 1, padding (k-1)/2) and 1x1 deconvolutions keep h x w
            let mut ch = c;
            for k in 0..nlayers {
                let filters = if k + 1 == nlayers { c } else { rng.range(1, o.max_ch) };
                let l = if rng.chance(2, 3) {
                    let kh = *rng.pick(&[1usize, 3]);
                    let kw = *rng.pick(&[1usize, 3]);
                    Simple::Conv { filters, kernel: (kh, kw), stride: (1, 1), padding: ((kh - 1) / 2, (kw - 1) / 2), dilation: (1, 1), act: *rng.pick(&o.acts), dropout: rand_dropout(rng, o) }
                } else {
                    let k2 = *rng.pick(&[1usize, 3]);
                    Simple::Deconv { filters, kernel: (k2, k2), stride: (1, 1), padding: ((k2 - 1) / 2, (k2 - 1) / 2), act: *rng.pick(&o.acts), dropout: rand_dropout(rng, o) }
                };
                // the forward pass of a padded deconvolution needs (ih-1) >= 2p
                if let Simple::Deconv { padding, .. } = &l {
                    if h < 1 + 2 * padding.0 || w < 1 + 2 * padding.1 {
                        return None;
                    }
                }
                ls.push(l);
                ch = filters;
            }
            let _ = ch;
            Some(ls)
        }
    }
}

pub fn block_weights(rng: &mut Rng, ls: &[Simple], inp: Sh, kind: u8) -> Option<LW> {
    let mut cur = inp;
    let mut ws = vec![];
    for l in ls {
        let inp_for_w = match (l, cur) {
            (Simple::Dense { .. }, _) => Sh::Flat(cur.numel()),
            (_, s) => as_spatial(s).map(|(c, h, w)| Sh::Sp(c, h, w))?,
        };
        ws.push(rand_w(rng, l, inp_for_w, kind));
        cur = out_shape(l, cur)?;
    }
    Some(LW::Block(ws))
}

/// network: [optional prefix] block [optional dense]
fn block_net(rng: &mut Rng, o: &GenOpts, spatial: bool, loops: usize, inskips: bool, outskips: bool, acc: Acc, follow_dense: bool)
    -> Option<(NetSpec, Sh, Sh)> {
    let input = if spatial { Sh::Sp(rng.range(1, 2), rng.range(2, 4), rng.range(2, 4)) } else { Sh::Flat(rng.range(1, 5)) };
    let nl = rng.range(1, 3);
    let ls = rand_block_layers(rng, o, input, nl)?;
    let mut spec = NetSpec::new(input.to_shape());
    let bw = block_weights(rng, &ls, input, o.wkind)?;
    spec.layers.push(LayerSpec::Block { layers: ls, loops, inskips, outskips, acc });
    let mut ws = vec![bw];
    let mut out = input;
    if follow_dense {
        let d = Simple::Dense { out: rng.range(1, 4), act: *rng.pick(&o.acts), bias: rng.coin(), dropout: None };
        ws.push(LW::One(rand_w(rng, &d, Sh::Flat(input.numel()), o.wkind)));
        out = out_shape(&d, input)?;
        spec.layers.push(LayerSpec::One(d));
    }
    spec.weights = Some(ws);
    Some((spec, input, out))
}

/// a flat network with TWO feedback blocks (different depth, loop count, skips and accumulation),
/// optionally separated by a dense layer, followed by a dense output layer
pub fn two_block_net(rng: &mut Rng, r: usize, wkind: u8) -> (NetSpec, Sh, Sh) {
    let n = rng.range(2, 4);
    let input = Sh::Flat(n);
    let mut spec = NetSpec::new(input.to_shape());
    let mut ws = vec![];
    let acts = [Act::Tanh, Act::Sigmoid, Act::Linear];
    let mut push_block = |spec: &mut NetSpec, ws: &mut Vec<LW>, rng: &mut Rng, nl: usize, loops: usize, insk: bool, outsk: bool, acc: Acc| {
        let ls: Vec<Simple> = (0..nl).map(|_| Simple::Dense { out: n, act: *rng.pick(&acts), bias: rng.coin(), dropout: None }).collect();
        let bw: Vec<W> = ls.iter().map(|l| rand_w(rng, l, Sh::Flat(n), wkind)).collect();
        ws.push(LW::Block(bw));
        spec.layers.push(LayerSpec::Block { layers: ls, loops, inskips: insk, outskips: outsk, acc });
    };
    push_block(&mut spec, &mut ws, rng, 1 + r % 2, 1 + r % 3, r % 4 == 1, r % 4 == 2, ALL_ACCS[r % 5]);
    if r % 3 == 0 {
        let d = Simple::Dense { out: n, act: Act::Tanh, bias: true, dropout: None };
        ws.push(LW::One(rand_w(rng, &d, Sh::Flat(n), wkind)));
        spec.layers.push(LayerSpec::One(d));
    }
    push_block(&mut spec, &mut ws, rng, 2 - r % 2, 1 + (r + 1) % 3, r % 4 == 3, r % 4 == 1, ALL_ACCS[(r + 2) % 5]);
    let outn = rng.range(1, 3);
    let d = Simple::Dense { out: outn, act: Act::Linear, bias: true, dropout: None };
    ws.push(LW::One(rand_w(rng, &d, Sh::Flat(n), wkind)));
    spec.layers.push(LayerSpec::One(d));
    spec.weights = Some(ws);
    (spec, input, Sh::Flat(outn))
}

/// a spatial network whose feedback block contains a max-pool layer with a real window:
/// [deconv 2x2 (grows by one), max-pool 2x2 stride 1 (shrinks by one)] and variants, followed by a dense layer
pub fn pool_block_net(rng: &mut Rng, r: usize, wkind: u8, smooth: bool) -> Option<(NetSpec, Sh, Sh)> {
    let (c, h, w) = (1 + r % 2, rng.range(2, 3), rng.range(2, 4));
    let input = Sh::Sp(c, h, w);
    let acts: Vec<Act> = if smooth { vec![Act::Tanh, Act::Sigmoid, Act::Linear] } else { vec![Act::Tanh, Act::Linear, Act::ReLU, Act::Leaky] };
    let dc = |rng: &mut Rng, f: usize| Simple::Deconv { filters: f, kernel: (2, 2), stride: (1, 1), padding: (0, 0), act: *rng.pick(&acts), dropout: None };
    let pool = Simple::Maxpool { kernel: (2, 2), stride: (1, 1) };
    let ls: Vec<Simple> = match r % 4 {
        0 => vec![dc(rng, c), pool],
        1 => vec![Simple::Conv { filters: rng.range(1, 2), kernel: (3, 3), stride: (1, 1), padding: (1, 1), dilation: (1, 1), act: *rng.pick(&acts), dropout: None }, dc(rng, c), pool],
        2 => vec![Simple::Conv { filters: c, kernel: (1, 1), stride: (1, 1), padding: (0, 0), dilation: (1, 1), act: *rng.pick(&acts), dropout: None }, Simple::Maxpool { kernel: (1, 1), stride: (1, 1) }],
        _ => vec![{ let f_ = rng.range(1, 2); dc(rng, f_) }, pool, Simple::Conv { filters: c, kernel: (1, 3), stride: (1, 1), padding: (0, 1), dilation: (1, 1), act: *rng.pick(&acts), dropout: None }],
    };
    let mut spec = NetSpec::new(input.to_shape());
    let bw = block_weights(rng, &ls, input, wkind)?;
    spec.layers.push(LayerSpec::Block { layers: ls, loops: 1 + (r / 4) % 3, inskips: (r / 2) % 4 == 1, outskips: (r / 2) % 4 == 3, acc: Acc::Add });
    let d = Simple::Dense { out: rng.range(1, 3), act: Act::Linear, bias: true, dropout: None };
    let outsh = out_shape(&d, input)?;
    let ws = vec![bw, LW::One(rand_w(rng, &d, Sh::Flat(input.numel()), wkind))];
    spec.layers.push(LayerSpec::One(d));
    spec.weights = Some(ws);
    Some((spec, input, outsh))
}

pub fn gen_c11(rng: &mut Rng, thorough: bool) -> Vec<Tagged> {
    let mut out: Vec<Tagged> = vec![];
    let mut o = GenOpts::default();
    o.wkind = 1;
    let reps = if thorough { 12 } else { 2 };
    for _ in 0..reps {
        for spatial in [false, true] {
            for loops in 1..=4usize {
                for (inskips, outskips) in [(false, false), (true, false), (false, true), (true, true)] {
                    for acc in ALL_ACCS {
                        let follow = rng.coin();
                        if let Some((spec, input, _)) = block_net(rng, &o, spatial, loops, inskips, outskips, acc, follow) {
                            let x = rand_input(rng, input, 0);
                            let tag = format!("block-{}-L{}-in{}-out{}-{:?}{}", if spatial { "sp" } else { "flat" }, loops, inskips as u8, outskips as u8, acc, if follow { "-dense" } else { "" });
                            out.push((tag, Case::Net(spec, NetCmd::Forward(x))));
                        }
                    }
                }
            }
        }
    }
    // block bodies whose repetition overflows (gain 1e13) with every accumulation and skip combination
    for (ai, acc) in ALL_ACCS.iter().enumerate() {
        for (inskips, outskips) in [(false, false), (true, true), (false, true)] {
            let n = 1 + ai % 2;
            let mut w = vec![0.0f32; n * n];
            for i in 0..n {
                w[i * n + i] = if i == 0 { 1e13 } else { -2e12 };
            }
            let mut spec = NetSpec::new(Sh::Flat(n).to_shape());
            spec.layers.push(LayerSpec::Block { layers: vec![Simple::Dense { out: n, act: Act::Linear, bias: false, dropout: None }], loops: 4, inskips, outskips, acc: *acc });
            spec.weights = Some(vec![LW::Block(vec![W::Dense(t2(n, n, &w), None)])]);
            out.push((format!("block-overflowing-body-{:?}", acc), Case::Net(spec, NetCmd::Forward(t1(vec![1.0; n])))));
        }
    }
    // two blocks in one network: each computes ITS repeated sequence
    for r in 0..(if thorough { 40 } else { 10 }) {
        let (spec, input, _) = two_block_net(rng, r, 1);
        out.push(("two-blocks-fwd".into(), Case::Net(spec, NetCmd::Forward(rand_input(rng, input, 0)))));
    }
    // many repetitions (beyond 2^6), skips with every accumulation
    for (ai, acc) in ALL_ACCS.iter().enumerate() {
        let loops = [65usize, 70, 130, 66, 129][ai];
        let n = 2usize;
        let mut spec = NetSpec::new(Sh::Flat(n).to_shape());
        let ls = vec![Simple::Dense { out: n, act: Act::Tanh, bias: true, dropout: None }];
        let bw = vec![rand_w(rng, &ls[0], Sh::Flat(n), 1)];
        spec.layers.push(LayerSpec::Block { layers: ls, loops, inskips: ai % 2 == 0, outskips: ai != 1, acc: *acc });
        spec.weights = Some(vec![LW::Block(bw)]);
        out.push((format!("block-many-repetitions-{:?}", acc), Case::Net(spec, NetCmd::Forward(rand_input(rng, Sh::Flat(n), 0)))));
    }
    // many repetitions of a body that does NOT converge (bias-free rotations by an angle incommensurable with
    // pi, linear activation): L = 128, 129, 130, 200, 257 repetitions of one layer, 65 / 70 of two layers, 43 / 44
    // of three; every repetition counts (one repetition more or less turns the output by the angle)
    for (k, &(nl, loops)) in [(1usize, 129usize), (1, 130), (1, 128), (1, 200), (1, 257), (2, 65), (2, 70), (3, 43), (3, 44), (2, 64)].iter().enumerate() {
        if !(thorough || k % 2 == 0 || k == 1) {
            continue;
        }
        let mut spec = NetSpec::new(Sh::Flat(2).to_shape());
        let ls: Vec<Simple> = (0..nl).map(|_| Simple::Dense { out: 2, act: Act::Linear, bias: false, dropout: None }).collect();
        let bw: Vec<W> = (0..nl).map(|j| { let th = 0.37f32 + 0.21 * j as f32; W::Dense(t2(2, 2, &[th.cos(), -th.sin(), th.sin(), th.cos()]), None) }).collect();
        let outskips = k % 3 == 1;
        spec.layers.push(LayerSpec::Block { layers: ls, loops, inskips: false, outskips, acc: if outskips { Acc::Add } else { Acc::Mean } });
        spec.weights = Some(vec![LW::Block(bw)]);
        out.push((format!("block-rotation-L{}x{}", loops, nl), Case::Net(spec.clone(), NetCmd::Forward(t1(vec![1.0, 0.25])))));
        out.push((format!("block-rotation-L{}x{}-predict", loops, nl), Case::Net(spec, NetCmd::Predict(t1(vec![-0.5, 0.75])))));
    }
    // blocks on flat tensors with more than 2^10 elements, skips with every accumulation
    for acc in ALL_ACCS {
        let nbig = 1100usize;
        let mut spec = NetSpec::new(Sh::Flat(nbig).to_shape());
        let ls = vec![Simple::Dense { out: 2, act: Act::Tanh, bias: true, dropout: None }, Simple::Dense { out: nbig, act: Act::Linear, bias: false, dropout: None }];
        let bw = vec![rand_w(rng, &ls[0], Sh::Flat(nbig), 1), rand_w(rng, &ls[1], Sh::Flat(2), 1)];
        spec.layers.push(LayerSpec::Block { layers: ls, loops: 3, inskips: true, outskips: true, acc });
        spec.weights = Some(vec![LW::Block(bw)]);
        out.push((format!("block-huge-flat-{:?}", acc), Case::Net(spec, NetCmd::Forward(rand_input(rng, Sh::Flat(nbig), 0)))));
    }
    // feedback block + skip connection + loop connection in one network
    for r in 0..(if thorough { 40 } else { 10 }) {
        let (spec, input, _) = combo_net(rng, r, 1);
        out.push(("block-skip-loop-combination".into(), Case::Net(spec, NetCmd::Forward(rand_input(rng, input, 0)))));
    }
    // blocks that contain a max-pool layer with a real window
    for r in 0..(if thorough { 48 } else { 12 }) {
        if let Some((spec, input, _)) = pool_block_net(rng, r, 1, false) {
            out.push(("block-with-maxpool-fwd".into(), Case::Net(spec, NetCmd::Forward(rand_input(rng, input, 0)))));
        }
    }
    out
}

pub fn gen_c10(rng: &mut Rng, thorough: bool) -> Vec<Tagged> {
    let mut out: Vec<Tagged> = vec![];
    let mut o = GenOpts::default();
    o.wkind = 2;
    o.acts = vec![Act::Linear, Act::Tanh, Act::Sigmoid, Act::ReLU];
    let reps = if thorough { 10 } else { 1 };
    for _ in 0..reps {
        for spatial in [false, true] {
            for loops in 1..=4usize {
                for acc in [Acc::Add, Acc::Sub, Acc::Mul, Acc::Mean] {
                    for kind in 0..5 {
                        if !(thorough || (loops + kind) % 2 == 0) {
                            continue;
                        }
                        if let Some((mut spec, input, outsh)) = block_net(rng, &o, spatial, loops, false, false, acc, true) {
                            spec.opt = rand_opt(rng, kind);
                            spec.obj = Obj::MSE;
                            let n = rng.range(1, 3);
                            let data: Vec<(Tensor, Tensor)> = (0..n).map(|_| (rand_input(rng, input, 2), rand_target(rng, outsh, Obj::MSE))).collect();
                            let tag = format!("tied-{}-L{}-{:?}-{}", if spatial { "sp" } else { "flat" }, loops, acc, spec.opt.kind());
                            out.push((tag.clone(), Case::Net(spec.clone(), NetCmd::Learn { data: data.clone(), val: None, batch: rng.range(1, 3), epochs: rng.range(1, 3) as i32 })));
                            out.push((format!("{}-params", tag), Case::Net(spec, NetCmd::Shapes)));
                        }
                    }
                }
            }
        }
    }
    // two blocks in one network: both stay tied, the parameter count sums one repetition of each
    for r in 0..(if thorough { 30 } else { 8 }) {
        let (mut spec, input, outsh) = two_block_net(rng, r, 2);
        for l in spec.layers.iter_mut() {
            if let LayerSpec::Block { inskips, outskips, acc, .. } = l {
                *inskips = false;
                *outskips = false;
                if *acc == Acc::Overwrite {
                    *acc = Acc::Mean;
                }
            }
        }
        spec.opt = rand_opt(rng, r % 5);
        spec.obj = Obj::MSE;
        let data: Vec<(Tensor, Tensor)> = (0..2).map(|_| (rand_input(rng, input, 2), rand_target(rng, outsh, Obj::MSE))).collect();
        out.push(("tied-two-blocks".into(), Case::Net(spec.clone(), NetCmd::Learn { data, val: None, batch: 1 + r % 2, epochs: 2 })));
        out.push(("tied-two-blocks-params".into(), Case::Net(spec, NetCmd::Shapes)));
    }
    // many repetitions (beyond 2^6): every copy stays tied
    for (k, &loops) in [65usize, 70, 130].iter().enumerate() {
        if !(thorough || k == 0) {
            continue;
        }
        let n = 2usize;
        let mut spec = NetSpec::new(Sh::Flat(n).to_shape());
        let ls = vec![Simple::Dense { out: n, act: Act::Tanh, bias: k % 2 == 0, dropout: None }];
        let bw = vec![rand_w(rng, &ls[0], Sh::Flat(n), 2)];
        spec.layers.push(LayerSpec::Block { layers: ls, loops, inskips: false, outskips: false, acc: Acc::Mean });
        spec.weights = Some(vec![LW::Block(bw)]);
        spec.opt = Opt::SGD { lr: 0.05, decay: None };
        spec.obj = Obj::MSE;
        let data = rand_data(rng, 2, Sh::Flat(n), Sh::Flat(n), Obj::MSE);
        out.push(("tied-many-repetitions".into(), Case::Net(spec.clone(), NetCmd::Learn { data, val: None, batch: 1, epochs: 2 })));
        out.push(("tied-many-repetitions-params".into(), Case::Net(spec, NetCmd::Shapes)));
    }
    // blocks with MANY parameters (loops x scalars beyond 2^13 and 2^16): wide dense layers with bias, and
    // convolutions with many filters and channels; weights AND biases of every copy stay tied
    for (k, &(width, loops)) in [(64usize, 2usize), (32, 8), (91, 1), (130, 4)].iter().enumerate() {
        if !(thorough || k < 3) {
            continue;
        }
        let mut spec = NetSpec::new(Sh::Flat(width).to_shape());
        let ls = vec![Simple::Dense { out: width, act: Act::Tanh, bias: true, dropout: None }];
        let bw = vec![rand_w(rng, &ls[0], Sh::Flat(width), 2)];
        spec.layers.push(LayerSpec::Block { layers: ls, loops, inskips: false, outskips: false, acc: [Acc::Mean, Acc::Add][k % 2] });
        let d = Simple::Dense { out: 2, act: Act::Linear, bias: true, dropout: None };
        spec.weights = Some(vec![LW::Block(bw), LW::One(rand_w(rng, &d, Sh::Flat(width), 2))]);
        spec.layers.push(LayerSpec::One(d));
        spec.opt = rand_opt(rng, k % 5);
        spec.obj = Obj::MSE;
        let data = rand_data(rng, 2, Sh::Flat(width), Sh::Flat(2), Obj::MSE);
        out.push(("tied-many-parameters-dense".into(), Case::Net(spec.clone(), NetCmd::Learn { data, val: None, batch: 1, epochs: 2 })));
        out.push(("tied-many-parameters-dense-params".into(), Case::Net(spec, NetCmd::Shapes)));
    }
    for (k, &(c, loops)) in [(16usize, 4usize), (24, 2)].iter().enumerate() {
        if !(thorough || k == 0) {
            continue;
        }
        let input = Sh::Sp(c, 3, 3);
        let ls = vec![Simple::Conv { filters: c, kernel: (3, 3), stride: (1, 1), padding: (1, 1), dilation: (1, 1), act: Act::Tanh, dropout: None }];
        let bw = match block_weights(rng, &ls, input, 2) { Some(b) => b, None => continue };
        let mut spec = NetSpec::new(input.to_shape());
        spec.layers.push(LayerSpec::Block { layers: ls, loops, inskips: false, outskips: false, acc: Acc::Mean });
        let d = Simple::Dense { out: 2, act: Act::Linear, bias: true, dropout: None };
        spec.weights = Some(vec![bw, LW::One(rand_w(rng, &d, Sh::Flat(input.numel()), 2))]);
        spec.layers.push(LayerSpec::One(d));
        spec.opt = rand_opt(rng, 1 + k);
        spec.obj = Obj::MSE;
        let data = rand_data(rng, 2, input, Sh::Flat(2), Obj::MSE);
        out.push(("tied-many-parameters-conv".into(), Case::Net(spec.clone(), NetCmd::Learn { data, val: None, batch: 1, epochs: 2 })));
        out.push(("tied-many-parameters-conv-params".into(), Case::Net(spec, NetCmd::Shapes)));
    }
    // a spatial block with INPUT SKIPS and two or more loops in front of a dense layer: the library's backward pass
    // refuses it (see DESIGN D2, "observed, outside the given properties"); model and implementation agree on that
    for loops in [2usize, 3] {
        let input = Sh::Sp(2, 4, 4);
        let ls = vec![Simple::Conv { filters: 2, kernel: (3, 3), stride: (1, 1), padding: (1, 1), dilation: (1, 1), act: Act::Tanh, dropout: None }];
        let bw = match block_weights(rng, &ls, input, 2) { Some(b) => b, None => continue };
        let mut spec = NetSpec::new(input.to_shape());
        spec.layers.push(LayerSpec::Block { layers: ls, loops, inskips: true, outskips: false, acc: Acc::Mean });
        let d = Simple::Dense { out: 2, act: Act::Linear, bias: true, dropout: None };
        spec.weights = Some(vec![bw, LW::One(rand_w(rng, &d, Sh::Flat(32), 2))]);
        spec.layers.push(LayerSpec::One(d));
        spec.opt = Opt::SGD { lr: 0.01, decay: None };
        spec.obj = Obj::MSE;
        let data = rand_data(rng, 1, input, Sh::Flat(2), Obj::MSE);
        out.push(("spatial-block-inskips-then-dense-learn-refused".into(), Case::Net(spec.clone(), NetCmd::Learn { data: data.clone(), val: None, batch: 1, epochs: 1 })));
        out.push(("spatial-block-inskips-then-dense-predict".into(), Case::Net(spec, NetCmd::Predict(data[0].0.clone()))));
    }
    // blocks with a max-pool layer: the parameter-free couple is skipped, the others stay tied
    for r in 0..(if thorough { 36 } else { 12 }) {
        if let Some((mut spec, input, outsh)) = pool_block_net(rng, r, 2, false) {
            for l in spec.layers.iter_mut() {
                if let LayerSpec::Block { inskips, outskips, acc, .. } = l {
                    *inskips = false;
                    *outskips = false;
                    *acc = [Acc::Add, Acc::Mean, Acc::Mean][r % 3];
                }
            }
            spec.opt = rand_opt(rng, r % 5);
            spec.obj = Obj::MSE;
            let data: Vec<(Tensor, Tensor)> = (0..2).map(|_| (rand_input(rng, input, 2), rand_target(rng, outsh, Obj::MSE))).collect();
            out.push(("tied-block-with-maxpool".into(), Case::Net(spec.clone(), NetCmd::Learn { data, val: None, batch: 1 + r % 2, epochs: 2 })));
            out.push(("tied-block-with-maxpool-params".into(), Case::Net(spec, NetCmd::Shapes)));
        }
    }
    out
}

/// networks with skip connections: forward, gradients, and builder call sequences
pub fn gen_c16(rng: &mut Rng, thorough: bool) -> Vec<Tagged> {
    let mut out: Vec<Tagged> = vec![];
    let mut o = GenOpts::default();
    o.wkind = 1;
    o.acts = vec![Act::Linear, Act::Tanh, Act::Sigmoid, Act::ReLU, Act::Leaky];
    // skip connections in networks that also contain a feedback block and a loop connection: forward and gradients
    for r in 0..(if thorough { 40 } else { 12 }) {
        let (mut spec, input, outsh) = combo_net(rng, r, 1);
        out.push(("skip-block-loop-combination-fwd".into(), Case::Net(spec.clone(), NetCmd::Forward(rand_input(rng, input, 0)))));
        spec.obj = Obj::MSE;
        spec.loops = vec![];
        out.push(("skip-block-combination-bwd".into(), Case::Net(spec, NetCmd::Backward(rand_input(rng, input, 2), rand_target(rng, outsh, Obj::MSE)))));
    }
    let reps = if thorough { 400 } else { 60 };
    for r in 0..reps {
        // dense chains of equal width, or spatial "same" chains, or a mix with equal element count
        let mut spec;
        let input;
        let depth = rng.range(2, 5);
        let mut ws = vec![];
        match r % 3 {
            0 => {
                let n = rng.range(1, 5);
                input = Sh::Flat(n);
                spec = NetSpec::new(input.to_shape());
                for _ in 0..depth {
                    let d = Simple::Dense { out: n, act: *rng.pick(&o.acts), bias: rng.coin(), dropout: None };
                    ws.push(LW::One(rand_w(rng, &d, Sh::Flat(n), 1)));
                    spec.layers.push(LayerSpec::One(d));
                }
            }
            1 => {
                let (c, h, w) = (rng.range(1, 2), rng.range(2, 4), rng.range(2, 4));
                input = Sh::Sp(c, h, w);
                spec = NetSpec::new(input.to_shape());
                let ls = rand_block_layers(rng, &o, input, depth).unwrap_or_default();
                if ls.is_empty() {
                    continue;
                }
                let mut cur = input;
                for l in ls {
                    ws.push(LW::One(rand_w(rng, &l, cur, 1)));
                    cur = out_shape(&l, cur).unwrap();
                    spec.layers.push(LayerSpec::One(l));
                }
            }
            _ => {
                // spatial 1 x r x r input, conv "same", then dense of r*r outputs, then more dense: flat <-> spatial skip
                let rr = rng.range(2, 3);
                input = Sh::Sp(1, rr, rr);
                spec = NetSpec::new(input.to_shape());
                let c = Simple::Conv { filters: 1, kernel: (3, 3), stride: (1, 1), padding: (1, 1), dilation: (1, 1), act: *rng.pick(&o.acts), dropout: None };
                ws.push(LW::One(rand_w(rng, &c, input, 1)));
                spec.layers.push(LayerSpec::One(c));
                for _ in 1..depth {
                    let d = Simple::Dense { out: rr * rr, act: *rng.pick(&o.acts), bias: rng.coin(), dropout: None };
                    ws.push(LW::One(rand_w(rng, &d, Sh::Flat(rr * rr), 1)));
                    spec.layers.push(LayerSpec::One(d));
                }
            }
        }
        spec.weights = Some(ws);
        // every (architecture, accumulation) combination is visited, not left to chance
        spec.skipacc = ALL_ACCS[(r / 3) % ALL_ACCS.len()];
        // one to three connections with distinct targets; sources may or may not be distinct
        let nc = rng.range(1, 3.min(depth - 1).max(1));
        let mut targets: Vec<usize> = (1..depth).collect();
        let mut conns = vec![];
        for _ in 0..nc {
            if targets.is_empty() {
                break;
            }
            let ti = rng.below(targets.len());
            let b = targets.remove(ti);
            let a = rng.below(b + 1);
            conns.push((a, b));
        }
        spec.connect = conns.clone();
        let x = rand_input(rng, input, 0);
        let nsrc: std::collections::BTreeSet<usize> = conns.iter().map(|c| c.0).collect();
        let tag = format!("skip-{:?}-{}c{}{}", spec.skipacc, conns.len(), if nsrc.len() < conns.len() { "-sharedsrc" } else { "" }, if conns.iter().any(|c| c.0 == c.1) { "-self" } else { "" });
        out.push((format!("{}-fwd", tag), Case::Net(spec.clone(), NetCmd::Forward(x.clone()))));
        if spec.skipacc == Acc::Add {
            let outsh = match spec.layers.last() {
                Some(LayerSpec::One(Simple::Dense { out, .. })) => Sh::Flat(*out),
                _ => input,
            };
            let t = rand_target(rng, outsh, Obj::MSE);
            out.push((format!("{}-bwd", tag), Case::Net(spec.clone(), NetCmd::Backward(x, t))));
        }
        // builder call sequences on the same layers
        let mut base = spec.clone();
        base.connect = vec![];
        let ncalls = rng.range(1, 4);
        let calls: Vec<(usize, usize)> = (0..ncalls).map(|_| { let b = rng.below(depth + 1); let a = rng.below(depth + 1); (a, b) }).collect();
        out.push(("connect-seq".into(), Case::ConnectSeq(base.clone(), calls)));
        // structured sequences: a valid connection followed by a second one into the SAME target
        // (other source / same source), a chain, and a connection whose source is an earlier target
        if depth >= 2 {
            let b = rng.range(1, depth - 1);
            let a = rng.below(b + 1);
            let a2 = (a + 1 + rng.below(b.max(1))) % (b + 1);
            let seqs: Vec<(&str, Vec<(usize, usize)>)> = vec![
                ("connect-seq-same-target-other-source", vec![(a, b), (a2, b)]),
                ("connect-seq-same-pair-twice", vec![(a, b), (a, b)]),
                ("connect-seq-source-is-earlier-target", vec![(a, b), (b, (b + 1).min(depth - 1))]),
                ("connect-seq-third-after-rejected", vec![(a, b), (a2, b), (0, depth - 1)]),
            ];
            for (tag, calls) in seqs {
                out.push((tag.into(), Case::ConnectSeq(base.clone(), calls)));
            }
        }
    }
    // skip between two SPATIAL inputs with the same element count but different dimensions
    // (1 x 4 x 4 -> 4 x 2 x 2 and the like): the source is re-read in the target's dimensions
    for (k, acc) in ALL_ACCS.iter().enumerate() {
        for variant in 0..2 {
            let (input, filters, kernel, stride) = if variant == 0 { (Sh::Sp(1, 4, 4), 4usize, (2usize, 2usize), (2usize, 2usize)) } else { (Sh::Sp(2, 2, 4), 4, (1, 2), (1, 2)) };
            let c0 = Simple::Conv { filters, kernel, stride, padding: (0, 0), dilation: (1, 1), act: Act::Tanh, dropout: None };
            let mid = out_shape(&c0, input).unwrap();
            let c1 = Simple::Conv { filters: 1 + k % 2, kernel: (1, 1), stride: (1, 1), padding: (0, 0), dilation: (1, 1), act: Act::Linear, dropout: None };
            let mut spec = NetSpec::new(input.to_shape());
            spec.weights = Some(vec![LW::One(rand_w(rng, &c0, input, 1)), LW::One(rand_w(rng, &c1, mid, 1))]);
            spec.layers.push(LayerSpec::One(c0));
            spec.layers.push(LayerSpec::One(c1));
            spec.connect = vec![(0, 1)];
            spec.skipacc = *acc;
            let x = rand_input(rng, input, 0);
            out.push((format!("skip-{:?}-spatial-to-spatial-other-dims-fwd", acc), Case::Net(spec.clone(), NetCmd::Forward(x.clone()))));
            if *acc == Acc::Add {
                let osh = out_shape(&Simple::Conv { filters: 1 + k % 2, kernel: (1, 1), stride: (1, 1), padding: (0, 0), dilation: (1, 1), act: Act::Linear, dropout: None }, mid).unwrap();
                let t = rand_target(rng, osh, Obj::MSE);
                out.push((format!("skip-{:?}-spatial-to-spatial-other-dims-bwd", acc), Case::Net(spec, NetCmd::Backward(x, t))));
            }
        }
    }
    // skip connections into a FLAT input of more than 2^12 elements that is no multiple of 2^12 (a 1 x 72 x 72 image
    // through a 1x1 convolution, flattened in front of a dense layer: 5184 values; 66 x 67 = 4422), every accumulation
    for (k, acc) in ALL_ACCS.iter().enumerate() {
        let (h, w) = if k % 2 == 0 { (72usize, 72usize) } else { (66, 67) };
        if !(thorough || k < 2) {
            continue;
        }
        let input = Sh::Sp(1, h, w);
        let c = Simple::Conv { filters: 1, kernel: (1, 1), stride: (1, 1), padding: (0, 0), dilation: (1, 1), act: Act::Linear, dropout: None };
        let d = Simple::Dense { out: 2, act: Act::Linear, bias: false, dropout: None };
        let mut spec = NetSpec::new(input.to_shape());
        let wd: Vec<f32> = (0..2 * h * w).map(|i| ((i * 13) % 31) as f32 * 0.01 - 0.15).collect();
        spec.weights = Some(vec![LW::One(W::Kernels(vec![t3(1, 1, 1, &[0.5])])), LW::One(W::Dense(t2(2, h * w, &wd), None))]);
        spec.layers.push(LayerSpec::One(c));
        spec.layers.push(LayerSpec::One(d));
        spec.connect = vec![(0, 1)];
        spec.skipacc = *acc;
        let x = tensor_of_shape(&input.to_shape(), &(0..h * w).map(|i| ((i * 7) % 23) as f32 * 0.1 - 1.0).collect::<Vec<_>>());
        out.push((format!("skip-{:?}-into-huge-flat-input-predict", acc), Case::Net(spec, NetCmd::Predict(x))));
    }
    // every entry point on skip networks (not only forward): chained connections (the source of one is the
    // target of another), one source at index >= 1 feeding several targets, a self connection feeding on,
    // every accumulation; plus direct writes of the public map
    for (k, acc) in ALL_ACCS.iter().enumerate() {
        let layouts: Vec<Vec<(usize, usize)>> = vec![
            vec![(0, 1), (1, 2), (2, 3)],
            vec![(1, 2), (1, 3)],
            vec![(1, 1), (1, 3)],
            vec![(0, 1), (0, 2), (2, 3)],
            vec![(2, 3), (2, 4), (2, 2)],
        ];
        for (li, conns) in layouts.into_iter().enumerate() {
            let mut spec = dense_chain(rng, 2 + (k + li) % 2, 5, 1);
            spec.skipacc = *acc;
            spec.connect = conns;
            let n = 2 + (k + li) % 2;
            entry_point_cases(rng, &spec, Sh::Flat(n), &format!("skip-{:?}-layout{}", acc, li), &mut out);
        }
    }
    for r in 0..(if thorough { 20 } else { 6 }) {
        let (spec, input, _) = combo_net(rng, r, 1);
        entry_point_cases(rng, &spec, input, "skip-block-loop-combination", &mut out);
    }
    out
}

/// networks with loop connections
pub fn gen_c17(rng: &mut Rng, thorough: bool) -> Vec<Tagged> {
    let mut out: Vec<Tagged> = vec![];
    let mut o = GenOpts::default();
    o.wkind = 1;
    o.acts = vec![Act::Linear, Act::Tanh, Act::Sigmoid, Act::ReLU, Act::Leaky];
    let reps = if thorough { 400 } else { 60 };
    for r in 0..reps {
        let depth = rng.range(2, 4);
        let mut ws = vec![];
        let mut spec;
        let input;
        let mut pool_at = None;
        match r % 3 {
            0 => {
                let n = rng.range(1, 5);
                input = Sh::Flat(n);
                spec = NetSpec::new(input.to_shape());
                for _ in 0..depth {
                    let d = Simple::Dense { out: n, act: *rng.pick(&o.acts), bias: rng.coin(), dropout: None };
                    ws.push(LW::One(rand_w(rng, &d, Sh::Flat(n), 1)));
                    spec.layers.push(LayerSpec::One(d));
                }
            }
            1 => {
                let (c, h, w) = (rng.range(1, 2), rng.range(2, 4), rng.range(2, 4));
                input = Sh::Sp(c, h, w);
                spec = NetSpec::new(input.to_shape());
                let ls = match rand_block_layers(rng, &o, input, depth) { Some(l) => l, None => continue };
                let mut cur = input;
                for (k, l) in ls.into_iter().enumerate() {
                    // sometimes a 1x1 max-pool inside the range
                    if k == 1 && rng.coin() {
                        let p = Simple::Maxpool { kernel: (1, 1), stride: (1, 1) };
                        ws.push(LW::One(W::None));
                        spec.layers.push(LayerSpec::One(p));
                        pool_at = Some(spec.layers.len() - 1);
                    }
                    ws.push(LW::One(rand_w(rng, &l, cur, 1)));
                    cur = out_shape(&l, cur).unwrap();
                    spec.layers.push(LayerSpec::One(l));
                }
            }
            _ => {
                // spatial range followed by a dense layer (flatten boundary at the end of the range)
                let rr = rng.range(2, 3);
                input = Sh::Sp(1, rr, rr);
                spec = NetSpec::new(input.to_shape());
                for _ in 0..depth - 1 {
                    let c = Simple::Conv { filters: 1, kernel: (3, 3), stride: (1, 1), padding: (1, 1), dilation: (1, 1), act: *rng.pick(&o.acts), dropout: None };
                    ws.push(LW::One(rand_w(rng, &c, input, 1)));
                    spec.layers.push(LayerSpec::One(c));
                }
                let d = Simple::Dense { out: rng.range(1, 4), act: *rng.pick(&o.acts), bias: rng.coin(), dropout: None };
                ws.push(LW::One(rand_w(rng, &d, Sh::Flat(rr * rr), 1)));
                spec.layers.push(LayerSpec::One(d));
            }
        }
        let _ = pool_at;
        let nlayers = spec.layers.len();
        spec.weights = Some(ws);
        // every (architecture, accumulation) combination is visited, not left to chance
        spec.loopacc = ALL_ACCS[(r / 3) % ALL_ACCS.len()];
        // the loop range: within the shape-preserving part
        let last_loopable = if r % 3 == 2 { nlayers - 2 } else { nlayers - 1 };
        let two_loops = r % 4 == 3 && last_loopable >= 1;
        let b = if two_loops { rng.range(1, last_loopable) } else { rng.range(0, last_loopable) };
        let a = if two_loops { rng.range(1, b) } else { rng.range(0, b) };
        let k = rng.range(1, 4);
        let insk = rng.chance(1, 3);
        spec.loops = vec![(b, a, k, insk)];
        if two_loops || (rng.chance(1, 5) && a >= 1) {
            // a second, disjoint loop before the first
            let b2 = rng.range(0, a - 1);
            let a2 = rng.range(0, b2);
            spec.loops.push((b2, a2, rng.range(1, 2), false));
        }
        let x = rand_input(rng, input, 0);
        let tag = format!("loop-{:?}-k{}{}{}", spec.loopacc, k, if insk { "-inskips" } else { "" }, match r % 3 { 0 => "-dense", 1 => "-spatial", _ => "-flattenboundary" });
        out.push((tag, Case::Net(spec, NetCmd::Forward(x))));
    }
    // loop connections in networks that ALSO have skip connections (before the looped range, and behind it)
    for r in 0..(if thorough { 60 } else { 15 }) {
        let n = 2 + r % 2;
        let depth = 5usize;
        let mut spec = NetSpec::new(Sh::Flat(n).to_shape());
        let mut ws = vec![];
        for _ in 0..depth {
            let d = Simple::Dense { out: n, act: *rng.pick(&[Act::Tanh, Act::Sigmoid, Act::Linear]), bias: rng.coin(), dropout: None };
            ws.push(LW::One(rand_w(rng, &d, Sh::Flat(n), 1)));
            spec.layers.push(LayerSpec::One(d));
        }
        spec.weights = Some(ws);
        spec.loopacc = ALL_ACCS[r % 5];
        spec.skipacc = ALL_ACCS[(r / 5) % 5];
        let (conn, lp): (Vec<(usize, usize)>, (usize, usize)) = match r % 3 {
            0 => (vec![(0, 1)], (3, 2)),          // skip before, loop behind it
            1 => (vec![(3, 4)], (1, 0)),          // loop first, skip behind it
            _ => (vec![(0, 1), (3, 4)], (2, 2)),  // loop between two skips
        };
        spec.connect = conn;
        spec.loops = vec![(lp.0, lp.1, 1 + r % 3, r % 2 == 1)];
        out.push((format!("loop-with-skip-connections-{}", r % 3), Case::Net(spec, NetCmd::Forward(rand_input(rng, Sh::Flat(n), 0)))));
    }
    // loop + feedback block + skip connection in one network
    for r in 0..(if thorough { 40 } else { 10 }) {
        let (spec, input, _) = combo_net(rng, r, 1);
        out.push(("loop-block-skip-combination".into(), Case::Net(spec, NetCmd::Forward(rand_input(rng, input, 0)))));
    }
    // many iterations (beyond 2^6) with every accumulation
    for (ai, acc) in ALL_ACCS.iter().enumerate() {
        let k = [65usize, 70, 130, 66, 129][ai];
        let n = 2usize;
        let mut spec = NetSpec::new(Sh::Flat(n).to_shape());
        let d = Simple::Dense { out: n, act: Act::Tanh, bias: true, dropout: None };
        spec.weights = Some(vec![LW::One(rand_w(rng, &d, Sh::Flat(n), 1))]);
        spec.layers.push(LayerSpec::One(d));
        spec.loopacc = *acc;
        spec.loops = vec![(0, 0, k, ai % 2 == 1)];
        out.push((format!("loop-{:?}-many-iterations", acc), Case::Net(spec, NetCmd::Forward(rand_input(rng, Sh::Flat(n), 0)))));
    }
    // loops whose flat output has more than 2^10 elements (dense range 1100 -> 2 -> 1100, and a 1x36x36
    // convolution flattened by the dense layer behind it), every accumulation
    for (ai, acc) in ALL_ACCS.iter().enumerate() {
        let nbig = 1100usize;
        let mut spec = NetSpec::new(Sh::Flat(nbig).to_shape());
        let d1 = Simple::Dense { out: 2, act: Act::Tanh, bias: true, dropout: None };
        let d2 = Simple::Dense { out: nbig, act: Act::Linear, bias: false, dropout: None };
        let ws = vec![LW::One(rand_w(rng, &d1, Sh::Flat(nbig), 1)), LW::One(rand_w(rng, &d2, Sh::Flat(2), 1))];
        spec.layers.push(LayerSpec::One(d1));
        spec.layers.push(LayerSpec::One(d2));
        spec.weights = Some(ws);
        spec.loopacc = *acc;
        spec.loops = vec![(1, 0, 1 + ai % 2, ai % 2 == 1)];
        out.push((format!("loop-{:?}-huge-flat", acc), Case::Net(spec, NetCmd::Forward(rand_input(rng, Sh::Flat(nbig), 0)))));
        if thorough || ai == 4 || ai == 0 {
            let input = Sh::Sp(1, 36, 36);
            let mut spec = NetSpec::new(input.to_shape());
            let c = Simple::Conv { filters: 1, kernel: (1, 1), stride: (1, 1), padding: (0, 0), dilation: (1, 1), act: Act::Tanh, dropout: None };
            let d = Simple::Dense { out: 2, act: Act::Linear, bias: true, dropout: None };
            let ws = vec![LW::One(rand_w(rng, &c, input, 1)), LW::One(rand_w(rng, &d, Sh::Flat(36 * 36), 1))];
            spec.layers.push(LayerSpec::One(c));
            spec.layers.push(LayerSpec::One(d));
            spec.weights = Some(ws);
            spec.loopacc = *acc;
            spec.loops = vec![(0, 0, 2, false)];
            out.push((format!("loop-{:?}-huge-flattenboundary", acc), Case::Net(spec, NetCmd::Forward(rand_input(rng, input, 0)))));
        }
    }
    // builder validation
    for (outof, into) in [(0usize, 1usize), (5, 0), (1, 1), (2, 0)] {
        let mut spec = NetSpec::new(Sh::Flat(3).to_shape());
        for _ in 0..3 {
            spec.layers.push(LayerSpec::One(Simple::Dense { out: 3, act: Act::Linear, bias: false, dropout: None }));
        }
        spec.loops = vec![(outof, into, 1, false)];
        if outof == 2 {
            spec.loops.push((2, 1, 1, false)); // duplicate source
        }
        out.push(("loop-builder".into(), Case::Net(spec, NetCmd::Shapes)));
    }
    // loop bodies whose repeated application overflows (gain 1e13: 1e13, 1e26, inf, ...) or carries NaN:
    // the accumulated value is still the configured accumulation of ALL k+1 outputs (inf / NaN included)
    for (ai, acc) in ALL_ACCS.iter().enumerate() {
        for (k, insk) in [(3usize, false), (4, true)] {
            let n = 1 + ai % 2;
            let mut spec = NetSpec::new(Sh::Flat(n).to_shape());
            let mut w = vec![0.0f32; n * n];
            for i in 0..n {
                w[i * n + i] = if i == 0 { 1e13 } else { -3e12 };
            }
            let d = Simple::Dense { out: n, act: Act::Linear, bias: false, dropout: None };
            let head = Simple::Dense { out: 1, act: if k == 3 { Act::Sigmoid } else { Act::Linear }, bias: false, dropout: None };
            spec.layers.push(LayerSpec::One(d));
            spec.layers.push(LayerSpec::One(head));
            spec.weights = Some(vec![LW::One(W::Dense(t2(n, n, &w), None)), LW::One(W::Dense(t2(1, n, &vec![1.0; n]), None))]);
            spec.loops = vec![(0, 0, k, insk)];
            spec.loopacc = *acc;
            out.push((format!("loop-{:?}-k{}-overflowing-body", acc, k), Case::Net(spec, NetCmd::Forward(t1(vec![1.0; n])))));
        }
    }
    // loop bodies whose successive outputs differ by LESS THAN 1e-5 in absolute terms without being equal: tiny
    // signals (1e-6 doubled per iteration) and slow drift (gain 1 + 2^-16 at ordinary magnitudes, many
    // iterations, then a large downstream gain); every accumulation, spatial and flat
    for (ai, acc) in ALL_ACCS.iter().enumerate() {
        for variant in 0..3 {
            let (gain, k, x0, head): (f32, usize, f32, f32) = match variant { 0 => (2.0, 3, 1e-6, 1e6), 1 => (1.0 + 1.0 / 65536.0, 40, 0.5, 1e5), _ => (0.5, 4, 3e-6, 1e6) };
            let spatial = (ai + variant) % 2 == 1;
            let input = if spatial { Sh::Sp(1, 1, 2) } else { Sh::Flat(2) };
            let mut spec = NetSpec::new(input.to_shape());
            let (body, bwt): (Simple, W) = if spatial {
                (Simple::Conv { filters: 1, kernel: (1, 1), stride: (1, 1), padding: (0, 0), dilation: (1, 1), act: Act::Linear, dropout: None }, W::Kernels(vec![t3(1, 1, 1, &[gain])]))
            } else {
                (Simple::Dense { out: 2, act: Act::Linear, bias: false, dropout: None }, W::Dense(t2(2, 2, &[gain, 0.0, 0.0, gain]), None))
            };
            let headl = Simple::Dense { out: 2, act: Act::Linear, bias: false, dropout: None };
            spec.layers.push(LayerSpec::One(body));
            spec.layers.push(LayerSpec::One(headl));
            spec.weights = Some(vec![LW::One(bwt), LW::One(W::Dense(t2(2, 2, &[head, 0.0, 0.0, head]), None))]);
            spec.loops = vec![(0, 0, k, false)];
            spec.loopacc = *acc;
            let x = tensor_of_shape(&input.to_shape(), &[x0, -x0 * 0.5]);
            out.push((format!("loop-{:?}-tiny-steps-v{}", acc, variant), Case::Net(spec.clone(), NetCmd::Forward(x.clone()))));
            out.push((format!("loop-{:?}-tiny-steps-v{}-predict", acc, variant), Case::Net(spec, NetCmd::Predict(x))));
        }
    }
    // a loop whose FIRST layer is a spatial layer that receives a FLAT tensor on the first pass: directly behind a
    // dense layer with r*r outputs, or layer 0 of an image network that is handed a flat input; convolution,
    // deconvolution and max-pool; every accumulation
    for (ai, acc) in ALL_ACCS.iter().enumerate() {
        for variant in 0..4 {
            let same_conv = Simple::Conv { filters: 1, kernel: (3, 3), stride: (1, 1), padding: (1, 1), dilation: (1, 1), act: Act::Tanh, dropout: None };
            let first_spatial = match variant {
                1 => Simple::Maxpool { kernel: (1, 1), stride: (1, 1) },
                2 => Simple::Deconv { filters: 1, kernel: (1, 1), stride: (1, 1), padding: (0, 0), act: Act::Sigmoid, dropout: None },
                _ => same_conv.clone(),
            };
            let sp = Sh::Sp(1, 3, 3);
            let k = 1 + (ai + variant) % 3;
            let (spec, x): (NetSpec, Tensor) = if variant < 3 {
                let d0 = Simple::Dense { out: 9, act: Act::Tanh, bias: true, dropout: None };
                let head = Simple::Dense { out: 2, act: Act::Linear, bias: true, dropout: None };
                let mut spec = NetSpec::new(Sh::Flat(4).to_shape());
                let mut ws = vec![LW::One(rand_w(rng, &d0, Sh::Flat(4), 1))];
                ws.push(LW::One(match &first_spatial { Simple::Maxpool { .. } => W::None, l => rand_w(rng, l, sp, 1) }));
                spec.layers.push(LayerSpec::One(d0));
                spec.layers.push(LayerSpec::One(first_spatial));
                let last_in_loop = if variant == 0 && ai % 2 == 1 {
                    ws.push(LW::One(rand_w(rng, &same_conv, sp, 1)));
                    spec.layers.push(LayerSpec::One(same_conv.clone()));
                    2
                } else {
                    1
                };
                ws.push(LW::One(rand_w(rng, &head, Sh::Flat(9), 1)));
                spec.layers.push(LayerSpec::One(head));
                spec.weights = Some(ws);
                spec.loops = vec![(last_in_loop, 1, k, false)];
                spec.loopacc = *acc;
                (spec, rand_input(rng, Sh::Flat(4), 0))
            } else {
                // an image network handed a flat input; the loop starts at layer 0
                let head = Simple::Dense { out: 2, act: Act::Linear, bias: true, dropout: None };
                let mut spec = NetSpec::new(sp.to_shape());
                spec.weights = Some(vec![LW::One(rand_w(rng, &same_conv, sp, 1)), LW::One(rand_w(rng, &same_conv, sp, 1)), LW::One(rand_w(rng, &head, Sh::Flat(9), 1))]);
                spec.layers.push(LayerSpec::One(same_conv.clone()));
                spec.layers.push(LayerSpec::One(same_conv.clone()));
                spec.layers.push(LayerSpec::One(head));
                spec.loops = vec![(ai % 2, 0, k, false)];
                spec.loopacc = *acc;
                (spec, t1(rng.vec(9, 0)))
            };
            out.push((format!("loop-{:?}-starts-at-spatial-layer-fed-flat-v{}", acc, variant), Case::Net(spec.clone(), NetCmd::Forward(x.clone()))));
            out.push((format!("loop-{:?}-starts-at-spatial-layer-fed-flat-v{}-predict", acc, variant), Case::Net(spec, NetCmd::Predict(x))));
        }
    }
    // NESTED loop connections: an inner loop strictly inside an outer one (different start layers, the same start
    // layer, the same end is impossible), three levels, and overlapping but not nested ranges; every accumulation
    for (ai, acc) in ALL_ACCS.iter().enumerate() {
        let layouts: Vec<Vec<(usize, usize, usize, bool)>> = vec![
            vec![(1, 1, 1 + ai % 2, false), (2, 0, 1, false)],
            vec![(2, 1, 1, ai % 2 == 0), (3, 0, 2, false)],
            vec![(1, 0, 1, false), (2, 0, 1, false)],
            vec![(1, 1, 1, false), (2, 1, 1, false), (3, 0, 1, false)],
            vec![(2, 0, 1, false), (3, 1, 1, false)],
            vec![(2, 0, 2, true), (1, 1, 2, false)],
        ];
        for (li, loops) in layouts.into_iter().enumerate() {
            let n = 2 + (ai + li) % 2;
            let mut spec = dense_chain(rng, n, 4, 1);
            spec.loopacc = *acc;
            spec.loops = loops;
            let x = rand_input(rng, Sh::Flat(n), 0);
            out.push((format!("loop-{:?}-nested-layout{}", acc, li), Case::Net(spec.clone(), NetCmd::Forward(x.clone()))));
            out.push((format!("loop-{:?}-nested-layout{}-predict", acc, li), Case::Net(spec, NetCmd::Predict(x))));
        }
    }
    // every entry point on loop networks (not only forward): predict, predict_batch, and direct writes of the
    // public map `loopbacks` between predictions (emptied, other iteration count and input-skip flag, restored,
    // filled in on a network built without loops); one loop, two loops, loops next to skips and blocks
    for (ai, acc) in ALL_ACCS.iter().enumerate() {
        for variant in 0..3 {
            let n = 2 + (ai + variant) % 2;
            let mut spec = dense_chain(rng, n, 4, 1);
            spec.loopacc = *acc;
            spec.loops = match variant {
                0 => vec![(2, 1, 1 + ai % 3, ai % 2 == 0)],
                1 => vec![(3, 2, 2, false), (1, 0, 1, true)],
                _ => vec![(0, 0, 3, ai % 2 == 1)],
            };
            if variant == 2 {
                spec.connect = vec![(1, 3)];
                spec.skipacc = ALL_ACCS[(ai + 2) % 5];
            }
            entry_point_cases(rng, &spec, Sh::Flat(n), &format!("loop-{:?}-variant{}", acc, variant), &mut out);
        }
    }
    for r in 0..(if thorough { 20 } else { 6 }) {
        let (spec, input, _) = combo_net(rng, r, 1);
        entry_point_cases(rng, &spec, input, "loop-block-skip-combination", &mut out);
    }
    out
}

/// small trainable networks ending in a dense layer
pub fn train_net(rng: &mut Rng, o: &GenOpts, spatial: bool, softmax: bool) -> Option<(NetSpec, Sh, Sh)> {
    let input = if spatial { Sh::Sp(1, rng.range(2, 4), rng.range(2, 4)) } else { Sh::Flat(rng.range(1, 4)) };
    let depth = rng.range(1, 3);
    let kinds: Vec<&str> = if spatial { vec!["conv", "maxpool", "deconv", "dense"] } else { vec!["dense"] };
    let (mut spec, shapes) = rand_seq(rng, o, input, depth, &kinds, true)?;
    if softmax {
        if let Some(LayerSpec::One(Simple::Dense { act, out, .. })) = spec.layers.last_mut() {
            *act = Act::Softmax;
            if *out < 2 {
                return None;
            }
        }
    }
    Some((spec, input, *shapes.last().unwrap()))
}

/// a dense chain of `depth` layers of equal width n (tanh / sigmoid / linear), with weights
pub fn dense_chain(rng: &mut Rng, n: usize, depth: usize, wkind: u8) -> NetSpec {
    let mut spec = NetSpec::new(Sh::Flat(n).to_shape());
    let mut ws = vec![];
    for _ in 0..depth {
        let d = Simple::Dense { out: n, act: *rng.pick(&[Act::Tanh, Act::Sigmoid, Act::Linear]), bias: rng.coin(), dropout: None };
        ws.push(LW::One(rand_w(rng, &d, Sh::Flat(n), wkind)));
        spec.layers.push(LayerSpec::One(d));
    }
    spec.weights = Some(ws);
    spec
}

/// the observable entry points other than `forward` on one structured network: predict, predict_batch, and a
/// script that writes the public maps `connect` / `loopbacks` directly between predictions (emptied, changed,
/// restored - as the crate's own examples do to switch connections off and on)
pub fn entry_point_cases(rng: &mut Rng, spec: &NetSpec, input: Sh, tag: &str, out: &mut Vec<Tagged>) {
    // gradients after direct writes of `connect` (additive skips, no loops, output of the input's width): the
    // backward pass routes the skip gradients by the map as it is NOW
    if spec.skipacc == Acc::Add && spec.loops.is_empty() && !spec.connect.is_empty() {
        let mut sp = spec.clone();
        sp.obj = Obj::MSE;
        let conn_map: Vec<(usize, usize)> = spec.connect.iter().map(|&(from, into)| (into, from)).collect();
        let xb = rand_input(rng, input, 2);
        let tb = rand_target(rng, input, Obj::MSE);
        let mut ops = vec![NetCmd::Backward(xb.clone(), tb.clone()), NetCmd::SetConnect(vec![]), NetCmd::Backward(xb.clone(), tb.clone())];
        if conn_map.len() > 1 {
            ops.push(NetCmd::SetConnect(conn_map[1..].to_vec()));
            ops.push(NetCmd::Backward(xb.clone(), tb.clone()));
        }
        ops.push(NetCmd::SetConnect(conn_map.clone()));
        ops.push(NetCmd::Backward(xb.clone(), tb.clone()));
        ops.push(NetCmd::Learn { data: vec![(xb.clone(), tb.clone())], val: None, batch: 1, epochs: 1 });
        out.push((format!("{}-gradients-after-direct-field-writes", tag), Case::Net(sp.clone(), NetCmd::Script(ops))));
        let mut bare = sp;
        bare.connect = vec![];
        out.push((format!("{}-gradients-maps-filled-directly", tag), Case::Net(bare, NetCmd::Script(vec![NetCmd::Backward(xb.clone(), tb.clone()), NetCmd::SetConnect(conn_map), NetCmd::Backward(xb.clone(), tb.clone()), NetCmd::Learn { data: vec![(xb, tb)], val: None, batch: 1, epochs: 1 }]))));
    }
    let x = rand_input(rng, input, 0);
    out.push((format!("{}-predict", tag), Case::Net(spec.clone(), NetCmd::Predict(x.clone()))));
    let xs: Vec<Tensor> = (0..3).map(|_| rand_input(rng, input, 0)).collect();
    out.push((format!("{}-predict-batch", tag), Case::Net(spec.clone(), NetCmd::PredictBatch(xs))));
    let conn_map: Vec<(usize, usize)> = spec.connect.iter().map(|&(from, into)| (into, from)).collect();
    let mut ops = vec![NetCmd::Predict(x.clone())];
    if !spec.connect.is_empty() {
        ops.push(NetCmd::SetConnect(vec![]));
        ops.push(NetCmd::Predict(x.clone()));
        // only the last connection
        ops.push(NetCmd::SetConnect(conn_map[conn_map.len() - 1..].to_vec()));
        ops.push(NetCmd::Predict(x.clone()));
        ops.push(NetCmd::SetConnect(conn_map.clone()));
        ops.push(NetCmd::Predict(x.clone()));
    }
    if !spec.loops.is_empty() {
        ops.push(NetCmd::SetLoops(vec![]));
        ops.push(NetCmd::Predict(x.clone()));
        let mut changed = spec.loops.clone();
        changed[0].2 += 1 + rng.below(2);
        changed[0].3 = !changed[0].3;
        ops.push(NetCmd::SetLoops(changed));
        ops.push(NetCmd::Predict(x.clone()));
        ops.push(NetCmd::SetLoops(spec.loops.clone()));
        ops.push(NetCmd::Predict(x.clone()));
    }
    out.push((format!("{}-direct-field-writes", tag), Case::Net(spec.clone(), NetCmd::Script(ops))));
    // built WITHOUT the connections, which are then inserted into the public maps directly
    if !spec.loops.is_empty() || !spec.connect.is_empty() {
        let mut bare = spec.clone();
        bare.loops = vec![];
        bare.connect = vec![];
        let mut ops = vec![NetCmd::Predict(x.clone())];
        if !spec.connect.is_empty() {
            ops.push(NetCmd::SetConnect(conn_map));
        }
        if !spec.loops.is_empty() {
            ops.push(NetCmd::SetLoops(spec.loops.clone()));
        }
        ops.push(NetCmd::Predict(x));
        out.push((format!("{}-maps-filled-directly", tag), Case::Net(bare, NetCmd::Script(ops))));
    }
}

/// a flat network that combines the three structural features: dense, feedback block, dense, dense, dense
/// with a skip connection (variants: into the block, out of the block, around it) and a loop connection
/// behind the block
pub fn combo_net(rng: &mut Rng, r: usize, wkind: u8) -> (NetSpec, Sh, Sh) {
    let n = 2 + r % 2;
    let input = Sh::Flat(n);
    let mut spec = NetSpec::new(input.to_shape());
    let mut ws = vec![];
    let acts = [Act::Tanh, Act::Sigmoid, Act::Linear];
    let mut dense = |spec: &mut NetSpec, ws: &mut Vec<LW>, rng: &mut Rng| {
        let d = Simple::Dense { out: n, act: *rng.pick(&acts), bias: rng.coin(), dropout: None };
        ws.push(LW::One(rand_w(rng, &d, Sh::Flat(n), wkind)));
        spec.layers.push(LayerSpec::One(d));
    };
    dense(&mut spec, &mut ws, rng);
    let nl = 1 + r % 2;
    let ls: Vec<Simple> = (0..nl).map(|_| Simple::Dense { out: n, act: *rng.pick(&acts), bias: rng.coin(), dropout: None }).collect();
    let bw: Vec<W> = ls.iter().map(|l| rand_w(rng, l, Sh::Flat(n), wkind)).collect();
    ws.push(LW::Block(bw));
    spec.layers.push(LayerSpec::Block { layers: ls, loops: 1 + (r / 2) % 3, inskips: r % 3 == 1, outskips: r % 3 == 2, acc: [Acc::Add, Acc::Mean][r % 2] });
    for _ in 0..3 {
        dense(&mut spec, &mut ws, rng);
    }
    spec.weights = Some(ws);
    spec.connect = match r % 4 {
        0 => vec![(0, 1)],          // into the block
        1 => vec![(1, 2)],          // the block's input into the layer behind it
        2 => vec![(0, 2)],          // around the block
        _ => vec![(0, 1), (2, 4)],  // into the block and behind the loop's start
    };
    spec.skipacc = Acc::Add;
    if r % 4 != 3 {
        spec.loops = vec![(4, 3, 1 + r % 2, r % 5 == 0)];
        spec.loopacc = ALL_ACCS[r % 5];
    }
    (spec, input, Sh::Flat(n))
}

/// scripts: several calls on ONE network object (learn / validate / predict / backward / predict_batch in
/// random order); `focus` selects the family of networks: 0 dense or convolutional with dropout, 1 feedback
/// blocks, 2 the 1->1 linear network of the early-stopping cases, 3 skip connections, 4 soft-max output
pub fn gen_scripts(rng: &mut Rng, thorough: bool, focus: usize, tag: &str) -> Vec<Tagged> {
    let mut out: Vec<Tagged> = vec![];
    let reps = if thorough { 60 } else { 12 };
    // the last third of the scripts RECONFIGURES the network between calls (set_optimizer - its state is sized
    // and zero-filled anew -, set_objective, set_accumulation) instead of drawing the calls at random
    for r0 in 0..reps + reps / 2 {
        let reconfigure = r0 >= reps;
        let r = if reconfigure { r0 - reps } else { r0 };
        let mut o = GenOpts::default();
        o.wkind = 2;
        o.acts = vec![Act::Linear, Act::Tanh, Act::Sigmoid, Act::Leaky];
        let built: Option<(NetSpec, Sh, Sh)> = match focus {
            0 => { o.dropout = true; train_net(rng, &o, r % 3 == 0, false) }
            1 => { o.dropout = r % 2 == 0; block_net(rng, &o, r % 2 == 1, 1 + r % 3, false, false, [Acc::Mean, Acc::Add][r % 2], true) }
            2 => {
                let mut spec = NetSpec::new(Sh::Flat(1).to_shape());
                spec.layers.push(LayerSpec::One(Simple::Dense { out: 1, act: Act::Linear, bias: false, dropout: None }));
                spec.weights = Some(vec![LW::One(W::Dense(t2(1, 1, &[0.5]), None))]);
                Some((spec, Sh::Flat(1), Sh::Flat(1)))
            }
            3 => {
                let (mut sp, i, o_) = two_block_net(rng, r, 2);
                for l in sp.layers.iter_mut() {
                    if let LayerSpec::Block { acc, .. } = l {
                        if *acc == Acc::Overwrite || *acc == Acc::Sub || *acc == Acc::Mul {
                            *acc = Acc::Mean;
                        }
                    }
                }
                sp.connect = vec![(0, sp.layers.len() - 1)];
                sp.skipacc = Acc::Add;
                if i.numel() == o_.numel() || true { Some((sp, i, o_)) } else { None }
            }
            _ => train_net(rng, &o, false, true),
        };
        let (mut spec, input, outsh) = match built { Some(b) => b, None => continue };
        if focus == 3 {
            // the skip source (network input, n values) must match the input of the last layer (n values): two_block_net keeps the width n
        }
        spec.obj = if focus == 4 { Obj::CE } else { Obj::MSE };
        spec.opt = if focus == 2 { Opt::SGD { lr: [0.1f32, -0.05, 2.2, 1.05][r % 4], decay: None } } else { rand_opt(rng, r % 5) };
        let mk_data = |rng: &mut Rng, n: usize| -> Vec<(Tensor, Tensor)> {
            let mut d = rand_data(rng, n, input, outsh, spec.obj);
            if focus == 4 {
                for (_, t) in d.iter_mut() {
                    let k = outsh.numel();
                    let mut v = vec![0.0f32; k];
                    v[rng.below(k)] = 1.0;
                    *t = t1(v);
                }
            }
            d
        };
        if reconfigure {
            let alt = if focus == 4 { Obj::MSE } else { [Obj::MAE, Obj::AE, Obj::RMSE][r % 3] };
            let clamp = if r % 2 == 0 { Some((-0.5f32, 0.75f32)) } else { None };
            let back = spec.obj;
            let mut ops: Vec<NetCmd> = vec![
                NetCmd::Learn { data: mk_data(rng, 3), val: None, batch: 2, epochs: 2 },
                NetCmd::SetOptimizer(rand_opt(rng, (r + 1) % 5)),
                NetCmd::Learn { data: mk_data(rng, 2), val: Some((mk_data(rng, 2), 5)), batch: 1, epochs: 2 },
                NetCmd::SetObjective(alt, clamp),
                NetCmd::Validate { data: mk_data(rng, 2), tol: 0.25, pre_training: false },
                NetCmd::Learn { data: mk_data(rng, 2), val: None, batch: 2, epochs: 1 },
            ];
            if focus == 3 {
                ops.push(NetCmd::SetAccumulation([Acc::Mean, Acc::Sub, Acc::Mul][r % 3], Acc::Mean));
                ops.push(NetCmd::Predict(rand_input(rng, input, 2)));
                ops.push(NetCmd::SetAccumulation(Acc::Add, Acc::Mean));
            }
            ops.push(NetCmd::Predict(rand_input(rng, input, 2)));
            ops.push(NetCmd::SetObjective(back, None));
            // the SAME optimizer kind attached again: fresh state
            ops.push(NetCmd::SetOptimizer(rand_opt(rng, (r + 1) % 5)));
            ops.push(NetCmd::Learn { data: mk_data(rng, 2), val: None, batch: 1, epochs: 2 });
            out.push((format!("script-reconfigure-{}-f{}", tag, focus), Case::Net(spec, NetCmd::Script(ops))));
            continue;
        }
        let nops = rng.range(3, 6);
        let mut ops: Vec<NetCmd> = vec![];
        for k in 0..nops {
            let op = match (r + k * 7 + rng.below(3)) % 6 {
                0 | 1 => {
                    let nd = rng.range(1, 4);
                    let data = mk_data(rng, nd);
                    let nv = rng.range(1, 3);
                    let val = if rng.coin() || focus == 2 { let v = mk_data(rng, nv); Some((v, rng.range(1, 3) as i32)) } else { None };
                    NetCmd::Learn { data, val, batch: rng.range(1, 3), epochs: rng.range(1, 4) as i32 }
                }
                2 => { let nv = rng.range(1, 3); NetCmd::Validate { data: mk_data(rng, nv), tol: 0.25, pre_training: false } }
                3 => NetCmd::Predict(rand_input(rng, input, 2)),
                4 => { let d = mk_data(rng, 1); NetCmd::Backward(d[0].0.clone(), d[0].1.clone()) }
                _ => NetCmd::PredictBatch((0..rng.range(1, 3)).map(|_| rand_input(rng, input, 2)).collect()),
            };
            ops.push(op);
        }
        out.push((format!("script-{}-f{}", tag, focus), Case::Net(spec, NetCmd::Script(ops))));
    }
    out
}

pub fn rand_data(rng: &mut Rng, n: usize, input: Sh, outsh: Sh, obj: Obj) -> Vec<(Tensor, Tensor)> {
    (0..n).map(|_| (rand_input(rng, input, 2), rand_target(rng, outsh, obj))).collect()
}

pub fn gen_c04(rng: &mut Rng, thorough: bool) -> Vec<Tagged> {
    let mut out: Vec<Tagged> = vec![];
    let mut o = GenOpts::default();
    o.wkind = 2;
    o.acts = vec![Act::Linear, Act::Tanh, Act::Sigmoid, Act::Leaky];
    let reps = if thorough { 300 } else { 40 };
    for r in 0..reps {
        if let Some((mut spec, input, outsh)) = train_net(rng, &o, r % 3 == 0, false) {
            spec.opt = rand_opt(rng, r % 5);
            spec.obj = *rng.pick(&[Obj::MSE, Obj::MAE, Obj::AE, Obj::RMSE]);
            let n = rng.range(1, 7);
            let batch = *rng.pick(&[1usize, 2, 3, 4, 8]);
            let epochs = rng.range(1, 3) as i32;
            let data = rand_data(rng, n, input, outsh, spec.obj);
            let tag = format!("learn-N{}-B{}-E{}-{}", n, batch, epochs, spec.opt.kind());
            if r % 4 == 1 {
                // optimizer state must carry over between consecutive calls of learn
                out.push((format!("{}-twice", tag), Case::Net(spec.clone(), NetCmd::LearnTwice { data: data.clone(), batch, epochs1: epochs, epochs2: 2 })));
            }
            out.push((tag, Case::Net(spec, NetCmd::Learn { data, val: None, batch, epochs })));
        }
    }
    // learning on networks that combine a feedback block, a skip connection and a loop connection
    for r in 0..(if thorough { 30 } else { 8 }) {
        let (mut spec, input, outsh) = combo_net(rng, r, 2);
        spec.opt = rand_opt(rng, r % 5);
        spec.obj = Obj::MSE;
        let data = rand_data(rng, 3, input, outsh, Obj::MSE);
        out.push(("learn-block-skip-loop-combination".into(), Case::Net(spec, NetCmd::Learn { data, val: None, batch: 2, epochs: 2 })));
    }
    // consecutive samples whose inputs are NEARLY equal (5e-6 apart) or exactly equal, with different targets, and
    // samples of tiny scale: every sample contributes ITS OWN gradient (first layer with gain 1e5)
    for r in 0..(if thorough { 8 } else { 3 }) {
        let mut spec = NetSpec::new(Sh::Flat(2).to_shape());
        let d1 = Simple::Dense { out: 3, act: Act::Tanh, bias: true, dropout: None };
        let d2 = Simple::Dense { out: 1, act: Act::Linear, bias: true, dropout: None };
        spec.weights = Some(vec![LW::One(W::Dense(t2(3, 2, &[3e5, -2e5, 1e5, 4e5, -3e5, 2e5]), Some(t1(vec![0.1, -0.2, 0.3])))), LW::One(rand_w(rng, &d2, Sh::Flat(3), 2))]);
        spec.layers.push(LayerSpec::One(d1));
        spec.layers.push(LayerSpec::One(d2));
        spec.opt = rand_opt(rng, r % 5);
        spec.obj = Obj::MSE;
        let b = [1e-6f32, -2e-6];
        let data: Vec<(Tensor, Tensor)> = vec![
            (t1(vec![b[0], b[1]]), t1(vec![0.5])), (t1(vec![b[0] + 5e-6, b[1]]), t1(vec![-0.5])), (t1(vec![b[0] + 5e-6, b[1] - 4e-6]), t1(vec![1.0])),
            (t1(vec![b[0], b[1]]), t1(vec![0.25])), (t1(vec![b[0], b[1]]), t1(vec![-1.0])), (t1(vec![3e-7, 1e-7]), t1(vec![0.0])), (t1(vec![0.0, -0.0]), t1(vec![0.75])),
        ];
        out.push(("learn-nearly-equal-consecutive-samples".into(), Case::Net(spec, NetCmd::Learn { data: data.clone(), val: if r % 2 == 0 { Some((data, 5)) } else { None }, batch: 1 + r % 4, epochs: 2 })));
    }
    // training WITH validation data over several epochs on networks whose dropout sits inside a feedback block
    // without any dense layer (convolution / deconvolution / max-pool only), and on plain convolutional networks
    // with dropout: every epoch after a validation pass still trains in training mode (dropout masks applied)
    for r in 0..(if thorough { 24 } else { 8 }) {
        let mut ob = GenOpts::default();
        ob.wkind = 2;
        ob.acts = vec![Act::Linear, Act::Tanh, Act::Sigmoid];
        if let Some((mut spec, input, outsh)) = block_net(rng, &ob, true, 1 + r % 3, r % 4 == 1, r % 4 == 2, [Acc::Mean, Acc::Add][r % 2], true) {
            let mut has = false;
            if let Some(LayerSpec::Block { layers, .. }) = spec.layers.first_mut() {
                for l in layers.iter_mut() {
                    match l {
                        Simple::Conv { dropout, .. } | Simple::Deconv { dropout, .. } => {
                            *dropout = Some([0.5f32, 0.25, 0.75][r % 3]);
                            has = true;
                        }
                        _ => (),
                    }
                }
            }
            if !has {
                continue;
            }
            spec.opt = rand_opt(rng, r % 5);
            spec.obj = Obj::MSE;
            let data = rand_data(rng, 3, input, outsh, Obj::MSE);
            let val = rand_data(rng, 1 + r % 3, input, outsh, Obj::MSE);
            out.push(("learn-with-validation-dropout-in-dense-free-block-E3".into(), Case::Net(spec, NetCmd::Learn { data, val: Some((val, 10)), batch: 2, epochs: 3 })));
        }
    }
    // B > N by any amount: "full batch" requested as a batch size far beyond the data set (N + 1, 2^20, 10^13,
    // isize::MAX / 4 + 1, usize::MAX): the N samples are the single partial group of every epoch
    for (k, &batch) in [usize::MAX, (isize::MAX as usize) / 4 + 1, 10_000_000_000_000usize, 1 << 20, 1 << 33, usize::MAX - 1].iter().enumerate() {
        if let Some((mut spec, input, outsh)) = train_net(rng, &o, k % 3 == 2, false) {
            spec.opt = rand_opt(rng, k % 5);
            spec.obj = Obj::MSE;
            let n = 1 + k % 4;
            let data = rand_data(rng, n, input, outsh, spec.obj);
            let val = if k % 2 == 1 { Some((rand_data(rng, 2, input, outsh, spec.obj), 2)) } else { None };
            out.push((format!("learn-N{}-batch-far-beyond-data-E3", n), Case::Net(spec.clone(), NetCmd::Learn { data: data.clone(), val, batch, epochs: 3 })));
            if k < 2 {
                out.push((format!("learn-N{}-batch-far-beyond-data-twice", n), Case::Net(spec, NetCmd::LearnTwice { data, batch, epochs1: 2, epochs2: 2 })));
            }
        }
    }
    // long runs (7 .. 70 epochs) in which the reported loss stays constant for many epochs although the
    // step is no no-op (dead ReLU + weight decay, momentum carrying on, Adam moments, a loss saturated in
    // binary32): E epochs are E x ceil(N/B) steps and E losses
    for (k, &epochs) in [7i32, 9, 12, 20, 33, 70].iter().enumerate() {
        if !(thorough || k < 3) {
            continue;
        }
        for variant in 0..4 {
            let mut spec = NetSpec::new(Sh::Flat(2).to_shape());
            let (act, w, b, data): (Act, [f32; 2], f32, Vec<(Tensor, Tensor)>) = match variant {
                // dead ReLU: pre-activation negative for every sample, zero gradient, constant loss
                0 | 1 => (Act::ReLU, [-0.5, -1.0], -0.25, vec![(t1(vec![1.0, 2.0]), t1(vec![1.0])), (t1(vec![0.5, 0.25]), t1(vec![2.0])), (t1(vec![2.0, 0.0]), t1(vec![0.5]))]),
                // targets of magnitude 1e15 with a tiny rate: the loss does not move in binary32
                2 => (Act::Linear, [0.5, 0.25], 0.0, vec![(t1(vec![1.0, 2.0]), t1(vec![1e15])), (t1(vec![0.5, 0.25]), t1(vec![-2e15])), (t1(vec![2.0, 0.0]), t1(vec![3e15]))]),
                // exactly fitted data (zero loss from the start)
                _ => (Act::Linear, [1.0, 0.0], 0.0, vec![(t1(vec![1.0, 2.0]), t1(vec![1.0])), (t1(vec![0.5, 0.25]), t1(vec![0.5])), (t1(vec![2.0, 0.0]), t1(vec![2.0]))]),
            };
            spec.layers.push(LayerSpec::One(Simple::Dense { out: 1, act, bias: true, dropout: None }));
            spec.weights = Some(vec![LW::One(W::Dense(t2(1, 2, &w), Some(t1(vec![b]))))]);
            spec.opt = match (variant + k) % 4 {
                0 => Opt::SGD { lr: 0.05, decay: Some(0.1) },
                1 => Opt::SGDM { lr: 0.05, momentum: 0.9, dampening: 0.0, decay: Some(0.05) },
                2 => Opt::Adam { lr: 0.01, b1: 0.9, b2: 0.999, eps: 1e-8, decay: Some(0.1) },
                _ => Opt::RMS { lr: 0.01, alpha: 0.9, eps: 1e-8, decay: Some(0.1), momentum: Some(0.5), centered: false },
            };
            if variant == 2 {
                spec.opt = Opt::SGD { lr: 1e-12, decay: None };
            }
            spec.obj = Obj::MSE;
            out.push((format!("learn-long-constant-loss-v{}-E{}", variant, epochs), Case::Net(spec, NetCmd::Learn { data, val: None, batch: 2, epochs })));
        }
    }
    // arithmetic in the subnormal range on the calling thread and the workers alike
    for variant in 0..2 {
        let mut spec = NetSpec::new(Sh::Flat(1).to_shape());
        spec.layers.push(LayerSpec::One(Simple::Dense { out: 1, act: Act::Linear, bias: false, dropout: None }));
        spec.layers.push(LayerSpec::One(Simple::Dense { out: 1, act: Act::Linear, bias: variant == 1, dropout: None }));
        spec.weights = Some(vec![LW::One(W::Dense(t2(1, 1, &[1e-20]), None)), LW::One(W::Dense(t2(1, 1, &[1e30]), if variant == 1 { Some(t1(vec![1e-41])) } else { None }))]);
        spec.opt = if variant == 0 { Opt::SGD { lr: 1e-25, decay: None } } else { Opt::SGDM { lr: 1e-25, momentum: 0.9, dampening: 0.0, decay: Some(1e-3) } };
        spec.obj = Obj::MSE;
        let data: Vec<(Tensor, Tensor)> = (1..=8).map(|k| (t1(vec![k as f32 * 1e-20]), t1(vec![0.0]))).collect();
        out.push(("learn-subnormal-arithmetic".into(), Case::Net(spec, NetCmd::Learn { data, val: None, batch: 4, epochs: 2 })));
    }
    // feedback blocks whose layers mix bias / no bias (the per-sample bias gradients are optional
    // entries of a nested list), summed over groups of two and three samples
    for r in 0..(if thorough { 24 } else { 6 }) {
        let n = rng.range(2, 3);
        let mut spec = NetSpec::new(Sh::Flat(n).to_shape());
        let biases: &[bool] = [&[true, false][..], &[false, true], &[true, false, true]][r % 3];
        let ls: Vec<Simple> = biases.iter().map(|b| Simple::Dense { out: n, act: *rng.pick(&[Act::Linear, Act::Tanh]), bias: *b, dropout: None }).collect();
        let bw: Vec<W> = ls.iter().map(|l| rand_w(rng, l, Sh::Flat(n), 2)).collect();
        spec.layers.push(LayerSpec::Block { layers: ls, loops: 1 + r % 2, inskips: false, outskips: false, acc: Acc::Mean });
        let mut ws = vec![LW::Block(bw)];
        if r % 2 == 0 {
            let d = Simple::Dense { out: 1, act: Act::Linear, bias: true, dropout: None };
            ws.push(LW::One(rand_w(rng, &d, Sh::Flat(n), 2)));
            spec.layers.push(LayerSpec::One(d));
        }
        spec.weights = Some(ws);
        spec.opt = rand_opt(rng, r % 5);
        spec.obj = Obj::MSE;
        let outsh = if r % 2 == 0 { Sh::Flat(1) } else { Sh::Flat(n) };
        let data = rand_data(rng, 5, Sh::Flat(n), outsh, Obj::MSE);
        out.push(("learn-block-mixed-bias".into(), Case::Net(spec, NetCmd::Learn { data, val: None, batch: 2 + r % 2, epochs: 2 })));
    }
    // groups of more than 64 samples (the library's internal chunk size of the parallel map is 64):
    // one step on the sum over the WHOLE group
    for r in 0..(if thorough { 12 } else { 4 }) {
        let n = rng.range(1, 3);
        let mut spec = NetSpec::new(Sh::Flat(n).to_shape());
        let d = Simple::Dense { out: 1, act: *rng.pick(&[Act::Linear, Act::Tanh]), bias: true, dropout: None };
        spec.weights = Some(vec![LW::One(rand_w(rng, &d, Sh::Flat(n), 2))]);
        spec.layers.push(LayerSpec::One(d));
        spec.opt = rand_opt(rng, r % 5);
        spec.obj = Obj::MSE;
        let (nsamp, batch) = [(70usize, 70usize), (130, 100), (65, 65), (129, 128)][r % 4];
        let data = rand_data(rng, nsamp, Sh::Flat(n), Sh::Flat(1), Obj::MSE);
        out.push((format!("learn-big-groups-N{}-B{}", nsamp, batch), Case::Net(spec, NetCmd::Learn { data, val: None, batch, epochs: 2 })));
    }
    // batches that are fitted exactly (all losses and gradients 0) must still take their step:
    // with decay / momentum / Adam moments a zero-gradient step is not a no-op
    let reps2 = if thorough { 60 } else { 10 };
    for r in 0..reps2 {
        let n = rng.range(2, 3);
        let mut spec = NetSpec::new(Sh::Flat(n).to_shape());
        spec.layers.push(LayerSpec::One(Simple::Dense { out: n, act: Act::Linear, bias: r % 2 == 0, dropout: None }));
        let mut w = vec![0.0f32; n * n];
        for i in 0..n {
            w[i * n + i] = 1.0;
        }
        spec.weights = Some(vec![LW::One(W::Dense(t2(n, n, &w), if r % 2 == 0 { Some(t1(vec![0.0; n])) } else { None }))]);
        spec.opt = match r % 5 {
            0 => Opt::SGD { lr: 0.1, decay: Some(0.1) },
            1 => Opt::SGDM { lr: 0.1, momentum: 0.9, dampening: 0.0, decay: None },
            2 => Opt::AdamW { lr: 0.01, b1: 0.9, b2: 0.999, eps: 1e-8, decay: 0.1 },
            3 => Opt::Adam { lr: 0.01, b1: 0.9, b2: 0.999, eps: 1e-8, decay: Some(0.1) },
            _ => Opt::RMS { lr: 0.01, alpha: 0.9, eps: 1e-8, decay: Some(0.1), momentum: Some(0.9), centered: false },
        };
        spec.obj = Obj::MSE;
        let batch = *rng.pick(&[1usize, 2]);
        let nsamp = rng.range(3, 6);
        let mut data = vec![];
        for k in 0..nsamp {
            let x: Vec<f32> = (0..n).map(|_| rng.sym()).collect();
            // identity network: target == input is fitted exactly by the initial weights
            let exact = k < 2 * batch || k % 3 == 0;
            let t: Vec<f32> = if exact { x.clone() } else { x.iter().map(|v| v + 0.5).collect() };
            data.push((t1(x), t1(t)));
        }
        let epochs = rng.range(2, 3) as i32;
        out.push((format!("learn-exact-fit-batches-B{}-{}", batch, spec.opt.kind()), Case::Net(spec, NetCmd::Learn { data, val: None, batch, epochs })));
    }
    out
}

pub fn gen_c13(rng: &mut Rng, thorough: bool) -> Vec<Tagged> {
    let mut out: Vec<Tagged> = vec![];
    let reps = if thorough { 500 } else { 60 };
    for r in 0..reps {
        // 1 -> 1 linear network; the validation loss trajectory is steered by the learning rate
        let mut spec = NetSpec::new(Sh::Flat(1).to_shape());
        spec.layers.push(LayerSpec::One(Simple::Dense { out: 1, act: Act::Linear, bias: false, dropout: None }));
        spec.weights = Some(vec![LW::One(W::Dense(t2(1, 1, &[0.5]), None))]);
        let lr = *rng.pick(&[0.1f32, -0.05, -0.2, 1.5, 2.0, 2.2, 1e-30, 0.9, 1.0, -1e-30, 1.05, 1.1, 0.95, 1.02]);
        spec.opt = Opt::SGD { lr, decay: None };
        spec.obj = Obj::MSE;
        // training target 0 with a rate just above 1 makes the weight alternate in sign with growing
        // (or shrinking) magnitude: zig-zag validation losses whose peaks grow
        let tt = *rng.pick(&[1.0f32, 0.0, 0.0]);
        let data = vec![(t1(vec![1.0]), t1(vec![tt]))];
        let vt = *rng.pick(&[1.0f32, 0.5, -1.0, 3.0, -1.0]);
        let val = vec![(t1(vec![1.0]), t1(vec![vt]))];
        let th = rng.range(1, 6) as i32;
        let epochs = rng.range(1, 12) as i32;
        let with_val = r % 5 != 0;
        let tag = format!("early-lr{}-T{}-E{}{}", lr, th, epochs, if with_val { "" } else { "-noval" });
        out.push((tag, Case::Net(spec, NetCmd::Learn { data, val: if with_val { Some((val, th)) } else { None }, batch: 1, epochs })));
    }
    // a second call of learn on the same network WITH validation data: the rule counts the epochs of THAT
    // call and looks at THAT call's validation losses
    for r in 0..(if thorough { 40 } else { 12 }) {
        let mut spec = NetSpec::new(Sh::Flat(1).to_shape());
        spec.layers.push(LayerSpec::One(Simple::Dense { out: 1, act: Act::Linear, bias: false, dropout: None }));
        spec.weights = Some(vec![LW::One(W::Dense(t2(1, 1, &[0.5]), None))]);
        let lr = [0.1f32, -0.05, 2.2, 1e-30, -0.2, 1.05][r % 6];
        spec.opt = Opt::SGD { lr, decay: None };
        spec.obj = Obj::MSE;
        let data = vec![(t1(vec![1.0]), t1(vec![[1.0f32, 0.0][r % 2]]))];
        let val = vec![(t1(vec![1.0]), t1(vec![[1.0f32, -1.0, 3.0][r % 3]]))];
        let th = 1 + (r % 4) as i32;
        out.push((format!("early-second-call-T{}", th), Case::Net(spec, NetCmd::LearnTwiceVal { data, val, th, batch: 1, epochs1: 1 + (r % 5) as i32, epochs2: 2 + (r % 7) as i32 })));
    }
    // validation losses of EXTREME MAGNITUDE (2^-24, 1e-10, 1e-30, subnormal, 1e20, 3e37) that rise, fall or stay
    // by tiny / huge absolute amounts: the rule compares the losses themselves, whatever their scale
    // (1 -> 1 linear network under MAE, weight 1 + k/8 after k epochs, validation input s: loss s * (1 + k/8))
    for (k, &sc) in [5.9604645e-8f32, 1e-10, 1e-30, 1e-42, 1e20, 3e37, 1.0].iter().enumerate() {
        for (j, &lr) in [-0.125f32, 0.125, 1e-30].iter().enumerate() {
            if !(thorough || (k + j) % 2 == 0 || k == 0) {
                continue;
            }
            let mut spec = NetSpec::new(Sh::Flat(1).to_shape());
            spec.layers.push(LayerSpec::One(Simple::Dense { out: 1, act: Act::Linear, bias: false, dropout: None }));
            spec.weights = Some(vec![LW::One(W::Dense(t2(1, 1, &[1.0]), None))]);
            spec.opt = Opt::SGD { lr, decay: None };
            spec.obj = Obj::MAE;
            let data = vec![(t1(vec![1.0]), t1(vec![0.0]))];
            let val = vec![(t1(vec![sc]), t1(vec![0.0]))];
            let th = 2 + ((k + j) % 2) as i32;
            out.push((format!("early-loss-scale-{:e}", sc), Case::Net(spec, NetCmd::Learn { data, val: Some((val, th)), batch: 1, epochs: 12 })));
        }
    }
    // DIVERGING training: the rate drives the weight to infinity and then to NaN within a few epochs, or a training
    // sample carries NaN. A NaN training loss ends `learn` with a panic - it is no way of stopping early with
    // shortened histories; infinite losses are no reason to stop at all
    for (k, &lr) in [1e30f32, 3e19, 1e20, -1e25, 4.0].iter().enumerate() {
        for variant in 0..3 {
            if !(thorough || (k + variant) % 2 == 0) {
                continue;
            }
            let mut spec = NetSpec::new(Sh::Flat(1).to_shape());
            spec.layers.push(LayerSpec::One(Simple::Dense { out: 1, act: Act::Linear, bias: false, dropout: None }));
            spec.weights = Some(vec![LW::One(W::Dense(t2(1, 1, &[0.5]), None))]);
            spec.opt = Opt::SGD { lr, decay: None };
            spec.obj = Obj::MSE;
            let data = vec![(t1(vec![1.0]), t1(vec![1.0])), (t1(vec![2.0]), t1(vec![-1.0]))];
            let val = vec![(t1(vec![1.0]), t1(vec![0.5]))];
            let v = match variant { 0 => None, 1 => Some((val, 3)), _ => Some((val, 100)) };
            out.push((format!("early-diverging-training-lr{:e}", lr), Case::Net(spec, NetCmd::Learn { data, val: v, batch: 1 + k % 2, epochs: 60 })));
        }
    }
    for variant in 0..3 {
        let mut spec = NetSpec::new(Sh::Flat(1).to_shape());
        spec.layers.push(LayerSpec::One(Simple::Dense { out: 1, act: Act::Linear, bias: false, dropout: None }));
        spec.weights = Some(vec![LW::One(W::Dense(t2(1, 1, &[0.5]), None))]);
        spec.opt = Opt::SGD { lr: 0.01, decay: None };
        spec.obj = Obj::MSE;
        let data = vec![(t1(vec![1.0]), t1(vec![1.0])), (t1(vec![if variant == 2 { f32::INFINITY } else { f32::NAN }]), t1(vec![-1.0])), (t1(vec![0.5]), t1(vec![0.0]))];
        let val = vec![(t1(vec![1.0]), t1(vec![0.5]))];
        out.push(("early-nan-training-sample".into(), Case::Net(spec, NetCmd::Learn { data, val: if variant == 0 { None } else { Some((val, 2)) }, batch: 1 + variant, epochs: 5 })));
    }
    // extreme tolerances: i32::MAX ("never stop"), its neighbours, zero and negative windows, against rising
    // and falling validation losses
    for (k, &th) in [i32::MAX, i32::MAX - 1, 1 << 30, 65536, 0, -1, i32::MIN, i32::MIN + 1].iter().enumerate() {
        for &lr in &[-0.05f32, 0.1] {
            let mut spec = NetSpec::new(Sh::Flat(1).to_shape());
            spec.layers.push(LayerSpec::One(Simple::Dense { out: 1, act: Act::Linear, bias: false, dropout: None }));
            spec.weights = Some(vec![LW::One(W::Dense(t2(1, 1, &[0.5]), None))]);
            spec.opt = Opt::SGD { lr, decay: None };
            spec.obj = Obj::MSE;
            let data = vec![(t1(vec![1.0]), t1(vec![1.0]))];
            let val = vec![(t1(vec![1.0]), t1(vec![1.0]))];
            out.push((format!("early-extreme-tolerance-{}", k), Case::Net(spec, NetCmd::Learn { data, val: Some((val, th)), batch: 1, epochs: 1 + (k as i32 % 3) * 2 })));
        }
    }
    // long epoch budgets and long windows (beyond 2^6 and 2^8 epochs): slowly rising, slowly falling and
    // zig-zag validation losses
    for (k, &(epochs, th, lr)) in [(300i32, 65i32, -1e-3f32), (300, 65, 1e-3), (130, 64, -1e-3), (260, 3, 1e-30), (300, 129, -1e-4), (70, 66, 1.0001), (300, 2, 1.9999)].iter().enumerate() {
        if !(thorough || k < 4) {
            continue;
        }
        let mut spec = NetSpec::new(Sh::Flat(1).to_shape());
        spec.layers.push(LayerSpec::One(Simple::Dense { out: 1, act: Act::Linear, bias: false, dropout: None }));
        spec.weights = Some(vec![LW::One(W::Dense(t2(1, 1, &[0.5]), None))]);
        spec.opt = Opt::SGD { lr, decay: None };
        spec.obj = Obj::MSE;
        let data = vec![(t1(vec![1.0]), t1(vec![0.0]))];
        let val = vec![(t1(vec![1.0]), t1(vec![-1.0]))];
        out.push((format!("early-long-E{}-T{}", epochs, th), Case::Net(spec.clone(), NetCmd::Learn { data: data.clone(), val: Some((val, th)), batch: 1, epochs })));
        if k == 3 {
            out.push((format!("noval-long-E{}", epochs), Case::Net(spec, NetCmd::Learn { data, val: None, batch: 1, epochs })));
        }
    }
    // the stopping rule looks at the validation LOSS only: trajectories whose validation ACCURACY sets
    // a record exactly at the epoch at which the stop is due (MAE, rate 0.25, weight 0.25 * epoch hits a
    // validation target exactly) and trajectories whose accuracy falls
    for th in 1..=(if thorough { 6 } else { 4 }) {
        for variant in 0..3 {
            let mut spec = NetSpec::new(Sh::Flat(1).to_shape());
            spec.layers.push(LayerSpec::One(Simple::Dense { out: 1, act: Act::Linear, bias: false, dropout: None }));
            spec.weights = Some(vec![LW::One(W::Dense(t2(1, 1, &[0.0]), None))]);
            spec.opt = Opt::SGD { lr: 0.25, decay: None };
            spec.obj = Obj::MAE;
            let data = vec![(t1(vec![1.0]), t1(vec![100.0]))];
            let hit = match variant { 0 => th + 1, 1 => th, _ => 1 } as f32;
            let val = vec![(t1(vec![1.0]), t1(vec![0.25 * hit])), (t1(vec![2.0]), t1(vec![-1.0]))];
            out.push((format!("early-accuracy-record-at-epoch{}-T{}", hit, th), Case::Net(spec, NetCmd::Learn { data, val: Some((val, th as i32)), batch: 1, epochs: th as i32 + 4 })));
        }
    }
    out
}

pub fn gen_c09(rng: &mut Rng, thorough: bool) -> Vec<Tagged> {
    let mut out: Vec<Tagged> = vec![];
    let mut o = GenOpts::default();
    o.wkind = 2;
    o.dropout = true;
    o.acts = vec![Act::Linear, Act::Tanh, Act::Sigmoid, Act::Leaky];
    let reps = if thorough { 300 } else { 40 };
    for r in 0..reps {
        if let Some((mut spec, input, outsh)) = train_net(rng, &o, r % 2 == 0, false) {
            // occasionally put a feedback block with dropout in front of the last dense layer
            spec.opt = Opt::SGD { lr: *rng.pick(&[0.05f32, 1e-30]), decay: None };
            spec.obj = Obj::MSE;
            let ndense = spec.layers.iter().filter(|l| l.kind() == "dense").count();
            let nd = rng.range(1, 4);
            let data = rand_data(rng, nd, input, outsh, Obj::MSE);
            let nv = rng.range(1, 3);
            let val = rand_data(rng, nv, input, outsh, Obj::MSE);
            let tag = format!("dropout-{}dense", ndense);
            out.push((format!("{}-learn", tag), Case::Net(spec.clone(), NetCmd::Learn { data: data.clone(), val: Some((val.clone(), 100)), batch: 2, epochs: rng.range(1, 3) as i32 })));
            out.push((format!("{}-validate-in-training", tag), Case::Net(spec.clone(), NetCmd::Validate { data: val.clone(), tol: 0.1, pre_training: true })));
            out.push((format!("{}-validate-outside", tag), Case::Net(spec.clone(), NetCmd::Validate { data: val, tol: 0.1, pre_training: false })));
            out.push((format!("{}-predict", tag), Case::Net(spec.clone(), NetCmd::Predict(data[0].0.clone()))));
            // early stopping fires (tolerance 1 stops at epoch 2; rising loss with a negative rate)
            let mut spec2 = spec.clone();
            spec2.opt = Opt::SGD { lr: *rng.pick(&[0.05f32, -0.05]), decay: None };
            let val2 = rand_data(rng, 2, input, outsh, Obj::MSE);
            out.push((format!("{}-learn-earlystop", tag), Case::Net(spec2, NetCmd::Learn { data: data.clone(), val: Some((val2, rng.range(1, 2) as i32)), batch: 1, epochs: 6 })));
        }
    }
    // validation sets beyond the internal chunk size (65, 70, 130, 200 samples) evaluated INSIDE learn: every
    // validation sample is predicted with dropout off
    for (k, &nv) in [65usize, 70, 130, 200].iter().enumerate() {
        if !(thorough || k < 2) {
            continue;
        }
        let mut spec = NetSpec::new(Sh::Flat(2).to_shape());
        let d1 = Simple::Dense { out: 3, act: Act::Tanh, bias: true, dropout: Some(0.5) };
        let d2 = Simple::Dense { out: 1, act: Act::Linear, bias: true, dropout: None };
        spec.weights = Some(vec![LW::One(rand_w(rng, &d1, Sh::Flat(2), 2)), LW::One(rand_w(rng, &d2, Sh::Flat(3), 2))]);
        spec.layers.push(LayerSpec::One(d1));
        spec.layers.push(LayerSpec::One(d2));
        spec.opt = Opt::SGD { lr: 0.05, decay: None };
        spec.obj = Obj::MSE;
        let data = rand_data(rng, 3, Sh::Flat(2), Sh::Flat(1), Obj::MSE);
        let val = rand_data(rng, nv, Sh::Flat(2), Sh::Flat(1), Obj::MSE);
        out.push((format!("dropout-learn-validation-{}", nv), Case::Net(spec.clone(), NetCmd::Learn { data, val: Some((val.clone(), 100)), batch: 2, epochs: 2 })));
        out.push((format!("dropout-validate-in-training-{}", nv), Case::Net(spec, NetCmd::Validate { data: val, tol: 0.1, pre_training: true })));
    }
    // degenerate dropout rates (1.0 and above: everything is dropped while training; 0.0: nothing is) on
    // every layer kind, at the top level and inside a feedback block: outside training they change nothing
    for (ri, &rate) in [1.0f32, 1.5, 0.0, 0.999_999_94].iter().enumerate() {
        for kind in 0..4 {
            let input = Sh::Sp(1, 2, 3);
            let first = match kind {
                0 => Simple::Conv { filters: 1, kernel: (1, 2), stride: (1, 1), padding: (0, 0), dilation: (1, 1), act: Act::Tanh, dropout: Some(rate) },
                1 => Simple::Deconv { filters: 1, kernel: (1, 2), stride: (1, 1), padding: (0, 0), act: Act::Tanh, dropout: Some(rate) },
                2 => Simple::Dense { out: 4, act: Act::Tanh, bias: true, dropout: Some(rate) },
                _ => Simple::Deconv { filters: 1, kernel: (1, 1), stride: (1, 1), padding: (0, 0), act: Act::Linear, dropout: Some(rate) },
            };
            let mid = match out_shape(&first, input) { Some(m) => m, None => continue };
            let mut spec = NetSpec::new(input.to_shape());
            let mut ws = vec![];
            if kind == 3 {
                // the deconvolution with dropout sits inside a feedback block
                ws.push(LW::Block(vec![rand_w(rng, &first, input, 2)]));
                spec.layers.push(LayerSpec::Block { layers: vec![first], loops: 2, inskips: false, outskips: false, acc: Acc::Mean });
            } else {
                ws.push(LW::One(rand_w(rng, &first, if kind == 2 { Sh::Flat(input.numel()) } else { input }, 2)));
                spec.layers.push(LayerSpec::One(first));
            }
            let d = Simple::Dense { out: 2, act: Act::Linear, bias: true, dropout: None };
            ws.push(LW::One(rand_w(rng, &d, Sh::Flat(mid.numel()), 2)));
            spec.layers.push(LayerSpec::One(d));
            spec.weights = Some(ws);
            spec.opt = Opt::SGD { lr: 0.05, decay: None };
            spec.obj = Obj::MSE;
            let data = rand_data(rng, 2, input, Sh::Flat(2), Obj::MSE);
            let val = rand_data(rng, 2, input, Sh::Flat(2), Obj::MSE);
            let tag = format!("dropout-rate{}-{}", ri, ["conv", "deconv", "dense", "block-deconv"][kind]);
            out.push((format!("{}-predict", tag), Case::Net(spec.clone(), NetCmd::Predict(data[0].0.clone()))));
            out.push((format!("{}-learn", tag), Case::Net(spec.clone(), NetCmd::Learn { data: data.clone(), val: Some((val.clone(), 100)), batch: 1, epochs: 2 })));
            out.push((format!("{}-validate-outside", tag), Case::Net(spec.clone(), NetCmd::Validate { data: val.clone(), tol: 0.1, pre_training: false })));
            out.push((format!("{}-validate-in-training", tag), Case::Net(spec, NetCmd::Validate { data: val, tol: 0.1, pre_training: true })));
        }
    }
    // networks WITHOUT a dense layer at the top level (fully convolutional): the flags must be
    // cleared after learn although no dense layer carries the "training" marker
    for _ in 0..(if thorough { 60 } else { 10 }) {
        let input = Sh::Sp(1, rng.range(2, 4), rng.range(2, 4));
        let depth = rng.range(1, 3);
        if let Some((mut spec, shapes)) = rand_seq(rng, &o, input, depth, &["conv", "deconv", "conv"], false) {
            // make sure at least one layer has dropout
            if let Some(LayerSpec::One(Simple::Conv { dropout, .. })) | Some(LayerSpec::One(Simple::Deconv { dropout, .. })) = spec.layers.first_mut() {
                *dropout = Some(0.5);
            }
            spec.opt = Opt::SGD { lr: 0.05, decay: None };
            spec.obj = Obj::MSE;
            let outsh = *shapes.last().unwrap();
            let data = rand_data(rng, 2, input, outsh, Obj::MSE);
            out.push(("dropout-no-dense-learn".into(), Case::Net(spec.clone(), NetCmd::Learn { data: data.clone(), val: None, batch: 1, epochs: 2 })));
            out.push(("dropout-no-dense-learn-twice".into(), Case::Net(spec.clone(), NetCmd::LearnTwice { data: data.clone(), batch: 2, epochs1: 1, epochs2: 1 })));
            out.push(("dropout-no-dense-predict".into(), Case::Net(spec, NetCmd::Predict(data[0].0.clone()))));
        }
    }
    out
}

/// networks whose dropout layers sit inside a feedback block
/// layer k of netgen::special_relation_layers (convolutions and deconvolutions only) WITH dropout 0.5, at top
/// level or - when it preserves the shape, every other time - as a two-loop feedback block; a dense layer follows
pub fn dropout_special_net(rng: &mut Rng, k: usize) -> Option<(NetSpec, Sh, Sh)> {
    let all = special_relation_layers();
    let (inp, l) = all[k % all.len()].clone();
    let l = match l {
        Simple::Conv { filters, kernel, stride, padding, dilation, act, .. } => Simple::Conv { filters, kernel, stride, padding, dilation, act, dropout: Some(0.5) },
        Simple::Deconv { filters, kernel, stride, padding, act, .. } => Simple::Deconv { filters, kernel, stride, padding, act, dropout: Some(0.5) },
        _ => return None,
    };
    let mid = out_shape(&l, inp)?;
    let d = Simple::Dense { out: 2, act: Act::Linear, bias: true, dropout: None };
    let mut spec = NetSpec::new(inp.to_shape());
    if mid == inp && k % 2 == 0 {
        let bw = block_weights(rng, &vec![l.clone()], inp, 2)?;
        spec.layers.push(LayerSpec::Block { layers: vec![l], loops: 2, inskips: false, outskips: false, acc: Acc::Mean });
        spec.weights = Some(vec![bw, LW::One(rand_w(rng, &d, Sh::Flat(mid.numel()), 2))]);
    } else {
        spec.weights = Some(vec![LW::One(rand_w(rng, &l, inp, 2)), LW::One(rand_w(rng, &d, Sh::Flat(mid.numel()), 2))]);
        spec.layers.push(LayerSpec::One(l));
    }
    spec.layers.push(LayerSpec::One(d));
    spec.opt = Opt::SGD { lr: 0.05, decay: None };
    spec.obj = Obj::MSE;
    Some((spec, inp, Sh::Flat(2)))
}

/// a spatial block in which a max-pool layer (no training flag) stands first, last or in the middle and the
/// dropout layer elsewhere, followed by a dense layer with two outputs
pub fn pool_dropout_block_net(rng: &mut Rng, r: usize) -> Option<(NetSpec, Sh, Sh)> {
    let c = 1 + r % 2;
    let input = Sh::Sp(c, 3, 3 + r % 2);
    let rate = Some([0.5f32, 0.3, 0.8][r % 3]);
    let conv_same = |dropout| Simple::Conv { filters: c, kernel: (3, 3), stride: (1, 1), padding: (1, 1), dilation: (1, 1), act: Act::Tanh, dropout };
    let ident_pool = Simple::Maxpool { kernel: (1, 1), stride: (1, 1) };
    let ls: Vec<Simple> = match r % 4 {
        0 => vec![ident_pool.clone(), conv_same(rate)],
        1 => vec![Simple::Maxpool { kernel: (2, 2), stride: (1, 1) }, Simple::Deconv { filters: c, kernel: (2, 2), stride: (1, 1), padding: (0, 0), act: Act::Sigmoid, dropout: rate }],
        2 => vec![conv_same(rate), ident_pool.clone()],
        _ => vec![ident_pool.clone(), conv_same(None), ident_pool.clone(), conv_same(rate)],
    };
    let bw = block_weights(rng, &ls, input, 2)?;
    let mut spec = NetSpec::new(input.to_shape());
    spec.layers.push(LayerSpec::Block { layers: ls, loops: 1 + (r / 4) % 3, inskips: false, outskips: false, acc: [Acc::Mean, Acc::Add][r % 2] });
    let d = Simple::Dense { out: 2, act: Act::Linear, bias: true, dropout: None };
    let ws = vec![bw, LW::One(rand_w(rng, &d, Sh::Flat(input.numel()), 2))];
    spec.layers.push(LayerSpec::One(d));
    spec.weights = Some(ws);
    spec.opt = Opt::SGD { lr: 0.05, decay: None };
    spec.obj = Obj::MSE;
    Some((spec, input, Sh::Flat(2)))
}

pub fn gen_c09_blocks(rng: &mut Rng, thorough: bool) -> Vec<Tagged> {
    let mut out: Vec<Tagged> = vec![];
    let mut o = GenOpts::default();
    o.wkind = 2;
    o.dropout = true;
    o.acts = vec![Act::Linear, Act::Tanh, Act::Sigmoid, Act::Leaky];
    let reps = if thorough { 120 } else { 16 };
    for r in 0..reps {
        let loops = rng.range(1, 3);
        let bacc = *rng.pick(&[Acc::Mean, Acc::Add]);
        if let Some((mut spec, input, outsh)) = block_net(rng, &o, r % 2 == 0, loops, false, false, bacc, true) {
            spec.opt = Opt::SGD { lr: *rng.pick(&[0.05f32, 1e-30]), decay: None };
            spec.obj = Obj::MSE;
            let nd = rng.range(1, 3);
            let data = rand_data(rng, nd, input, outsh, Obj::MSE);
            let val = rand_data(rng, 2, input, outsh, Obj::MSE);
            let tag = format!("dropout-block-L{}", loops);
            out.push((format!("{}-learn", tag), Case::Net(spec.clone(), NetCmd::Learn { data: data.clone(), val: Some((val.clone(), 100)), batch: 1, epochs: 2 })));
            out.push((format!("{}-learn-earlystop", tag), Case::Net(spec.clone(), NetCmd::Learn { data: data.clone(), val: Some((val.clone(), 1)), batch: 2, epochs: 4 })));
            out.push((format!("{}-validate-in-training", tag), Case::Net(spec.clone(), NetCmd::Validate { data: val.clone(), tol: 0.1, pre_training: true })));
            out.push((format!("{}-predict", tag), Case::Net(spec, NetCmd::Predict(data[0].0.clone()))));
        }
    }
    // DROPOUT on layers whose parameters stand in a special relation (netgen::special_relation_layers: pointwise,
    // patch-wise, overhanging ... - the configurations with tempting fast paths), top level and inside a block:
    // evaluation never applies the mask, training does
    for k in 0..special_relation_layers().len() {
        let (spec, inp, _) = match dropout_special_net(rng, k) { Some(x) => x, None => continue };
        let data = rand_data(rng, 2, inp, Sh::Flat(2), Obj::MSE);
        out.push(("dropout-special-relation-predict".into(), Case::Net(spec.clone(), NetCmd::Predict(data[0].0.clone()))));
        out.push(("dropout-special-relation-validate-in-training".into(), Case::Net(spec.clone(), NetCmd::Validate { data: data.clone(), tol: 0.1, pre_training: true })));
        if thorough || k % 3 == 0 {
            out.push(("dropout-special-relation-learn".into(), Case::Net(spec, NetCmd::Learn { data: data.clone(), val: Some((data, 100)), batch: 1, epochs: 2 })));
        }
    }
    // dropout configured on a SOFT-MAX dense layer itself (output layer and hidden layer), rates 0.3 .. 0.9
    for r in 0..(if thorough { 12 } else { 6 }) {
        let mut spec = NetSpec::new(Sh::Flat(3).to_shape());
        let rate = Some([0.5f32, 0.3, 0.9][r % 3]);
        let hidden_softmax = r % 2 == 1;
        let d1 = Simple::Dense { out: 4, act: if hidden_softmax { Act::Softmax } else { Act::Tanh }, bias: true, dropout: if hidden_softmax { rate } else { None } };
        let d2 = Simple::Dense { out: 3, act: Act::Softmax, bias: true, dropout: if hidden_softmax { None } else { rate } };
        spec.weights = Some(vec![LW::One(rand_w(rng, &d1, Sh::Flat(3), 2)), LW::One(rand_w(rng, &d2, Sh::Flat(4), 2))]);
        spec.layers.push(LayerSpec::One(d1));
        spec.layers.push(LayerSpec::One(d2));
        spec.opt = Opt::SGD { lr: 0.05, decay: None };
        spec.obj = Obj::CE;
        let data: Vec<(Tensor, Tensor)> = (0..3).map(|i| { let mut t = vec![0.0f32; 3]; t[(i + r) % 3] = 1.0; (rand_input(rng, Sh::Flat(3), 2), t1(t)) }).collect();
        out.push(("dropout-on-softmax-layer-predict".into(), Case::Net(spec.clone(), NetCmd::Predict(data[0].0.clone()))));
        out.push(("dropout-on-softmax-layer-validate".into(), Case::Net(spec.clone(), NetCmd::Validate { data: data.clone(), tol: 0.1, pre_training: r % 4 < 2 })));
        out.push(("dropout-on-softmax-layer-learn".into(), Case::Net(spec, NetCmd::Learn { data: data.clone(), val: Some((data, 100)), batch: 2, epochs: 2 })));
    }
    // blocks in which a layer WITHOUT a training flag (max-pool) stands first, last or in the middle, with the
    // dropout layer elsewhere in the block: the mode of the block is the mode of ALL its flagged layers
    for r in 0..(if thorough { 24 } else { 8 }) {
        let (spec, input, _) = match pool_dropout_block_net(rng, r) { Some(x) => x, None => continue };
        let data = rand_data(rng, 2, input, Sh::Flat(2), Obj::MSE);
        let val = rand_data(rng, 2, input, Sh::Flat(2), Obj::MSE);
        let tag = format!("dropout-block-with-pool-layout{}", r % 4);
        out.push((format!("{}-learn", tag), Case::Net(spec.clone(), NetCmd::Learn { data: data.clone(), val: Some((val.clone(), 100)), batch: 1, epochs: 2 })));
        out.push((format!("{}-learn-then-predict-validate", tag), Case::Net(spec.clone(), NetCmd::Script(vec![
            NetCmd::Learn { data: data.clone(), val: None, batch: 2, epochs: 1 },
            NetCmd::Predict(data[0].0.clone()),
            NetCmd::Validate { data: val.clone(), tol: 0.1, pre_training: false },
            NetCmd::Predict(data[1].0.clone()),
        ]))));
        out.push((format!("{}-validate-in-training", tag), Case::Net(spec, NetCmd::Validate { data: val, tol: 0.1, pre_training: true })));
    }
    out
}

/// C03 through the network: state slots of multi-filter layers and of several layers must not
/// interfere (stateful optimizers, several steps)
pub fn gen_c03_net(rng: &mut Rng, thorough: bool) -> Vec<Tagged> {
    let mut out: Vec<Tagged> = vec![];
    let mut o = GenOpts::default();
    o.wkind = 2;
    o.max_ch = 3;
    o.acts = vec![Act::Linear, Act::Tanh, Act::Sigmoid];
    let reps = if thorough { 150 } else { 24 };
    for r in 0..reps {
        let input = Sh::Sp(rng.range(1, 2), rng.range(2, 4), rng.range(2, 4));
        let kinds: Vec<&str> = match r % 3 { 0 => vec!["conv"], 1 => vec!["deconv"], _ => vec!["conv", "deconv", "dense"] };
        let depth = rng.range(2, 3);
        if let Some((mut spec, shapes)) = rand_seq(rng, &o, input, depth, &kinds, true) {
            spec.opt = rand_opt(rng, 1 + r % 4);
            spec.obj = Obj::MSE;
            let outsh = *shapes.last().unwrap();
            let nd = rng.range(2, 4);
            let data = rand_data(rng, nd, input, outsh, Obj::MSE);
            out.push((format!("net-slots-{}-{}", spec.opt.kind(), kinds.join("+")), Case::Net(spec, NetCmd::Learn { data, val: None, batch: 1, epochs: 2 })));
        }
    }
    // steps whose gradient is EXACTLY zero for a whole slot (an all-zero input sample gives an all-zero kernel /
    // weight gradient) between ordinary steps: under every rule but plain SGD the documented step still moves
    // the parameters (momentum, moments, decay) and still updates the running statistics
    for kind in 0..3 {
        for oi in 0..6 {
            let (input, first): (Sh, Simple) = match kind {
                0 => (Sh::Sp(1, 3, 3), Simple::Conv { filters: 2, kernel: (2, 2), stride: (1, 1), padding: (0, 0), dilation: (1, 1), act: Act::Tanh, dropout: None }),
                1 => (Sh::Sp(2, 2, 2), Simple::Deconv { filters: 2, kernel: (2, 2), stride: (1, 1), padding: (0, 0), act: Act::Linear, dropout: None }),
                _ => (Sh::Flat(3), Simple::Dense { out: 2, act: Act::Tanh, bias: false, dropout: None }),
            };
            let mid = out_shape(&first, input).unwrap();
            let head = Simple::Dense { out: 2, act: Act::Linear, bias: true, dropout: None };
            let mut spec = NetSpec::new(input.to_shape());
            spec.weights = Some(vec![LW::One(rand_w(rng, &first, input, 2)), LW::One(rand_w(rng, &head, Sh::Flat(mid.numel()), 2))]);
            spec.layers.push(LayerSpec::One(first));
            spec.layers.push(LayerSpec::One(head));
            spec.opt = match oi {
                0 => Opt::SGD { lr: 0.1, decay: Some(0.1) },
                1 => Opt::SGDM { lr: 0.05, momentum: 0.9, dampening: 0.0, decay: None },
                2 => Opt::Adam { lr: 0.01, b1: 0.9, b2: 0.999, eps: 1e-8, decay: None },
                3 => Opt::AdamW { lr: 0.01, b1: 0.9, b2: 0.999, eps: 1e-8, decay: 0.05 },
                4 => Opt::RMS { lr: 0.01, alpha: 0.9, eps: 1e-8, decay: None, momentum: Some(0.5), centered: false },
                _ => Opt::RMS { lr: 0.01, alpha: 0.9, eps: 1e-8, decay: Some(0.1), momentum: None, centered: true },
            };
            spec.obj = Obj::MSE;
            let mut data = rand_data(rng, 4, input, Sh::Flat(2), Obj::MSE);
            let zero = tensor_of_shape(&input.to_shape(), &vec![0.0; input.numel()]);
            data[1].0 = zero.clone();
            data[2].0 = zero;
            out.push((format!("net-slots-zero-gradient-steps-{}-{}", ["conv", "deconv", "dense"][kind], spec.opt.kind()), Case::Net(spec, NetCmd::Learn { data, val: None, batch: 1, epochs: 2 })));
        }
    }
    // the unrolled copies of a feedback block each own their state slot (stateful optimizers, 2..4 loops,
    // dense and convolutional blocks, three steps so that momentum has something to carry)
    for r in 0..(if thorough { 48 } else { 12 }) {
        let mut ob = GenOpts::default();
        ob.wkind = 2;
        ob.acts = vec![Act::Linear, Act::Tanh, Act::Sigmoid];
        let loops = 2 + r % 3;
        if let Some((mut spec, input, outsh)) = block_net(rng, &ob, r % 2 == 1, loops, false, false, [Acc::Mean, Acc::Add][r % 2], true) {
            spec.opt = match r % 4 {
                0 => Opt::SGDM { lr: 0.05, momentum: 0.9, dampening: 0.0, decay: None },
                1 => Opt::Adam { lr: 0.01, b1: 0.9, b2: 0.999, eps: 1e-8, decay: None },
                2 => Opt::AdamW { lr: 0.01, b1: 0.9, b2: 0.999, eps: 1e-8, decay: 0.01 },
                _ => Opt::RMS { lr: 0.01, alpha: 0.9, eps: 1e-8, decay: None, momentum: Some(0.5), centered: r % 8 == 3 },
            };
            spec.obj = Obj::MSE;
            let data = rand_data(rng, 3, input, outsh, Obj::MSE);
            out.push((format!("net-slots-block-L{}-{}", loops, spec.opt.kind()), Case::Net(spec, NetCmd::Learn { data, val: None, batch: 1, epochs: 1 })));
        }
    }
    out
}

pub fn gen_c12(rng: &mut Rng, thorough: bool) -> Vec<Tagged> {
    let mut out: Vec<Tagged> = vec![];
    let mut o = GenOpts::default();
    o.wkind = 2;
    let reps = if thorough { 120 } else { 20 };
    let sizes = [1usize, 2, 63, 64, 65, 127, 128, 129, 200, 191, 192, 193, 256, 257, 300];
    for r in 0..reps {
        let softmax = r % 2 == 0;
        if let Some((mut spec, input, outsh)) = train_net(rng, &o, false, softmax) {
            spec.obj = ALL_OBJS[r % 7];
            let n = if r < sizes.len() { sizes[r] } else { rng.range(1, 9) };
            let mut data = rand_data(rng, n, input, outsh, spec.obj);
            if softmax {
                // one-hot targets, some with ties
                for (_, t) in data.iter_mut() {
                    let k = outsh.numel();
                    let mut v = vec![0.0f32; k];
                    v[rng.below(k)] = 1.0;
                    if rng.chance(1, 6) {
                        v[rng.below(k)] = 1.0;
                    }
                    *t = t1(v);
                }
            }
            let tol = *rng.pick(&[1e-6f32, 0.1, 0.5, 10.0]);
            // a soft-max hidden layer in front of a non-soft-max output: accuracy stays the tolerance rule
            let mut hidden_sm = false;
            if !softmax && r % 3 == 1 {
                let nl = spec.layers.len();
                for k in 0..nl.saturating_sub(1) {
                    if let LayerSpec::One(Simple::Dense { act, .. }) = &mut spec.layers[k] {
                        *act = Act::Softmax;
                        hidden_sm = true;
                        break;
                    }
                }
            }
            if hidden_sm {
                out.push((format!("validate-n{}-hidden-softmax", n), Case::Net(spec.clone(), NetCmd::Validate { data: data.clone(), tol, pre_training: false })));
            }
            out.push((format!("validate-n{}{}", n, if softmax { "-softmax" } else { "" }), Case::Net(spec.clone(), NetCmd::Validate { data: data.clone(), tol, pre_training: false })));
            out.push((format!("predict-batch-n{}", n), Case::Net(spec.clone(), NetCmd::PredictBatch(data.iter().map(|d| d.0.clone()).collect()))));
            out.push(("predict-vs-forward".into(), Case::Net(spec, NetCmd::Forward(data[0].0.clone()))));
        }
    }
    // dense chains with a soft-max HIDDEN layer and a non-soft-max output: the accuracy rule follows the output layer
    for _ in 0..(if thorough { 60 } else { 10 }) {
        let nw = rng.range(2, 4);
        let nout = rng.range(1, 3);
        let mut spec = NetSpec::new(Sh::Flat(nw).to_shape());
        let mut ws = vec![];
        let acts = [Act::Softmax, *rng.pick(&[Act::Tanh, Act::Linear, Act::Sigmoid])];
        for (k, a) in acts.iter().enumerate() {
            let d = Simple::Dense { out: if k == 1 { nout } else { nw }, act: *a, bias: rng.coin(), dropout: None };
            ws.push(LW::One(rand_w(rng, &d, Sh::Flat(nw), 2)));
            spec.layers.push(LayerSpec::One(d));
        }
        spec.weights = Some(ws);
        spec.obj = *rng.pick(&[Obj::MSE, Obj::MAE]);
        let nd = *rng.pick(&[1usize, 3, 5]);
        let data = rand_data(rng, nd, Sh::Flat(nw), Sh::Flat(nout), spec.obj);
        let tol = *rng.pick(&[0.1f32, 0.5, 1.0]);
        out.push(("validate-hidden-softmax-chain".into(), Case::Net(spec, NetCmd::Validate { data, tol, pre_training: false })));
    }
    // networks with skip connections: predict / predict_batch / validate must honour them like forward
    for r in 0..(if thorough { 60 } else { 10 }) {
        let nw = rng.range(2, 5);
        let depth = rng.range(3, 5);
        let mut spec = NetSpec::new(Sh::Flat(nw).to_shape());
        let mut ws = vec![];
        for _ in 0..depth {
            let d = Simple::Dense { out: nw, act: *rng.pick(&[Act::Tanh, Act::Sigmoid, Act::Linear, Act::Leaky]), bias: rng.coin(), dropout: None };
            ws.push(LW::One(rand_w(rng, &d, Sh::Flat(nw), 2)));
            spec.layers.push(LayerSpec::One(d));
        }
        spec.weights = Some(ws);
        let b = rng.range(1, depth - 1);
        spec.connect = vec![(rng.below(b + 1), b)];
        spec.skipacc = *rng.pick(&ALL_ACCS);
        if r % 3 == 0 {
            spec.loops = vec![(depth - 1, depth - 1, 1, false)];
        }
        let nd = *rng.pick(&[1usize, 3, 65]);
        let data = rand_data(rng, nd, Sh::Flat(nw), Sh::Flat(nw), Obj::MSE);
        out.push(("validate-skipnet".into(), Case::Net(spec.clone(), NetCmd::Validate { data: data.clone(), tol: 0.1, pre_training: false })));
        out.push(("predict-batch-skipnet".into(), Case::Net(spec.clone(), NetCmd::PredictBatch(data.iter().map(|d| d.0.clone()).collect()))));
        out.push(("predict-skipnet".into(), Case::Net(spec.clone(), NetCmd::Predict(data[0].0.clone()))));
        out.push(("forward-skipnet".into(), Case::Net(spec, NetCmd::Forward(data[0].0.clone()))));
    }
    // the same input (one tensor object, passed several times in a row) with DIFFERENT targets: every sample is
    // scored against its own target
    for r in 0..(if thorough { 12 } else { 4 }) {
        let softmax = r % 2 == 1;
        let mut spec = NetSpec::new(Sh::Flat(2).to_shape());
        let d = Simple::Dense { out: 2, act: if softmax { Act::Softmax } else { Act::Tanh }, bias: true, dropout: None };
        spec.weights = Some(vec![LW::One(rand_w(rng, &d, Sh::Flat(2), 2))]);
        spec.layers.push(LayerSpec::One(d));
        spec.obj = if softmax { Obj::CE } else { Obj::MSE };
        let x = rand_input(rng, Sh::Flat(2), 2);
        let x2 = rand_input(rng, Sh::Flat(2), 2);
        let mk_t = |rng: &mut Rng, k: usize| if softmax { t1(if k % 2 == 0 { vec![1.0, 0.0] } else { vec![0.0, 1.0] }) } else { t1(vec![rng.sym(), rng.sym()]) };
        let mut data: Vec<(Tensor, Tensor)> = vec![];
        for k in 0..(3 + r % 3) {
            data.push((x.clone(), mk_t(rng, k)));
        }
        data.push((x2.clone(), mk_t(rng, 0)));
        data.push((x2.clone(), mk_t(rng, 1)));
        data.push((x.clone(), mk_t(rng, 1)));
        out.push(("validate-repeated-input-different-targets".into(), Case::Net(spec.clone(), NetCmd::Validate { data: data.clone(), tol: 0.25, pre_training: false })));
        out.push(("predict-batch-repeated-input".into(), Case::Net(spec, NetCmd::PredictBatch(data.iter().map(|d| d.0.clone()).collect()))));
    }
    // data sets beyond 2^10 samples (tiny network): every sample enters both means, in order
    for &nd in (if thorough { &[1023usize, 1025, 2049, 4100][..] } else { &[1025usize][..] }) {
        let mut spec = NetSpec::new(Sh::Flat(2).to_shape());
        let d = Simple::Dense { out: 2, act: Act::Tanh, bias: true, dropout: None };
        spec.weights = Some(vec![LW::One(rand_w(rng, &d, Sh::Flat(2), 2))]);
        spec.layers.push(LayerSpec::One(d));
        spec.obj = Obj::MSE;
        let data = rand_data(rng, nd, Sh::Flat(2), Sh::Flat(2), Obj::MSE);
        out.push(("validate-huge-dataset".into(), Case::Net(spec.clone(), NetCmd::Validate { data: data.clone(), tol: 0.5, pre_training: false })));
        out.push(("predict-batch-huge-dataset".into(), Case::Net(spec, NetCmd::PredictBatch(data.iter().map(|d| d.0.clone()).collect()))));
    }
    // degenerate tolerances (zero, negative zero, negative, NaN, denormal, infinite) against predictions that
    // hit, miss by one ulp, or miss their targets: "strictly within the given tolerance" for ALL tolerances
    {
        let n = 3usize;
        let mut spec = NetSpec::new(Sh::Flat(n).to_shape());
        let d = Simple::Dense { out: n, act: Act::Linear, bias: false, dropout: None };
        let mut w = vec![0.0f32; n * n];
        for i in 0..n {
            w[i * n + i] = 1.0;
        }
        spec.layers.push(LayerSpec::One(d));
        spec.weights = Some(vec![LW::One(W::Dense(t2(n, n, &w), None))]);
        spec.obj = Obj::MSE;
        // identity network: prediction = input
        let xs: Vec<[f32; 3]> = vec![[0.0, 0.5, -1.0], [0.25, 0.25, 0.25], [1.0, 2.0, 3.0]];
        let data: Vec<(Tensor, Tensor)> = xs.iter().enumerate().map(|(k, x)| {
            let t: Vec<f32> = match k {
                0 => x.to_vec(),                                                   // exact hits
                1 => vec![x[0], f32::from_bits(x[1].to_bits() + 1), x[2] + 0.5],   // hit, one ulp off, off
                _ => vec![x[0] + 1e-3, x[1], x[2] - 1e-3],
            };
            (t1(x.to_vec()), t1(t))
        }).collect();
        for tol in [0.0f32, -0.0, -1e-3, -1.0, f32::NAN, 1e-45, f32::MIN_POSITIVE, 1.1920929e-7, 1e-8, 1e-3, 1.0e-3 + 1e-9, f32::INFINITY, f32::NEG_INFINITY] {
            out.push(("validate-degenerate-tolerance".into(), Case::Net(spec.clone(), NetCmd::Validate { data: data.clone(), tol, pre_training: false })));
        }
        // and on 70 samples of a zero input into a bias-free network (exact outputs 0 / 0.5)
        let mut spec2 = NetSpec::new(Sh::Flat(2).to_shape());
        let d2 = Simple::Dense { out: 2, act: Act::Sigmoid, bias: false, dropout: None };
        spec2.weights = Some(vec![LW::One(rand_w(rng, &d2, Sh::Flat(2), 2))]);
        spec2.layers.push(LayerSpec::One(d2));
        spec2.obj = Obj::MAE;
        let data2: Vec<(Tensor, Tensor)> = (0..70).map(|k| (t1(vec![0.0, 0.0]), t1(vec![0.5, if k % 2 == 0 { 0.5 } else { 0.75 }]))).collect();
        for tol in [0.0f32, -0.0, -1.0, f32::NAN, 1e-8] {
            out.push(("validate-degenerate-tolerance-70".into(), Case::Net(spec2.clone(), NetCmd::Validate { data: data2.clone(), tol, pre_training: false })));
        }
    }
    // the OUTPUT layer (soft-max, and element-wise) is the end of a loop connection: what is scored is the
    // prediction, i.e. the accumulated OUTPUTS of the iterations (arg-max of the accumulated probabilities, not of
    // accumulated logits); every accumulation, loops over the output layer alone and over the whole network
    for (ai, acc) in ALL_ACCS.iter().enumerate() {
        for variant in 0..4 {
            let softmax = variant % 2 == 0;
            let mut spec = NetSpec::new(Sh::Flat(3).to_shape());
            let d1 = Simple::Dense { out: 3, act: Act::Tanh, bias: true, dropout: None };
            let d2 = Simple::Dense { out: 3, act: if softmax { Act::Softmax } else { Act::Sigmoid }, bias: true, dropout: None };
            let w2: Vec<f32> = (0..9).map(|i| [2.5f32, -1.5, 0.5, -2.0, 3.0, 1.0, 0.25, -0.75, 2.0][(i + ai) % 9]).collect();
            spec.weights = Some(vec![LW::One(rand_w(rng, &d1, Sh::Flat(3), 2)), LW::One(W::Dense(t2(3, 3, &w2), Some(t1(vec![0.3, -0.2, 0.1]))))]);
            spec.layers.push(LayerSpec::One(d1));
            spec.layers.push(LayerSpec::One(d2));
            spec.loopacc = *acc;
            spec.loops = vec![if variant < 2 { (1, 1, 1 + ai % 2, false) } else { (1, 0, 1 + (ai + 1) % 2, false) }];
            spec.obj = if softmax { Obj::CE } else { Obj::MSE };
            let data: Vec<(Tensor, Tensor)> = (0..76).map(|i| {
                let x = vec![((i * 37) % 41) as f32 * 0.1 - 2.0, ((i * 53) % 29) as f32 * 0.15 - 2.0, ((i * 11) % 23) as f32 * 0.2 - 2.2];
                let mut t = vec![0.0f32; 3];
                t[i % 3] = 1.0;
                (t1(x), t1(t))
            }).collect();
            out.push((format!("validate-output-layer-ends-a-loop-{:?}", acc), Case::Net(spec.clone(), NetCmd::Validate { data: data.clone(), tol: 0.4, pre_training: false })));
            if variant == 0 {
                out.push((format!("predict-batch-output-layer-ends-a-loop-{:?}", acc), Case::Net(spec, NetCmd::PredictBatch(data.iter().take(5).map(|d| d.0.clone()).collect()))));
            }
        }
    }
    // evaluation sets beyond 64 x 64 samples (4096, 4097, 4160, 4161, 10007): every sample is scored against ITS
    // target, every sample counts once (targets and predictions vary from sample to sample)
    for (k, &nd) in [4160usize, 4097, 4161, 4096, 10007].iter().enumerate() {
        if !(thorough || k < 2) {
            continue;
        }
        let mut spec = NetSpec::new(Sh::Flat(2).to_shape());
        let d = Simple::Dense { out: 2, act: if k % 2 == 0 { Act::Tanh } else { Act::Softmax }, bias: true, dropout: None };
        spec.weights = Some(vec![LW::One(rand_w(rng, &d, Sh::Flat(2), 2))]);
        spec.layers.push(LayerSpec::One(d));
        spec.obj = if k % 2 == 0 { Obj::MSE } else { Obj::CE };
        let data: Vec<(Tensor, Tensor)> = (0..nd).map(|i| {
            let x = vec![((i * 37) % 101) as f32 * 0.02 - 1.0, ((i * 53) % 89) as f32 * 0.03 - 1.3];
            let t = if k % 2 == 0 { vec![((i * 7) % 13) as f32 * 0.1 - 0.6, ((i * 11) % 17) as f32 * 0.05] } else if i % 3 == 0 { vec![1.0, 0.0] } else { vec![0.0, 1.0] };
            (t1(x), t1(t))
        }).collect();
        out.push((format!("validate-{}-samples", nd), Case::Net(spec.clone(), NetCmd::Validate { data: data.clone(), tol: 0.3, pre_training: false })));
        if k == 0 || thorough {
            out.push((format!("predict-batch-{}-inputs", nd), Case::Net(spec, NetCmd::PredictBatch(data.iter().map(|d| d.0.clone()).collect()))));
        }
    }
    // consecutive inputs that are NEARLY equal (less than 1e-5 apart in every component), exactly equal, equal up
    // to a NaN component, or of tiny scale (1e-7): every input is predicted and scored on its own
    for r in 0..(if thorough { 12 } else { 4 }) {
        let mut spec = NetSpec::new(Sh::Flat(2).to_shape());
        let d1 = Simple::Dense { out: 3, act: Act::Tanh, bias: true, dropout: None };
        let d2 = Simple::Dense { out: 3, act: if r % 2 == 0 { Act::Linear } else { Act::Softmax }, bias: true, dropout: None };
        let mut w1 = rand_w(rng, &d1, Sh::Flat(2), 2);
        if r % 4 >= 2 {
            // large gain: inputs 5e-6 apart give clearly different outputs
            w1 = W::Dense(t2(3, 2, &[3e5, -2e5, 1e5, 4e5, -3e5, 2e5]), Some(t1(vec![0.1, -0.2, 0.3])));
        }
        spec.weights = Some(vec![LW::One(w1), LW::One(rand_w(rng, &d2, Sh::Flat(3), 2))]);
        spec.layers.push(LayerSpec::One(d1));
        spec.layers.push(LayerSpec::One(d2));
        let base = [0.25f32, -0.5];
        let xs: Vec<Tensor> = vec![
            t1(vec![base[0], base[1]]), t1(vec![base[0] + 5e-6, base[1]]), t1(vec![base[0] + 5e-6, base[1] - 4e-6]), t1(vec![base[0], base[1]]), t1(vec![base[0], base[1]]),
            t1(vec![f32::NAN, base[1]]), t1(vec![base[0], base[1]]), t1(vec![base[0], f32::NAN]), t1(vec![f32::NAN, f32::NAN]),
            t1(vec![1e-7, -2e-7]), t1(vec![3e-7, 1e-7]), t1(vec![-2e-7, 2e-7]), t1(vec![0.0, 0.0]), t1(vec![-0.0, 1e-9]),
        ];
        let data: Vec<(Tensor, Tensor)> = xs.iter().enumerate().map(|(i, x)| { let mut t = vec![0.0f32; 3]; t[i % 3] = 1.0; (x.clone(), t1(t)) }).collect();
        out.push(("predict-batch-nearly-equal-consecutive-inputs".into(), Case::Net(spec.clone(), NetCmd::PredictBatch(xs))));
        out.push(("validate-nearly-equal-consecutive-inputs".into(), Case::Net(spec, NetCmd::Validate { data, tol: 0.5, pre_training: false })));
    }
    // the activation of the OUTPUT layer replaced after the layer was added (`set_activation`), across the
    // soft-max boundary in both directions, and the activation of a hidden layer replaced: the accuracy rule
    // (arg-max agreement for a soft-max output, the tolerance band otherwise) follows the activation the
    // output layer has NOW; loss and predictions follow the new activations
    for r in 0..(if thorough { 24 } else { 8 }) {
        let k = 3usize;
        let mut spec = NetSpec::new(Sh::Flat(2).to_shape());
        let first_softmax = r % 2 == 0;
        let d1 = Simple::Dense { out: k, act: Act::Tanh, bias: true, dropout: None };
        let d2 = Simple::Dense { out: k, act: if first_softmax { Act::Softmax } else { [Act::Linear, Act::Sigmoid, Act::Tanh][(r / 2) % 3] }, bias: true, dropout: None };
        spec.weights = Some(vec![LW::One(rand_w(rng, &d1, Sh::Flat(2), 2)), LW::One(rand_w(rng, &d2, Sh::Flat(k), 2))]);
        spec.layers.push(LayerSpec::One(d1));
        spec.layers.push(LayerSpec::One(d2));
        spec.obj = if r % 4 < 2 { Obj::MSE } else { Obj::CE };
        // one-hot targets: the two rules disagree on most samples
        let data: Vec<(Tensor, Tensor)> = (0..(if r % 3 == 0 { 70 } else { 7 })).map(|i| {
            let mut t = vec![0.0f32; k];
            t[(i * 7 + r) % k] = 1.0;
            (rand_input(rng, Sh::Flat(2), 2), t1(t))
        }).collect();
        let other = if first_softmax { [Act::Linear, Act::Sigmoid, Act::ReLU][(r / 2) % 3] } else { Act::Softmax };
        let tol = [0.6f32, 0.3, 1.0][r % 3];
        let ops = vec![
            NetCmd::Validate { data: data.clone(), tol, pre_training: false },
            NetCmd::SetActivation(1, other),
            NetCmd::Validate { data: data.clone(), tol, pre_training: false },
            NetCmd::Predict(data[0].0.clone()),
            NetCmd::SetActivation(0, Act::Sigmoid),
            NetCmd::Validate { data: data.clone(), tol, pre_training: false },
            NetCmd::SetActivation(1, if first_softmax { Act::Softmax } else { Act::Linear }),
            NetCmd::Validate { data: data.clone(), tol, pre_training: false },
        ];
        out.push((format!("validate-after-set-activation-{}", if first_softmax { "from-softmax" } else { "to-softmax" }), Case::Net(spec, NetCmd::Script(ops))));
    }
    // set_activation is refused on max-pool layers and on indices out of bounds; the network is unchanged
    {
        let mut spec = NetSpec::new(Sh::Sp(1, 2, 2).to_shape());
        let d = Simple::Dense { out: 2, act: Act::Linear, bias: false, dropout: None };
        spec.weights = Some(vec![LW::One(W::None), LW::One(rand_w(rng, &d, Sh::Flat(4), 2))]);
        spec.layers.push(LayerSpec::One(Simple::Maxpool { kernel: (1, 1), stride: (1, 1) }));
        spec.layers.push(LayerSpec::One(d));
        for idx in [0usize, 2, 7] {
            out.push(("set-activation-refused".into(), Case::Net(spec.clone(), NetCmd::Script(vec![NetCmd::SetActivation(idx, Act::Tanh)]))));
        }
    }
    // a network not ending in a dense layer is refused by validate
    let mut spec = NetSpec::new(Sh::Sp(1, 3, 3).to_shape());
    spec.layers.push(LayerSpec::One(Simple::Maxpool { kernel: (1, 1), stride: (1, 1) }));
    out.push(("validate-nondense-refused".into(), Case::Net(spec, NetCmd::Validate { data: vec![(t3(1, 3, 3, &rng.vec(9, 1)), t3(1, 3, 3, &rng.vec(9, 1)))], tol: 0.1, pre_training: false })));
    out
}

/// C05 tie: the sequential model value of training / validation / batched prediction
pub fn gen_c05(rng: &mut Rng, thorough: bool) -> Vec<Tagged> {
    let mut out: Vec<Tagged> = vec![];
    let mut o = GenOpts::default();
    o.wkind = 2;
    o.dropout = true;
    o.acts = vec![Act::Tanh, Act::Sigmoid, Act::Leaky];
    let reps = if thorough { 60 } else { 8 };
    for r in 0..reps {
        if let Some((mut spec, input, outsh)) = train_net(rng, &o, r % 2 == 0, false) {
            spec.opt = rand_opt(rng, r % 5);
            let nd = rng.range(3, 9);
            let data = rand_data(rng, nd, input, outsh, Obj::MSE);
            let val = rand_data(rng, 70, input, outsh, Obj::MSE);
            out.push(("par-learn".into(), Case::Net(spec.clone(), NetCmd::Learn { data, val: Some((val.clone(), 100)), batch: rng.range(2, 5), epochs: 2 })));
            out.push(("par-predict-batch".into(), Case::Net(spec, NetCmd::PredictBatch(val.iter().map(|d| d.0.clone()).collect()))));
        }
    }
    // chains of padded convolutions with equal padded input sizes but different paddings (a buffer
    // reused across samples on one worker thread would leak values between samples)
    for r in 0..(if thorough { 12 } else { 3 }) {
        let pads: &[usize] = [&[2usize, 1][..], &[0, 1], &[2, 1, 1]][r % 3];
        let in0 = 6 - 2 * pads[0];
        let input = Sh::Sp(1, in0, in0);
        let mut cur = input;
        let mut sp = NetSpec::new(input.to_shape());
        let mut ws = vec![];
        for &p in pads {
            let c = Simple::Conv { filters: 1, kernel: (3, 3), stride: (1, 1), padding: (p, p), dilation: (1, 1), act: Act::Tanh, dropout: None };
            ws.push(LW::One(rand_w(rng, &c, cur, 2)));
            cur = out_shape(&c, cur).unwrap();
            sp.layers.push(LayerSpec::One(c));
        }
        let d = Simple::Dense { out: 2, act: Act::Linear, bias: true, dropout: None };
        ws.push(LW::One(rand_w(rng, &d, Sh::Flat(cur.numel()), 2)));
        sp.layers.push(LayerSpec::One(d));
        sp.weights = Some(ws);
        sp.opt = rand_opt(rng, 0);
        let data = rand_data(rng, 9, input, Sh::Flat(2), Obj::MSE);
        let xs: Vec<Tensor> = (0..70).map(|_| rand_input(rng, input, 2)).collect();
        out.push(("par-learn-conv-chain-equal-padded-size".into(), Case::Net(sp.clone(), NetCmd::Learn { data, val: None, batch: 3, epochs: 2 })));
        out.push(("par-predict-batch-conv-chain-equal-padded-size".into(), Case::Net(sp, NetCmd::PredictBatch(xs))));
    }
    // 72 and 130 outputs under every regression objective: the per-sample loss is summed in order
    for (k, obj) in [Obj::MSE, Obj::MAE, Obj::AE, Obj::RMSE].into_iter().enumerate() {
        let (spec, data) = wide_output_job(rng, if k % 2 == 0 { 72 } else { 130 }, obj, 9);
        out.push(("par-learn-wide-output-regression".into(), Case::Net(spec.clone(), NetCmd::Learn { data: data.clone(), val: Some((data.clone(), 100)), batch: 4, epochs: 2 })));
        out.push(("par-validate-wide-output-regression".into(), Case::Net(spec, NetCmd::Validate { data, tol: 0.1, pre_training: false })));
    }
    // a soft-max output over 96 and 200 classes (cross-entropy): the denominator is summed in order
    for &classes in &[96usize, 200] {
        let (spec, data) = wide_softmax_job(rng, classes, 12);
        out.push(("par-learn-wide-softmax".into(), Case::Net(spec.clone(), NetCmd::Learn { data: data.clone(), val: Some((data.clone(), 100)), batch: 4, epochs: 2 })));
        out.push(("par-predict-batch-wide-softmax".into(), Case::Net(spec, NetCmd::PredictBatch(data.iter().map(|d| d.0.clone()).collect()))));
    }
    // an optimizer step that overflows part of the parameters, then prediction and validation on the same object
    for &n in &[130usize, 70] {
        let (spec, data) = overflowing_job(n);
        let ops = vec![
            NetCmd::Learn { data: data.clone(), val: None, batch: n, epochs: 1 },
            NetCmd::PredictBatch(data.iter().map(|d| d.0.clone()).collect()),
            NetCmd::Validate { data: data.clone(), tol: 0.1, pre_training: false },
        ];
        out.push(("par-overflowing-step-then-predict-validate".into(), Case::Net(spec, NetCmd::Script(ops))));
    }
    // very wide dense layers (4096 inputs, 2100 outputs, 2049 inputs)
    for variant in 0..(if thorough { 3 } else { 2 }) {
        let (spec, input, outsh) = wide_dense_net(rng, variant);
        let data = rand_data(rng, 5, input, outsh, Obj::MSE);
        let xs: Vec<Tensor> = (0..6).map(|_| rand_input(rng, input, 2)).collect();
        out.push(("par-learn-wide-dense".into(), Case::Net(spec.clone(), NetCmd::Learn { data: data.clone(), val: Some((data, 100)), batch: 2, epochs: 2 })));
        out.push(("par-predict-batch-wide-dense".into(), Case::Net(spec, NetCmd::PredictBatch(xs))));
    }
    // samples with a NaN / infinite loss in the middle of an evaluation set of more than one parallel chunk
    for (k, (n, bad)) in [(70usize, vec![(33usize, f32::NAN)]), (150, vec![(70, f32::NAN), (20, f32::INFINITY)]), (200, vec![(199, f32::NAN)]), (130, vec![(0, f32::NAN)]), (65, vec![(64, f32::NEG_INFINITY)])].into_iter().enumerate() {
        let (spec, data) = nan_in_the_middle(n, &bad);
        out.push(("par-validate-nan-loss-in-the-middle".into(), Case::Net(spec.clone(), NetCmd::Validate { data: data.clone(), tol: 0.1, pre_training: false })));
        if k < 2 {
            let train: Vec<(Tensor, Tensor)> = data.iter().take(5).cloned().collect();
            out.push(("par-learn-validation-nan-loss-in-the-middle".into(), Case::Net(spec, NetCmd::Learn { data: train, val: Some((data, 100)), batch: 2, epochs: 2 })));
        }
    }
    // shared-source skip connections: several skip gradients are summed in the backward pass
    for _ in 0..(if thorough { 12 } else { 3 }) {
        let n = rng.range(2, 4);
        let mut sp = NetSpec::new(Sh::Flat(n).to_shape());
        let mut ws = vec![];
        for _ in 0..5 {
            let d = Simple::Dense { out: n, act: *rng.pick(&[Act::Tanh, Act::Sigmoid]), bias: true, dropout: None };
            ws.push(LW::One(rand_w(rng, &d, Sh::Flat(n), 2)));
            sp.layers.push(LayerSpec::One(d));
        }
        sp.weights = Some(ws);
        sp.connect = vec![(1, 2), (1, 3), (1, 4)];
        sp.skipacc = Acc::Add;
        sp.opt = rand_opt(rng, 0);
        let data = rand_data(rng, 9, Sh::Flat(n), Sh::Flat(n), Obj::MSE);
        out.push(("par-learn-shared-source-skips".into(), Case::Net(sp, NetCmd::Learn { data, val: None, batch: 3, epochs: 2 })));
    }
    out
}

/// an evaluation set whose per-sample results are far from uniform: the 2 -> 2 identity network, every third
/// target equal to the prediction (accuracy 1), the others off by one (accuracy 0), and in the middle of the
/// set samples whose loss is NaN or infinite (NaN / infinite inputs): mean loss and mean accuracy are taken
/// over ALL samples in input order whatever a sample's loss is
pub fn nan_in_the_middle(n: usize, bad: &[(usize, f32)]) -> (NetSpec, Vec<(Tensor, Tensor)>) {
    let mut spec = NetSpec::new(Sh::Flat(2).to_shape());
    spec.layers.push(LayerSpec::One(Simple::Dense { out: 2, act: Act::Linear, bias: false, dropout: None }));
    spec.weights = Some(vec![LW::One(W::Dense(t2(2, 2, &[1.0, 0.0, 0.0, 1.0]), None))]);
    spec.opt = Opt::SGD { lr: 0.01, decay: None };
    spec.obj = Obj::MSE;
    let mut data: Vec<(Tensor, Tensor)> = (0..n).map(|i| {
        let x = vec![0.25 * (i % 7) as f32 - 0.5, 0.125 * (i % 5) as f32];
        let t = if i % 3 == 0 { x.clone() } else { vec![x[0] + 1.0, x[1] - 1.0] };
        (t1(x), t1(t))
    }).collect();
    for &(i, v) in bad {
        if i < n {
            data[i].0 = t1(vec![v, 0.5]);
        }
    }
    (spec, data)
}

/// networks with a very wide dense layer (2^11 .. 2^12 inputs or outputs): the per-sample matrix-vector
/// products are long enough for a nested parallel reduction to be tempting
pub fn wide_dense_net(rng: &mut Rng, variant: usize) -> (NetSpec, Sh, Sh) {
    let (i, h, o_) = match variant % 3 { 0 => (4096usize, 4usize, 2usize), 1 => (4, 2100, 2), _ => (2049, 3, 2) };
    let mut spec = NetSpec::new(Sh::Flat(i).to_shape());
    let d1 = Simple::Dense { out: h, act: Act::Tanh, bias: true, dropout: None };
    let d2 = Simple::Dense { out: o_, act: Act::Linear, bias: true, dropout: None };
    spec.weights = Some(vec![LW::One(rand_w(rng, &d1, Sh::Flat(i), 2)), LW::One(rand_w(rng, &d2, Sh::Flat(h), 2))]);
    spec.layers.push(LayerSpec::One(d1));
    spec.layers.push(LayerSpec::One(d2));
    spec.opt = Opt::SGD { lr: 0.001, decay: None };
    spec.obj = Obj::MSE;
    (spec, Sh::Flat(i), Sh::Flat(o_))
}

/// a job in which an optimizer step OVERFLOWS part of the parameters (rate 1e35, one feature of order 1e3): the
/// non-finite weights, the predictions and the validation result are still a pure function of weights and data
pub fn overflowing_job(n: usize) -> (NetSpec, Vec<(Tensor, Tensor)>) {
    let mut spec = NetSpec::new(Sh::Flat(3).to_shape());
    let d1 = Simple::Dense { out: 4, act: Act::Linear, bias: true, dropout: None };
    let d2 = Simple::Dense { out: 2, act: Act::Linear, bias: true, dropout: None };
    let w1: Vec<f32> = (0..12).map(|i| 0.1 * (i as f32 - 5.5)).collect();
    let w2: Vec<f32> = (0..8).map(|i| 0.2 * (3.5 - i as f32)).collect();
    spec.weights = Some(vec![
        LW::One(W::Dense(t2(4, 3, &w1), Some(t1(vec![0.1, -0.1, 0.2, 0.0])))),
        LW::One(W::Dense(t2(2, 4, &w2), Some(t1(vec![0.05, -0.05])))),
    ]);
    spec.layers.push(LayerSpec::One(d1));
    spec.layers.push(LayerSpec::One(d2));
    spec.opt = Opt::SGD { lr: 1e35, decay: None };
    spec.obj = Obj::MSE;
    let data: Vec<(Tensor, Tensor)> = (0..n).map(|i| {
        let a = (i % 7) as f32 * 0.25 - 0.75;
        let b = (i % 5) as f32 * 0.5 - 1.0;
        (t1(vec![a, b, 1e3 + i as f32]), t1(vec![a + b, a - b]))
    }).collect();
    (spec, data)
}

/// a 12 -> 24 -> `classes` soft-max classifier under cross-entropy with one-hot targets
pub fn wide_softmax_job(rng: &mut Rng, classes: usize, n: usize) -> (NetSpec, Vec<(Tensor, Tensor)>) {
    let mut spec = NetSpec::new(Sh::Flat(12).to_shape());
    let d1 = Simple::Dense { out: 24, act: Act::Tanh, bias: true, dropout: None };
    let d2 = Simple::Dense { out: classes, act: Act::Softmax, bias: true, dropout: None };
    spec.weights = Some(vec![LW::One(rand_w(rng, &d1, Sh::Flat(12), 2)), LW::One(rand_w(rng, &d2, Sh::Flat(24), 2))]);
    spec.layers.push(LayerSpec::One(d1));
    spec.layers.push(LayerSpec::One(d2));
    spec.opt = Opt::SGD { lr: 0.05, decay: None };
    spec.obj = Obj::CE;
    let data: Vec<(Tensor, Tensor)> = (0..n).map(|i| {
        let mut t = vec![0.0f32; classes];
        t[(i * 29 + 3) % classes] = 1.0;
        (rand_input(rng, Sh::Flat(12), 2), t1(t))
    }).collect();
    (spec, data)
}

/// a 6 -> `outs` dense network (64 outputs and more) under a regression objective: the per-sample loss is a sum
/// over many output components
pub fn wide_output_job(rng: &mut Rng, outs: usize, obj: Obj, n: usize) -> (NetSpec, Vec<(Tensor, Tensor)>) {
    let mut spec = NetSpec::new(Sh::Flat(6).to_shape());
    let d = Simple::Dense { out: outs, act: Act::Tanh, bias: true, dropout: None };
    spec.weights = Some(vec![LW::One(rand_w(rng, &d, Sh::Flat(6), 2))]);
    spec.layers.push(LayerSpec::One(d));
    spec.opt = Opt::SGD { lr: 0.01, decay: None };
    spec.obj = obj;
    let data = rand_data(rng, n, Sh::Flat(6), Sh::Flat(outs), obj);
    (spec, data)
}

/// runs one job in pools of every size, repeated, with and without schedule perturbation: all results equal
fn across_pools(f: &mut crate::fals::Fals, rng: &mut Rng, pools: &[usize], reps: usize, spec: &NetSpec, cmd: &NetCmd, class: &str, name: &str, descr: &str) {
    use crate::case::run_net_cmd;
    let mut reference: Option<(usize, usize, Vec<i128>)> = None;
    for &k in pools {
        let pool = rayon::ThreadPoolBuilder::new().num_threads(k).build().unwrap();
        for rep in 0..reps {
            neurons::verif::PERTURB.store(if rep % 2 == 1 { rng.next() | 1 } else { 0 }, std::sync::atomic::Ordering::Relaxed);
            let out = pool.install(|| {
                let r = std::panic::catch_unwind(std::panic::AssertUnwindSafe(|| {
                    let mut n = spec.build();
                    let mut t: Vec<i128> = vec![0];
                    run_net_cmd(&mut t, &mut n, cmd);
                    t
                }));
                r.unwrap_or_else(|_| vec![1])
            });
            neurons::verif::PERTURB.store(0, std::sync::atomic::Ordering::Relaxed);
            match &reference {
                None => reference = Some((k, rep, out)),
                Some((k0, r0, o0)) => {
                    let same = *o0 == out;
                    f.check(class, same, "result differs between thread counts / repetitions", || {
                        let pos = o0.iter().zip(out.iter()).position(|(a, b)| a != b).unwrap_or(0);
                        format!("{} on {}: {} threads (repetition {}) vs {} threads (repetition {}): first difference at result token {} ({} vs {})",
                                name, descr, k0, r0, k, rep, pos, o0.get(pos).cloned().unwrap_or(0), out.get(pos).cloned().unwrap_or(0))
                    });
                }
            }
        }
    }
}

/// C05 falsifier: the same training / validation / batched-prediction job in thread pools of
/// different sizes, repeated, with and without schedule perturbation; every observable must be
/// bit-identical across all runs.
pub fn fals_c05(rng: &mut Rng, thorough: bool) -> crate::fals::Fals {
    let mut f = crate::fals::Fals::new();
    let mut o = GenOpts::default();
    o.wkind = 2;
    o.dropout = true;
    o.acts = vec![Act::Tanh, Act::Sigmoid, Act::Leaky, Act::ReLU];
    let nets = if thorough { 25 } else { 5 };
    let pools: Vec<usize> = if thorough { vec![1, 2, 3, 5, 8, 16, 33] } else { vec![1, 2, 3, 8, 33] };
    let reps = if thorough { 6 } else { 2 };
    let mut built = 0;
    let mut tries = 0;
    while built < nets && tries < 200 {
        tries += 1;
        let spatial = built % 2 == 0;
        let (mut spec, input, outsh) = if built % 5 == 4 {
            // a dense chain in which one source feeds several skip targets (the backward pass sums
            // several skip gradients: their order must not depend on the thread)
            let n = rng.range(2, 4);
            let mut sp = NetSpec::new(Sh::Flat(n).to_shape());
            let mut ws = vec![];
            for _ in 0..5 {
                let d = Simple::Dense { out: n, act: *rng.pick(&[Act::Tanh, Act::Sigmoid]), bias: true, dropout: None };
                ws.push(LW::One(rand_w(rng, &d, Sh::Flat(n), 2)));
                sp.layers.push(LayerSpec::One(d));
            }
            sp.weights = Some(ws);
            sp.connect = vec![(1, 2), (1, 3), (1, 4)];
            sp.skipacc = Acc::Add;
            (sp, Sh::Flat(n), Sh::Flat(n))
        } else if built % 4 == 3 {
            // a feedback block with input skips and three or more loops (gradient additions from several skip targets)
            let mut ob = o.clone();
            ob.dropout = false;
            let bl = rng.range(3, 4);
            match block_net(rng, &ob, false, bl, true, false, Acc::Add, true) { Some(x) => x, None => continue }
        } else {
            match train_net(rng, &o, spatial, false) { Some(x) => x, None => continue }
        };
        spec.opt = rand_opt(rng, built % 5);
        spec.obj = Obj::MSE;
        let nd = rng.range(5, 11);
        let data = rand_data(rng, nd, input, outsh, Obj::MSE);
        let nv = *rng.pick(&[65usize, 130, 200, 333]);
        let val = rand_data(rng, nv, input, outsh, Obj::MSE);
        let cmds = vec![
            ("learn", NetCmd::Learn { data: data.clone(), val: Some((val.clone(), 100)), batch: rng.range(2, 5), epochs: 2 }),
            ("validate", NetCmd::Validate { data: val.clone(), tol: 0.1, pre_training: false }),
            ("predict_batch", NetCmd::PredictBatch(val.iter().map(|d| d.0.clone()).collect())),
        ];
        built += 1;
        let descr = format!("network {:?} ({} training samples, {} evaluation inputs)", spec.layers.iter().map(|l| l.kind()).collect::<Vec<_>>(), nd, nv);
        for (name, cmd) in cmds {
            let class = format!("schedule/{}{}", name, if built % 4 == 0 { "/feedback-inskips-L>=3" } else { "" });
            across_pools(&mut f, rng, &pools, reps, &spec, &cmd, &class, name, &descr);
        }
    }
    // a job with many parameters and large batches (batch x parameters > 2^22: 64 x 67 848)
    {
        let mut spec = NetSpec::new(Sh::Flat(256).to_shape());
        let d1 = Simple::Dense { out: 256, act: Act::Tanh, bias: true, dropout: None };
        let d2 = Simple::Dense { out: 8, act: Act::Linear, bias: true, dropout: None };
        spec.weights = Some(vec![LW::One(rand_w(rng, &d1, Sh::Flat(256), 2)), LW::One(rand_w(rng, &d2, Sh::Flat(256), 2))]);
        spec.layers.push(LayerSpec::One(d1));
        spec.layers.push(LayerSpec::One(d2));
        spec.opt = Opt::SGD { lr: 0.01, decay: None };
        spec.obj = Obj::MSE;
        let data = rand_data(rng, if thorough { 128 } else { 70 }, Sh::Flat(256), Sh::Flat(8), Obj::MSE);
        let big_pools: Vec<usize> = if thorough { vec![1, 2, 4, 8, 16] } else { vec![1, 4, 8] };
        let cmd = NetCmd::Learn { data, val: None, batch: 64, epochs: 2 };
        across_pools(&mut f, rng, &big_pools, 2, &spec, &cmd, "schedule/learn/large-batch-x-parameters", "learn", "256->256->8 dense network, batch 64");
    }
    // 72 / 130 outputs under the regression objectives: the losses reported by learn and validate are bit-identical
    // across pools, schedules and plain repetitions (interleaved with allocations of varying size, so that the
    // temporaries of the loss computation land at varying addresses)
    for (k, obj) in [Obj::MSE, Obj::MAE, Obj::AE, Obj::RMSE].into_iter().enumerate() {
        let (spec, data) = wide_output_job(rng, if k % 2 == 0 { 72 } else { 130 }, obj, 70);
        let cmds = vec![
            ("learn", NetCmd::Learn { data: data[..12].to_vec(), val: Some((data.clone(), 100)), batch: 4, epochs: 2 }),
            ("validate", NetCmd::Validate { data: data.clone(), tol: 0.1, pre_training: false }),
        ];
        for (name, cmd) in cmds {
            across_pools(&mut f, rng, &pools, reps.max(6), &spec, &cmd, &format!("schedule/{}/wide-output-regression", name), name, &format!("6->{} dense network under {:?}", if k % 2 == 0 { 72 } else { 130 }, obj));
        }
    }
    // a soft-max over 96 / 200 classes: a summation whose order depends on where a temporary buffer happens to
    // lie in memory (alignment-split vector lanes) differs between threads, schedules and plain repetitions
    for &classes in &[96usize, 200] {
        let (spec, data) = wide_softmax_job(rng, classes, 70);
        let cmds = vec![
            ("learn", NetCmd::Learn { data: data[..12].to_vec(), val: Some((data.clone(), 100)), batch: 4, epochs: 2 }),
            ("validate", NetCmd::Validate { data: data.clone(), tol: 0.1, pre_training: false }),
            ("predict_batch", NetCmd::PredictBatch(data.iter().map(|d| d.0.clone()).collect())),
        ];
        for (name, cmd) in cmds {
            across_pools(&mut f, rng, &pools, reps.max(4), &spec, &cmd, &format!("schedule/{}/wide-softmax", name), name, &format!("12->24->{} soft-max classifier", classes));
        }
    }
    // an optimizer step that overflows part of the parameters: what follows is still deterministic
    for &n in &[130usize, 65] {
        let (spec, data) = overflowing_job(n);
        let cmd = NetCmd::Script(vec![
            NetCmd::Learn { data: data.clone(), val: None, batch: n, epochs: 1 },
            NetCmd::PredictBatch(data.iter().map(|d| d.0.clone()).collect()),
            NetCmd::Validate { data: data.clone(), tol: 0.1, pre_training: false },
        ]);
        across_pools(&mut f, rng, &pools, reps.max(3), &spec, &cmd, "schedule/script/overflowing-step", "learn + predict_batch + validate", &format!("3->4->2 linear network, rate 1e35, {} samples", n));
    }
    // very wide dense layers: a nested parallel reduction inside ONE sample's forward / backward pass would
    // associate the float sums differently in pools of different sizes
    for variant in 0..3 {
        let (spec, input, outsh) = wide_dense_net(rng, variant);
        let data = rand_data(rng, 6, input, outsh, Obj::MSE);
        let val = rand_data(rng, 70, input, outsh, Obj::MSE);
        let cmds = vec![
            ("learn", NetCmd::Learn { data: data.clone(), val: Some((data.clone(), 100)), batch: 3, epochs: 2 }),
            ("validate", NetCmd::Validate { data: val.clone(), tol: 0.1, pre_training: false }),
            ("predict_batch", NetCmd::PredictBatch(val.iter().map(|d| d.0.clone()).collect())),
        ];
        let wp: Vec<usize> = if thorough { vec![1, 2, 3, 4, 8, 16, 33] } else { vec![1, 2, 4, 8] };
        for (name, cmd) in cmds {
            across_pools(&mut f, rng, &wp, reps.max(3), &spec, &cmd, &format!("schedule/{}/wide-dense", name), name, &format!("wide dense network (variant {})", variant));
        }
    }
    // samples with a NaN / infinite loss in the middle of the evaluation set, non-uniform accuracies: an
    // unordered short-circuit ("stop at the first diverged sample") would make the accuracy depend on the schedule
    for (n, bad) in [(200usize, vec![(100usize, f32::NAN)]), (333, vec![(70, f32::NAN), (250, f32::INFINITY)]), (130, vec![(129, f32::NAN)]), (700, vec![(350, f32::NAN)])] {
        let (spec, data) = nan_in_the_middle(n, &bad);
        let train: Vec<(Tensor, Tensor)> = data.iter().take(6).cloned().collect();
        let cmds = vec![
            ("validate", NetCmd::Validate { data: data.clone(), tol: 0.1, pre_training: false }),
            ("learn", NetCmd::Learn { data: train, val: Some((data.clone(), 100)), batch: 3, epochs: 2 }),
        ];
        for (name, cmd) in cmds {
            across_pools(&mut f, rng, &pools, reps.max(4), &spec, &cmd, &format!("schedule/{}/nan-loss-in-the-middle", name), name, &format!("2->2 identity network, {} evaluation samples, NaN / infinite inputs at {:?}", n, bad.iter().map(|b| b.0).collect::<Vec<_>>()));
        }
    }
    // arithmetic in the subnormal range (weights 1e-20 and 1e30, inputs k*1e-20, rate 1e-25): the floating-point
    // environment of the thread that happens to run a sample or the update must not matter
    for variant in 0..(if thorough { 4 } else { 2 }) {
        let mut spec = NetSpec::new(Sh::Flat(1).to_shape());
        let d1 = Simple::Dense { out: 1, act: Act::Linear, bias: false, dropout: None };
        let d2 = Simple::Dense { out: 1, act: Act::Linear, bias: variant % 2 == 1, dropout: None };
        spec.layers.push(LayerSpec::One(d1));
        spec.layers.push(LayerSpec::One(d2));
        spec.weights = Some(vec![LW::One(W::Dense(t2(1, 1, &[1e-20]), None)), LW::One(W::Dense(t2(1, 1, &[1e30]), if variant % 2 == 1 { Some(t1(vec![1e-41])) } else { None }))]);
        spec.opt = if variant < 2 { Opt::SGD { lr: 1e-25, decay: None } } else { Opt::SGDM { lr: 1e-25, momentum: 0.9, dampening: 0.0, decay: Some(1e-3) } };
        spec.obj = Obj::MSE;
        let data: Vec<(Tensor, Tensor)> = (1..=32).map(|k| (t1(vec![k as f32 * 1e-20]), t1(vec![0.0]))).collect();
        let cmds = vec![
            ("learn", NetCmd::Learn { data: data.clone(), val: Some((data.clone(), 100)), batch: 8, epochs: 2 }),
            ("validate", NetCmd::Validate { data: data.clone(), tol: 1e-30, pre_training: false }),
            ("predict_batch", NetCmd::PredictBatch(data.iter().map(|d| d.0.clone()).collect())),
        ];
        for (name, cmd) in cmds {
            across_pools(&mut f, rng, &pools, reps, &spec, &cmd, &format!("schedule/{}/subnormal-arithmetic", name), name, "1->1->1 linear network with weights 1e-20, 1e30");
        }
    }
    f
}
