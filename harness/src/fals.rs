//! Records of the model-free falsifiers: one JSON object per line in falsify.jsonl.
//! Passing checks are aggregated per class; failures are written individually (capped).
use std::collections::BTreeMap;

pub struct Fals {
    pass: BTreeMap<String, u64>,
    fail: Vec<(String, String, String)>,
    fail_count: BTreeMap<String, u64>,
}

pub fn jstr(s: &str) -> String {
    let mut o = String::from("\"");
    for c in s.chars() {
        match c {
            '"' => o.push_str("\\\""),
            '\\' => o.push_str("\\\\"),
            '\n' => o.push_str("\\n"),
            c if (c as u32) < 0x20 => o.push(' '),
            c => o.push(c),
        }
    }
    o.push('"');
    o
}

impl Fals {
    pub fn new() -> Self {
        Fals { pass: BTreeMap::new(), fail: vec![], fail_count: BTreeMap::new() }
    }
    /// `key`: the class of the checked input (used to match known findings);
    /// `input`: a self-contained description of the failing input (only built on failure).
    pub fn check(&mut self, key: &str, ok: bool, what: &str, input: impl FnOnce() -> String) {
        if ok {
            *self.pass.entry(key.to_string()).or_insert(0) += 1;
        } else {
            let c = self.fail_count.entry(key.to_string()).or_insert(0);
            *c += 1;
            if *c <= 8 {
                self.fail.push((key.to_string(), what.to_string(), input()));
            }
        }
    }
    pub fn add_pass(&mut self, key: &str, n: u64) {
        *self.pass.entry(key.to_string()).or_insert(0) += n;
    }
    pub fn merge(&mut self, other: Fals) {
        for (k, v) in other.pass {
            *self.pass.entry(k).or_insert(0) += v;
        }
        for (k, v) in other.fail_count {
            *self.fail_count.entry(k).or_insert(0) += v;
        }
        self.fail.extend(other.fail);
    }
    pub fn write(&self, path: &std::path::Path) {
        use std::io::Write;
        let mut f = std::io::BufWriter::new(std::fs::File::create(path).unwrap());
        for (k, n) in &self.pass {
            writeln!(f, "{{\"key\":{},\"ok\":true,\"n\":{}}}", jstr(k), n).unwrap();
        }
        for (k, what, input) in &self.fail {
            writeln!(
                f,
                "{{\"key\":{},\"ok\":false,\"n\":1,\"what\":{},\"input\":{},\"failures_in_class\":{}}}",
                jstr(k),
                jstr(what),
                jstr(input),
                self.fail_count[k]
            )
            .unwrap();
        }
    }
}
