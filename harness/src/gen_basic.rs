//! C18 (generator), C07 (activations), C06 (objectives), C03 (optimizers): tie cases and
//! model-free falsifiers.
use crate::case::Case;
use crate::fals::Fals;
use crate::gen_tensor::Tagged;
use crate::rng::Rng;
use crate::spec::*;
use crate::tok::*;
use neurons::tensor::{Shape, Tensor};
use neurons::{activation, objective, random};
use rayon::prelude::*;
use std::panic::{catch_unwind, AssertUnwindSafe};

pub const LCG_M: u64 = 2147483647;
pub const LCG_A: u64 = 48271;

fn modpow(mut b: u128, mut e: u128, m: u128) -> u128 {
    let mut r = 1u128;
    b %= m;
    while e > 0 {
        if e & 1 == 1 {
            r = r * b % m;
        }
        b = b * b % m;
        e >>= 1;
    }
    r
}
/// the seed whose first step lands on state `c` (1 <= c < m)
pub fn seed_reaching(c: u64, steps: u32) -> u64 {
    let inv = modpow(LCG_A as u128, (LCG_M - 2) as u128, LCG_M as u128);
    let mut s = c as u128;
    for _ in 0..steps {
        s = s * inv % LCG_M as u128;
    }
    s as u64
}

// ------------------------------------------------------------------ C18
pub fn gen_c18(rng: &mut Rng, thorough: bool, release: bool) -> Vec<Tagged> {
    let mut out: Vec<Tagged> = vec![];
    let wrap = release;
    let reps = if thorough { 400 } else { 60 };
    let ranges: [(f32, f32); 8] = [
        (0.0, 1.0),
        (-1.0, 1.0),
        (0.0, 5.0),
        (-3.5, -3.5),
        (1e-3, 1e3),
        (-1e30, 1e30),
        (-0.0016, -5.4e-27),
        (0.25, 0.250001),
    ];
    for i in 0..reps {
        let seed = match i % 6 {
            0 => rng.below(1000) as u64,
            1 => rng.next() % LCG_M,
            2 => seed_reaching(LCG_M - 1 - (rng.below(64) as u64), 1 + (rng.below(3) as u32)), // reaches a top-64 state
            3 => seed_reaching(1 + rng.below(1000) as u64, 1),
            4 => rng.next() % (1u64 << 48),
            _ => rng.next() % LCG_M,
        };
        let (lo, hi) = *rng.pick(&ranges);
        let tagtop = if i % 6 == 2 { "-top64" } else { "" };
        out.push((format!("gen{}", tagtop), Case::RandGen { wrap, seed, n: rng.range(1, 6), lo, hi }));
        out.push((format!("shuffle{}", tagtop), Case::Shuffle { wrap, seed, n: rng.range(0, 40) }));
        if i % 6 == 2 {
            // top states with intervals whose width is inexact in binary32: (max-min)+min can round above max
            for &(lo, hi) in &[(-0.1f32, 0.2f32), (-0.7, 0.1), (0.1, 0.7), (-1e-3, 3e-3)] {
                out.push(("gen-top64-inexact-width".into(), Case::RandGen { wrap, seed, n: 2, lo, hi }));
            }
        }
    }
    // the largest state m-1 (and its neighbours) reached at the first, second and third draw of a shuffle
    for top in 0..3u64 {
        for steps in 1..=3u32 {
            let seed = seed_reaching(LCG_M - 1 - top, steps);
            for n in [1usize, 2, 5, 17] {
                out.push(("shuffle-largest-states".into(), Case::Shuffle { wrap, seed, n }));
            }
            out.push(("gen-largest-states".into(), Case::RandGen { wrap, seed, n: 4, lo: 0.0, hi: 7.0 }));
        }
    }
    // seeds that are multiples of the modulus (state 0: every draw is `min`, the identity shuffle) are as
    // reproducible as any other seed
    for mult in [0u64, 1, 2, 3, 1000, 8589934591, u64::MAX / LCG_M] {
        let seed = mult.wrapping_mul(LCG_M);
        out.push(("gen-seed-multiple-of-modulus".into(), Case::RandGen { wrap, seed, n: 4, lo: -1.0, hi: 1.0 }));
        out.push(("shuffle-seed-multiple-of-modulus".into(), Case::Shuffle { wrap, seed, n: 6 }));
    }
    // intervals whose width overflows binary32 (max - min = +inf), from ordinary states, the largest states and
    // state 0 (seed a multiple of the modulus: the unit draw is exactly 0, and 0 * inf is NaN)
    for &(lo, hi) in &[(f32::MIN, f32::MAX), (-3e38f32, 3e38f32), (-2e38, 1.5e38), (-3.4e38, 1e38), (-1e38, 3.4e38), (f32::MIN, 0.0), (0.0, f32::MAX)] {
        for seed in [0u64, LCG_M, 2 * LCG_M, 1, 12345, seed_reaching(LCG_M - 1, 1), u64::MAX / LCG_M * LCG_M] {
            out.push(("gen-overflowing-width".into(), Case::RandGen { wrap, seed, n: 3, lo, hi }));
        }
    }
    // long shuffles and many draws (beyond 2^10 and 2^16 elements)
    // (the model's shuffle is quadratic in the length: 10^4 is the practical limit of the tie)
    for (k, &n) in [1023usize, 1024, 1025, 2049, 4097, 10001].iter().enumerate() {
        if n > 3000 && !thorough {
            continue;
        }
        let seed = 12345 + k as u64 * 7919;
        out.push(("shuffle-long".into(), Case::Shuffle { wrap, seed, n }));
        out.push(("gen-many-draws".into(), Case::RandGen { wrap, seed, n: n.min(5000), lo: -2.0, hi: 3.0 }));
    }
    // seeds far above the modulus: the first multiplication overflows u64
    for k in 0..(if thorough { 40 } else { 8 }) {
        let seed = match k % 4 {
            0 => u64::MAX - rng.below(1000) as u64,
            1 => (u64::MAX / LCG_A) + 1 + rng.below(1000) as u64,
            2 => u64::MAX / LCG_A - rng.below(3) as u64,
            _ => 400_000_000_000_000 + rng.next() % 1_000_000_007,
        };
        out.push(("gen-bigseed".into(), Case::RandGen { wrap, seed, n: 3, lo: 0.0, hi: 1.0 }));
        out.push(("shuffle-bigseed".into(), Case::Shuffle { wrap, seed, n: 7 }));
    }
    out
}

/// Property-level checks on the implementation alone, over generator STATES (every state is
/// reached by seeding with its modular predecessor).
pub fn fals_c18(rng: &mut Rng, thorough: bool, release: bool) -> Fals {
    let mut states: Vec<u64> = vec![];
    let edge = if thorough { 1u64 << 16 } else { 1u64 << 12 };
    for k in 0..edge {
        states.push(1 + k);
        states.push(LCG_M - 1 - k);
    }
    let n_rand = if thorough { 1u64 << 22 } else { 1u64 << 16 };
    for _ in 0..n_rand {
        states.push(1 + rng.next() % (LCG_M - 1));
    }
    let pairs: Vec<(f32, f32)> = vec![
        (0.0, 1.0),
        (-1.0, 1.0),
        (0.0, 5.0),
        (0.0, 1000.0),
        (-0.0016, -5.4e-27),
        (1e-3, 1e3),
        (-7.25, -7.25),
        (-1e30, 1e30),
        (0.25, 0.250001),
        (3.0, 1e20),
    ];
    let lens: [usize; 5] = [1, 2, 5, 10, 1000];
    let chunks: Vec<Fals> = states
        .par_chunks(4096)
        .map(|chunk| {
            let mut f = Fals::new();
            for &c in chunk {
                let seed = seed_reaching(c, 1);
                let class = if c >= LCG_M - 64 { "lcg/top-64-states" } else { "lcg/state" };
                for &(lo, hi) in &pairs {
                    let mut g = random::Generator::create(seed);
                    let v = g.generate(lo, hi);
                    f.check(class, v >= lo && v <= hi, "generate(min,max) left [min,max]", || {
                        format!("state {} (seed {}), min {:e} ({:#x}), max {:e} ({:#x}) -> {:e}", c, seed, lo, lo.to_bits(), hi, hi.to_bits(), v)
                    });
                }
                // shuffling from exactly this state: no panic, a permutation
                for &len in &lens[..3] {
                    let r = catch_unwind(AssertUnwindSafe(|| {
                        let mut g = random::Generator::create(seed);
                        let mut v: Vec<usize> = (0..len).collect();
                        g.shuffle(&mut v);
                        v
                    }));
                    let ok = match &r {
                        Ok(v) => {
                            let mut s2 = v.clone();
                            s2.sort();
                            s2 == (0..len).collect::<Vec<_>>()
                        }
                        Err(_) => false,
                    };
                    f.check(class, ok, "shuffle panicked or did not return a permutation", || {
                        format!("first state {} (seed {}), length {}", c, seed, len)
                    });
                }
            }
            f
        })
        .collect();
    let mut f = Fals::new();
    chunks.into_iter().for_each(|c| f.merge(c));
    // shuffle: permutation, no panic; pure function of the seed
    let n_sh = if thorough { 20000 } else { 1500 };
    for i in 0..n_sh {
        let (seed, class) = match i % 5 {
            0 => (seed_reaching(LCG_M - 1 - rng.below(64) as u64, 1 + rng.below(4) as u32), "lcg/top-64-states"),
            1 => (u64::MAX / LCG_A + 1 + rng.next() % 1_000_000, "lcg/seed-overflow"),
            2 => (rng.next() | (1 << 63), "lcg/seed-overflow"),
            _ => (rng.next() % LCG_M, "lcg/state"),
        };
        let len = rng.range(0, 60);
        let class = if release && class == "lcg/seed-overflow" { "lcg/state" } else { class };
        let r = catch_unwind(AssertUnwindSafe(|| {
            let mut g = random::Generator::create(seed);
            let mut v: Vec<usize> = (0..len).collect();
            g.shuffle(&mut v);
            let mut g2 = random::Generator::create(seed);
            let mut v2: Vec<usize> = (0..len).collect();
            g2.shuffle(&mut v2);
            (v, v2)
        }));
        match r {
            Err(_) => f.check(class, false, "shuffle panicked", || format!("seed {}, length {}", seed, len)),
            Ok((v, v2)) => {
                let mut s = v.clone();
                s.sort();
                f.check(class, s == (0..len).collect::<Vec<_>>(), "shuffle result is not a permutation", || {
                    format!("seed {}, length {} -> {:?}", seed, len, v)
                });
                f.check(class, v == v2, "shuffle is not a function of the seed", || format!("seed {}, length {}", seed, len));
            }
        }
    }
    // randomly initialised tensors (clock seeded: any of 10^6 seeds) have the requested shape and range
    // every rank; dimensions from 0 (an empty tensor of the requested shape) to beyond 2^10
    let mut shapes: Vec<Shape> = vec![
        Shape::Single(0), Shape::Double(0, 3), Shape::Double(3, 0), Shape::Double(0, 0), Shape::Triple(0, 2, 2), Shape::Triple(2, 0, 2),
        Shape::Triple(2, 2, 0), Shape::Quadruple(0, 1, 2, 2), Shape::Quadruple(2, 0, 2, 2), Shape::Quadruple(2, 1, 0, 2), Shape::Quadruple(2, 1, 2, 0),
        Shape::Single(1100), Shape::Double(1030, 2), Shape::Triple(3, 37, 37), Shape::Quadruple(2, 2, 33, 17),
    ];
    for _ in 0..(if thorough { 400 } else { 60 }) {
        shapes.push(match rng.below(4) {
            0 => Shape::Single(rng.range(0, 30)),
            1 => Shape::Double(rng.range(0, 6), rng.range(0, 6)),
            2 => Shape::Triple(rng.range(0, 4), rng.range(1, 5), rng.range(1, 5)),
            _ => Shape::Quadruple(rng.range(1, 3), rng.range(1, 3), rng.range(1, 4), rng.range(1, 4)),
        });
    }
    // a refused request (shapes reserved for max-pool indices / nested lists) is a panic of THAT call only:
    // the valid requests that follow in the same process must be served as if it had never happened
    for bad in [Shape::Quintuple(1, 1, 1, 1, 1), Shape::Nested(2)] {
        let refused = catch_unwind(AssertUnwindSafe(|| Tensor::random(bad.clone(), 0.0, 1.0))).is_err();
        f.check("random-tensor", refused, "Tensor::random accepted a shape it documents as unsupported", || format!("shape {:?}", bad));
    }
    for s in shapes {
        let (lo, hi) = *rng.pick(&[(0.0f32, 1.0f32), (-1.0, 1.0), (2.0, 2.5), (-3.0, -3.0)]);
        let t = match catch_unwind(AssertUnwindSafe(|| Tensor::random(s.clone(), lo, hi))) {
            Ok(t) => t,
            Err(_) => {
                f.check("random-tensor", false, "Tensor::random panicked", || format!("shape {:?} range [{}, {}]", s, lo, hi));
                continue;
            }
        };
        let v = flat_of(&t);
        // the nested lengths must be the requested dimensions, level by level
        let dims_ok = {
            let mut tok: Tok = vec![];
            enc_tensor_out(&mut tok, &t);
            let mut want: Tok = vec![];
            enc_tensor_out(&mut want, &tensor_of_shape(&s, &v));
            tok == want
        };
        f.check("random-tensor", dims_ok && t.shape == s && v.len() == shape_numel(&s) && v.iter().all(|x| *x >= lo && *x <= hi),
                "Tensor::random shape or range", || format!("shape {:?} range [{}, {}]", s, lo, hi));
    }
    // EXTREME intervals for randomly initialised tensors: widths that overflow binary32 (hi - lo = +inf), intervals
    // next to f32::MAX, of subnormal width, degenerate at values that are no powers of two, far from zero; every rank
    for (k, &(lo, hi)) in [(-3e38f32, 3e38f32), (-f32::MAX, f32::MAX), (-2e38, 2.5e38), (-1e37, f32::MAX), (3.3e38, f32::MAX), (-f32::MAX, -3.3e38),
                           (0.0, 1e-45), (-1e-40, 1e-40), (0.1, 0.1), (0.7, 0.7), (0.1, 0.3), (1000.0, 1001.0), (-1001.0, -1000.0), (1.5, 1.75), (1e30, 1.0000001e30)].iter().enumerate() {
        for (r, s) in [Shape::Single(7), Shape::Double(3, 5), Shape::Triple(2, 3, 4), Shape::Quadruple(2, 2, 2, 3), Shape::Single(300)].iter().enumerate() {
            if !(thorough || (k + r) % 2 == 0) {
                continue;
            }
            for _rep in 0..(if thorough { 6 } else { 2 }) {
                match catch_unwind(AssertUnwindSafe(|| Tensor::random(s.clone(), lo, hi))) {
                    Ok(t) => {
                        let v = flat_of(&t);
                        f.check("random-tensor/extreme-interval", t.shape == *s && v.len() == shape_numel(s) && v.iter().all(|x| *x >= lo && *x <= hi),
                                "an entry of a randomly initialised tensor lies outside the requested interval", || {
                                    let bad = v.iter().find(|x| !(**x >= lo && **x <= hi)).cloned().unwrap_or(f32::NAN);
                                    format!("Tensor::random({:?}, {:e}, {:e}): entry {:e}", s, lo, hi, bad)
                                });
                    }
                    Err(_) => f.check("random-tensor/extreme-interval", false, "Tensor::random panicked", || format!("shape {:?} range [{:e}, {:e}]", s, lo, hi)),
                }
            }
        }
    }
    f
}

// ------------------------------------------------------------------ C07
fn strat_floats(rng: &mut Rng, n: usize) -> Vec<f32> {
    let mut v: Vec<f32> = vec![0.0, -0.0, 1.0, -1.0, f32::MIN_POSITIVE, -f32::MIN_POSITIVE, 1e-45, -1e-45, f32::MAX, f32::MIN,
                               88.72283, 88.72284, -88.72284, 89.0, -103.97, -104.0, 44.36, -44.36, 9.01, -9.01, 16.6, 17.0, 0.5, -0.5];
    while v.len() < n {
        v.push(match rng.below(4) {
            0 => rng.finite_bits(),
            1 => rng.moderate(),
            2 => (rng.sym()) * 100.0,
            _ => rng.dyadic(),
        });
    }
    v
}

pub fn gen_c07(rng: &mut Rng, thorough: bool) -> Vec<Tagged> {
    let mut out: Vec<Tagged> = vec![];
    let reps = if thorough { 40 } else { 5 };
    for a in ALL_ACTS {
        for _ in 0..reps {
            for bwd in [false, true] {
                let n = rng.range(1, 24);
                let xs = strat_floats(rng, 0);
                let v: Vec<f32> = (0..n).map(|_| if rng.chance(1, 3) { *rng.pick(&xs) } else { strat_floats(rng, 25)[24] }).collect();
                let v = if a == Act::Softmax && rng.coin() { v.iter().map(|x| x.clamp(-3e38, 3e38)).collect() } else { v };
                out.push((format!("{:?}-{}-flat", a, if bwd { "bwd" } else { "fwd" }), Case::Act(a, bwd, t1(v))));
                let (c, h, w) = (rng.range(1, 3), rng.range(1, 3), rng.range(1, 4));
                let v3: Vec<f32> = (0..c * h * w).map(|_| if rng.coin() { rng.sym() * 8.0 } else { rng.finite_bits() }).collect();
                out.push((format!("{:?}-{}-3d", a, if bwd { "bwd" } else { "fwd" }), Case::Act(a, bwd, t3(c, h, w, &v3))));
            }
        }
        // unsupported rank is refused
        out.push((format!("{:?}-rank2-bad", a), Case::Act(a, false, t2(2, 2, &rng.vec(4, 1)))));
    }
    // soft-max streams: all negative (small and huge), all positive huge, mixed, constant, single
    for r in 0..(if thorough { 200 } else { 30 }) {
        let n = rng.range(1, 12);
        let scale = *rng.pick(&[1.0f32, 10.0, 90.0, 200.0, 1e4, 1e20, 3e38]);
        let v: Vec<f32> = match r % 5 {
            0 => (0..n).map(|_| -(rng.unit() + 0.01) * scale).collect(),
            1 => (0..n).map(|_| (rng.unit() + 0.01) * scale).collect(),
            2 => (0..n).map(|_| rng.sym() * scale).collect(),
            3 => vec![-(rng.unit() + 0.5) * scale; n],
            _ => (0..n).map(|i| if i == 0 { -scale } else { -scale * 0.999 }).collect(),
        };
        for bwd in [false, true] {
            out.push((format!("Softmax-stream{}-{}", r % 5, if bwd { "bwd" } else { "fwd" }), Case::Act(Act::Softmax, bwd, t1(v.clone()))));
        }
    }
    // long inputs: lengths around the powers of two up to 1025 (block / lane / chunk sizes of any
    // vectorised or blocked rewrite), flat and 3-D, every activation; for soft-max the largest logit sits on
    // the last index of a block (255, 511, ...) in half of the cases
    for (k, &n) in [63usize, 64, 65, 127, 128, 129, 255, 256, 257, 300, 511, 512, 513, 1023, 1024, 1025].iter().enumerate() {
        for a in ALL_ACTS {
            if !(thorough || a == Act::Softmax || (k + a as usize) % 4 == 0) {
                continue;
            }
            let mut v: Vec<f32> = (0..n).map(|_| rng.sym() * 3.0).collect();
            if k % 2 == 1 {
                let peak = if n >= 256 { (n / 256) * 256 - 1 } else { n - 1 };
                v[peak] = 9.0;
            }
            for bwd in [false, true] {
                if bwd && n > 300 && !(thorough && a != Act::Softmax) {
                    continue;
                }
                out.push((format!("{:?}-long-{}", a, if bwd { "bwd" } else { "fwd" }), Case::Act(a, bwd, t1(v.clone()))));
            }
            let (c, h, w) = match n { 255 | 256 => (4, 8, 8), 257 | 300 => (3, 10, 10), 511 | 512 | 513 => (2, 16, 17), 1023 | 1024 | 1025 => (5, 15, 14), _ => (1, 1, n) };
            let mut v3: Vec<f32> = (0..c * h * w).map(|_| rng.sym() * 3.0).collect();
            if c * h * w > 255 {
                v3[255] = 7.5;
            }
            out.push((format!("{:?}-long-3d-fwd", a), Case::Act(a, false, t3(c, h, w, &v3))));
        }
    }
    // huge inputs: more than 2^13, 2^14 and 2^16 elements (the sizes at which a parallel or blocked fast path of
    // an element-wise map would switch on), 3-D with height != width (a transposed rebuild would show) and
    // flat, every activation, forward and backward
    for (k, &(c, h, w)) in [(2usize, 48usize, 96usize), (1, 100, 180), (3, 150, 147), (1, 1, 8193), (1, 129, 127)].iter().enumerate() {
        for (ai, a) in ALL_ACTS.into_iter().enumerate() {
            if !(thorough || k == 0 || (k + ai) % 5 == 0) {
                continue;
            }
            let n = c * h * w;
            let v3: Vec<f32> = (0..n).map(|i| ((i * 37 + k) % 1013) as f32 * 0.01 - 5.0 + if i % 97 == 0 { rng.sym() } else { 0.0 }).collect();
            for bwd in [false, true] {
                if bwd && a == Act::Softmax {
                    continue;
                }
                out.push((format!("{:?}-huge-3d-{}", a, if bwd { "bwd" } else { "fwd" }), Case::Act(a, bwd, t3(c, h, w, &v3))));
                if k % 2 == 0 {
                    out.push((format!("{:?}-huge-flat-{}", a, if bwd { "bwd" } else { "fwd" }), Case::Act(a, bwd, t1(v3.clone()))));
                }
            }
        }
    }
    // 3-D tensors in which a WHOLE channel is zero (+0.0 or -0.0), a whole channel is one constant, the whole tensor
    // is zero, and 1 x 1 x 1 tensors: every element is mapped on its own, whatever its neighbours are
    for a in ALL_ACTS {
        let cases: Vec<Tensor> = vec![
            t3(2, 2, 2, &[0.0, 0.0, 0.0, 0.0, 0.5, -1.5, 2.0, 0.0]),
            t3(2, 2, 2, &[1.0, -2.0, 0.0, 3.0, -0.0, -0.0, -0.0, -0.0]),
            t3(3, 1, 2, &[0.0, -0.0, 0.0, 0.0, -0.0, 0.0]),
            t3(2, 1, 3, &[2.5, 2.5, 2.5, -1.0, -1.0, -1.0]),
            t3(1, 1, 1, &[0.0]), t3(1, 1, 1, &[-0.0]), t3(1, 1, 1, &[-3.0]), t3(1, 2, 1, &[0.0, 0.0]),
            t1(vec![0.0, 0.0, 0.0]), t1(vec![-0.0]), t1(vec![0.0]),
        ];
        for x in cases {
            for bwd in [false, true] {
                out.push((format!("{:?}-whole-channel-zero-or-constant-{}", a, if bwd { "bwd" } else { "fwd" }), Case::Act(a, bwd, x.clone())));
            }
        }
    }
    // boundary vector through every element-wise activation
    let edge = strat_floats(rng, 0);
    for a in ALL_ACTS {
        for bwd in [false, true] {
            out.push((format!("{:?}-edge", a), Case::Act(a, bwd, t1(edge.clone()))));
            // the same boundary values through the 3-D copy of every activation (the two rank copies are
            // separate code), as a (2, 2, k) tensor
            let k = edge.len() / 4;
            if k > 0 {
                out.push((format!("{:?}-edge-3d", a), Case::Act(a, bwd, t3(2, 2, k, &edge[..4 * k]))));
            }
        }
    }
    out
}

fn act_fn(a: Act) -> activation::Function {
    activation::Function::create(&a.to())
}

pub fn fals_c07(rng: &mut Rng, thorough: bool) -> Fals {
    // element-wise activations over bit patterns: stratified in quick, strided/exhaustive in thorough
    let stride: u64 = if thorough { 16 } else { 4096 };
    let offset = rng.next() % stride;
    let acts = [Act::ReLU, Act::Leaky, Act::Sigmoid, Act::Tanh, Act::Linear];
    let blocks: Vec<u64> = (0..(1u64 << 32) / (stride * 1024)).collect();
    let parts: Vec<Fals> = blocks
        .par_iter()
        .map(|b| {
            let mut f = Fals::new();
            let xs: Vec<f32> = (0..1024u64)
                .map(|k| f32::from_bits(((b * 1024 + k) * stride + offset) as u32))
                .filter(|x| x.is_finite())
                .collect();
            if xs.is_empty() {
                return f;
            }
            // hypothesis exp_ok of Theory/C07F32.v about the platform's expf, on the same strata
            // (non-NaN inputs, both signs): +infinity or a finite non-negative value
            for &x in &xs {
                for v in [x, -x] {
                    let e = v.exp();
                    f.check("libm/expf-ok", !e.is_nan() && (e == f32::INFINITY || (e.is_finite() && e >= 0.0)),
                            "expf returned NaN or a negative / -inf value on a non-NaN input (hypothesis exp_ok of the sigmoid range theorem)",
                            || format!("expf({:e}) = {:e}", v, e));
                }
            }
            let t = t1(xs.clone());
            for a in acts {
                let fun = act_fn(a);
                let y = flat_of(&fun.forward(&t));
                let d = flat_of(&fun.backward(&t));
                let key = format!("act/{:?}", a);
                for i in 0..xs.len() {
                    let x = xs[i];
                    let (yr, dr, ytol, dtol): (f64, f64, f64, f64) = match a {
                        Act::ReLU => (if x > 0.0 { x as f64 } else { 0.0 }, if x > 0.0 { 1.0 } else { 0.0 }, 0.0, 0.0),
                        Act::Leaky => (if x > 0.0 { x as f64 } else { (0.01f32 * x) as f64 }, if x > 0.0 { 1.0 } else { 0.01f32 as f64 }, 0.0, 0.0),
                        Act::Sigmoid => {
                            let s = 1.0 / (1.0 + (-(x as f64)).exp());
                            (s, s * (1.0 - s), 2e-7, 2e-7)
                        }
                        Act::Tanh => {
                            let th = (x as f64).tanh();
                            (th, 1.0 - th * th, 3e-7, 1e-6)
                        }
                        _ => (x as f64, 1.0, 0.0, 0.0),
                    };
                    let okf = y[i].is_finite() && (y[i] as f64 - yr).abs() <= ytol + 1e-6 * yr.abs() * (ytol > 0.0) as u8 as f64;
                    let okd = d[i].is_finite() && (d[i] as f64 - dr).abs() <= dtol;
                    let okr = match a {
                        Act::Sigmoid => y[i] >= 0.0 && y[i] <= 1.0,
                        Act::Tanh => y[i] >= -1.0 && y[i] <= 1.0,
                        _ => true,
                    };
                    f.check(&key, okf && okd && okr, "activation forward/backward differs from its definition, is not finite, or leaves its range", || {
                        format!("{:?} x={:e} ({:#010x}): forward {:e} (expected {:e}), backward {:e} (expected {:e})", a, x, x.to_bits(), y[i], yr, d[i], dr)
                    });
                }
            }
            f
        })
        .collect();
    let mut f = Fals::new();
    parts.into_iter().for_each(|p| f.merge(p));
    // soft-max: non-negative, sums to one, shift invariant, finite for huge finite inputs; shapes
    let sm = act_fn(Act::Softmax);
    for i in 0..(if thorough { 20000 } else { 2000 }) {
        let n = rng.range(1, 40);
        let scale = *rng.pick(&[1.0f32, 10.0, 100.0, 1e4, 1e20, 3e38]);
        let z: Vec<f32> = (0..n).map(|_| (rng.sym() * scale).clamp(-3.4e38, 3.4e38)).collect();
        let p = flat_of(&sm.forward(&t1(z.clone())));
        let s: f64 = p.iter().map(|x| *x as f64).sum();
        f.check("act/Softmax", p.len() == n && p.iter().all(|x| x.is_finite() && *x >= 0.0 && *x <= 1.0) && (s - 1.0).abs() < 1e-5,
                "soft-max not a finite probability vector", || format!("z={:?} -> {:?} (sum {})", z, p, s));
        if scale <= 100.0 {
            let c = rng.sym() * 50.0;
            let zc: Vec<f32> = z.iter().map(|x| x + c).collect();
            // exact shift of the inputs that were exactly shifted
            let z2: Vec<f32> = zc.iter().map(|x| x - c).collect();
            let p1 = flat_of(&sm.forward(&t1(z2)));
            let p2 = flat_of(&sm.forward(&t1(zc.clone())));
            let ok = p1.iter().zip(p2.iter()).all(|(a, b)| (a - b).abs() <= 2e-5);
            f.check("act/Softmax", ok, "soft-max not invariant under a constant shift", || format!("z={:?} c={}", z, c));
        }
        if i % 50 == 0 {
            let (c, h, w) = (rng.range(1, 3), rng.range(1, 3), rng.range(1, 4));
            let x = t3(c, h, w, &rng.vec(c * h * w, 2));
            for a in ALL_ACTS {
                let fun = act_fn(a);
                f.check("act/shape", fun.forward(&x).shape == x.shape && fun.backward(&x).shape == x.shape,
                        "activation changed the shape", || format!("{:?} on {:?}", a, x.shape));
            }
        }
    }
    f
}

// ------------------------------------------------------------------ C06
fn obj_inputs(rng: &mut Rng, o: Obj, n: usize, stream: usize) -> (Vec<f32>, Vec<f32>) {
    let prob = matches!(o, Obj::CE | Obj::BCE | Obj::KL);
    let mut p = vec![];
    let mut t = vec![];
    for _ in 0..n {
        let (pi, ti) = if prob {
            match stream {
                0 => (rng.unit() * 0.98 + 0.01, rng.unit() * 0.98 + 0.01),
                1 => (*rng.pick(&[0.0f32, 1.0, 0.5, 1e-7, 0.9999999]), *rng.pick(&[0.0f32, 1.0, 0.5, 0.25])),
                2 => { let x = rng.unit(); (x, x) }
                3 => (rng.sym() * 2.0, rng.unit()),
                _ => (rng.unit(), if rng.coin() { 1.0 } else { 0.0 }),
            }
        } else {
            match stream {
                0 => (rng.sym() * 4.0, rng.sym() * 4.0),
                1 => (rng.dyadic(), rng.dyadic()),
                2 => { let x = rng.dyadic(); (x, x) }
                3 => (rng.moderate(), rng.moderate()),
                _ => (rng.sym() * 1e-20, rng.sym() * 1e-20),
            }
        };
        p.push(pi);
        t.push(ti);
    }
    (p, t)
}

fn rand_clamp(rng: &mut Rng) -> Option<(f32, f32)> {
    match rng.below(10) {
        0 | 1 | 2 => None,
        3 => Some((-1.0, 1.0)),
        4 => Some((-0.25, 3.0)),
        5 => Some((0.5, 0.5)),
        // one-sided and unbounded intervals, tiny and asymmetric ones
        6 => Some((f32::NEG_INFINITY, 0.1)),
        7 => Some((-0.05, f32::INFINITY)),
        8 => Some((f32::NEG_INFINITY, f32::INFINITY)),
        _ => Some((-1e-6, 2e-6)),
    }
}

pub fn gen_c06(rng: &mut Rng, thorough: bool) -> Vec<Tagged> {
    let mut out: Vec<Tagged> = vec![];
    let reps = if thorough { 60 } else { 6 };
    for o in ALL_OBJS {
        for _ in 0..reps {
            for stream in 0..5 {
                let cl = rand_clamp(rng);
                let n = rng.range(1, 24);
                let (p, t) = obj_inputs(rng, o, n, stream);
                out.push((format!("{:?}-flat-s{}", o, stream), Case::Obj(o, cl, t1(p), t1(t))));
                let (c, h, w) = (rng.range(1, 3), rng.range(1, 3), rng.range(1, 4));
                let (p, t) = obj_inputs(rng, o, c * h * w, stream);
                out.push((format!("{:?}-3d-s{}", o, stream), Case::Obj(o, cl, t3(c, h, w, &p), t3(c, h, w, &t))));
            }
        }
        out.push((format!("{:?}-rank-mismatch", o), Case::Obj(o, None, t1(rng.vec(4, 2)), t3(1, 2, 2, &rng.vec(4, 2)))));
        // long vectors / large tensors (beyond 2^8, 2^10, 2^16 elements): every component still enters
        // the loss and receives its gradient
        let longs: &[(usize, usize, usize)] = if thorough { &[(1, 1, 257), (1, 1, 1100), (3, 20, 20), (1, 1, 66000), (3, 150, 150)] } else { &[(1, 1, 300), (1, 1, 1100), (3, 37, 37)] };
        for (k, &(c, h, w)) in longs.iter().enumerate() {
            let n = c * h * w;
            let stream = k % 3;
            let (pv, tv) = obj_inputs(rng, o, n, stream);
            let cl = if k % 2 == 0 { None } else { rand_clamp(rng) };
            out.push((format!("{:?}-long-flat", o), Case::Obj(o, cl, t1(pv.clone()), t1(tv.clone()))));
            if c > 1 {
                out.push((format!("{:?}-long-3d", o), Case::Obj(o, cl, t3(c, h, w, &pv), t3(c, h, w, &tv))));
            }
        }
    }
    out
}

fn obj_ref(o: Obj, p: &[f32], t: &[f32]) -> (f64, Vec<f64>) {
    let n = t.len() as f64;
    let eps = 1e-6f32 as f64;
    let hi = (1.0f32 - 1e-6f32) as f64;
    let cl = |x: f32| (x as f64).max(eps).min(hi);
    let sign = |a: f64, q: f64| if a == q { 0.0 } else if a > q { -1.0 } else { 1.0 };
    match o {
        Obj::AE => (t.iter().zip(p).map(|(a, q)| (*a as f64 - *q as f64).abs()).sum(), t.iter().zip(p).map(|(a, q)| sign(*a as f64, *q as f64)).collect()),
        Obj::MAE => (t.iter().zip(p).map(|(a, q)| (*a as f64 - *q as f64).abs()).sum::<f64>() / n, t.iter().zip(p).map(|(a, q)| sign(*a as f64, *q as f64)).collect()),
        Obj::MSE => (t.iter().zip(p).map(|(a, q)| (*a as f64 - *q as f64).powi(2)).sum::<f64>() / n, t.iter().zip(p).map(|(a, q)| -2.0 * (*a as f64 - *q as f64) / n).collect()),
        Obj::RMSE => ((t.iter().zip(p).map(|(a, q)| (*a as f64 - *q as f64).powi(2)).sum::<f64>() / n).sqrt(),
                      t.iter().zip(p).map(|(a, q)| if a == q { 0.0 } else { sign(*a as f64, *q as f64) / n }).collect()),
        Obj::CE => (-t.iter().zip(p).map(|(a, q)| *a as f64 * cl(*q).ln()).sum::<f64>(), t.iter().zip(p).map(|(a, q)| *q as f64 - *a as f64).collect()),
        Obj::BCE => (-t.iter().zip(p).map(|(a, q)| *a as f64 * cl(*q).ln() + (1.0 - *a as f64) * (1.0 - cl(*q)).ln()).sum::<f64>(),
                     t.iter().zip(p).map(|(a, q)| (cl(*q) - *a as f64) / (cl(*q) * (1.0 - cl(*q)))).collect()),
        Obj::KL => (t.iter().zip(p).map(|(a, q)| if *a == 0.0 { 0.0 } else { *a as f64 * (*a as f64 / cl(*q)).ln() }).sum::<f64>(),
                    t.iter().zip(p).map(|(a, q)| -(*a as f64) / cl(*q)).collect()),
    }
}

pub fn fals_c06(rng: &mut Rng, thorough: bool) -> Fals {
    let mut f = Fals::new();
    let reps = if thorough { 4000 } else { 400 };
    for o in ALL_OBJS {
        for i in 0..reps {
            let stream = i % 5;
            let n = rng.range(1, 16);
            let (p, t) = obj_inputs(rng, o, n, stream);
            let in_domain = !matches!(o, Obj::CE | Obj::BCE | Obj::KL) || stream != 3;
            let fun = objective::Function::create(o.to(), None);
            let (l, g) = fun.loss(&t1(p.clone()), &t1(t.clone()));
            let (lr, gr) = obj_ref(o, &p, &t);
            let class = if o == Obj::KL && t.iter().any(|x| *x == 0.0) { "kl/target==0".to_string() } else { format!("objective/{:?}", o) };
            let gv = flat_of(&g);
            if in_domain && stream != 4 && stream != 3 {
                let scale = 1.0 + lr.abs();
                f.check(&class, (l as f64 - lr).abs() <= 2e-4 * scale || (!lr.is_finite()), "loss differs from the documented formula", || {
                    format!("{:?} p={:?} t={:?}: loss {:e}, formula {:e}", o, p, t, l, lr)
                });
                let okg = gv.len() == n && gv.iter().zip(gr.iter()).all(|(a, b)| (*a as f64 - b).abs() <= 2e-4 * (1.0 + b.abs()) || !b.is_finite());
                f.check(&class, okg, "gradient differs from the documented formula", || format!("{:?} p={:?} t={:?}: {:?} vs {:?}", o, p, t, gv, gr));
            }
            if in_domain && stream != 3 {
                f.check(&class, l.is_finite(), "loss is not finite on finite in-domain inputs", || format!("{:?} p={:?} t={:?}: loss {:?}", o, p, t, l));
            }
            // clamp: each component is the unclamped one limited to the interval (bit-exact)
            if let Some((lo, hi)) = rand_clamp(rng) {
                let (l2, g2) = objective::Function::create(o.to(), Some((lo, hi))).loss(&t1(p.clone()), &t1(t.clone()));
                let g2 = flat_of(&g2);
                let ok = (l2.to_bits() == l.to_bits() || (l.is_nan() && l2.is_nan()))
                    && g2.iter().zip(gv.iter()).all(|(c, u)| (u.is_nan() && c.is_nan()) || c.to_bits() == (if *u < lo { lo } else if *u > hi { hi } else { *u }).to_bits());
                f.check(&class, ok, "clamped gradient is not the unclamped one limited to the interval", || format!("{:?} clamp ({},{}) p={:?} t={:?}", o, lo, hi, p, t));
            }
            // rank independence: the 3-D arm gives the same numbers
            if n % 2 == 0 {
                let (l3, g3) = fun.loss(&t3(1, 2, n / 2, &p), &t3(1, 2, n / 2, &t));
                let same = (l3.to_bits() == l.to_bits() || (l.is_nan() && l3.is_nan()))
                    && flat_of(&g3).iter().zip(gv.iter()).all(|(a, b)| a.to_bits() == b.to_bits() || (a.is_nan() && b.is_nan()))
                    && g3.shape == Shape::Triple(1, 2, n / 2);
                f.check(&class, same, "3-D arm differs from the flat arm or the gradient shape is wrong", || format!("{:?} p={:?} t={:?}", o, p, t));
            }
            // derivative objectives: central difference of the reported loss (f64 reference loss of the formula)
            if matches!(o, Obj::AE | Obj::MSE | Obj::BCE | Obj::KL) && stream == 0 {
                let k = rng.below(n);
                let safe = match o {
                    Obj::AE => (p[k] - t[k]).abs() > 0.05,
                    Obj::BCE | Obj::KL => p[k] > 0.02 && p[k] < 0.98,
                    _ => true,
                };
                if safe {
                    let h = 1e-3f32;
                    let mut pp = p.clone();
                    pp[k] = p[k] + h;
                    let mut pm = p.clone();
                    pm[k] = p[k] - h;
                    let lp = fun.loss(&t1(pp.clone()), &t1(t.clone())).0 as f64;
                    let lm = fun.loss(&t1(pm.clone()), &t1(t.clone())).0 as f64;
                    let fd = (lp - lm) / ((pp[k] - pm[k]) as f64);
                    let ok = (fd - gv[k] as f64).abs() <= 2e-2 * (1.0 + fd.abs().max(gv[k].abs() as f64));
                    f.check(&class, ok, "gradient is not the derivative of the reported loss", || {
                        format!("{:?} p={:?} t={:?} component {}: gradient {:e}, difference quotient {:e}", o, p, t, k, gv[k], fd)
                    });
                }
            }
        }
    }
    f
}

// ------------------------------------------------------------------ C03
pub fn rand_opt(rng: &mut Rng, kind: usize) -> Opt {
    let lr = *rng.pick(&[0.1f32, 0.01, 0.001, 0.5]);
    let decay = if rng.coin() { Some(*rng.pick(&[0.01f32, 0.1])) } else { None };
    match kind {
        0 => Opt::SGD { lr, decay },
        1 => Opt::SGDM { lr, momentum: *rng.pick(&[0.9f32, 0.5, 0.0]), dampening: *rng.pick(&[0.0f32, 0.1, 0.5]), decay },
        2 => Opt::Adam { lr, b1: *rng.pick(&[0.9f32, 0.8, 0.0]), b2: *rng.pick(&[0.999f32, 0.99, 0.0]), eps: *rng.pick(&[1e-8f32, 1e-6, 0.0]), decay },
        3 => Opt::AdamW { lr, b1: *rng.pick(&[0.9f32, 0.8]), b2: *rng.pick(&[0.999f32, 0.99]), eps: *rng.pick(&[1e-8f32, 1e-6]), decay: *rng.pick(&[0.01f32, 0.1, 0.0]) },
        _ => Opt::RMS { lr, alpha: *rng.pick(&[0.99f32, 0.9, 0.0]), eps: *rng.pick(&[1e-8f32, 1e-6]), decay,
                        momentum: if rng.coin() { Some(*rng.pick(&[0.9f32, 0.5, 0.0])) } else { None }, centered: rng.coin() },
    }
}

fn grad_stream(rng: &mut Rng, kind: usize, step: usize, n: usize) -> Vec<f32> {
    match kind {
        0 => (0..n).map(|_| rng.sym()).collect(),
        1 => vec![0.5; n],
        2 => (0..n).map(|_| if rng.chance(1, 4) { rng.sym() } else { 0.0 }).collect(),
        3 => (0..n).map(|i| if (step + i) % 2 == 0 { 0.75 } else { -0.75 }).collect(),
        4 => (0..n).map(|_| rng.sym() * 1e-30).collect(),
        _ => (0..n).map(|_| rng.sym() * 1e18).collect(),
    }
}

pub fn gen_c03(rng: &mut Rng, thorough: bool) -> Vec<Tagged> {
    let mut out: Vec<Tagged> = vec![];
    let reps = if thorough { 120 } else { 14 };
    for kind in 0..5 {
        for r in 0..reps {
            let opt = rand_opt(rng, kind);
            // slots: [layer][filter][bias]; a dense-like layer has [w, b], a conv-like layer one entry per filter
            let nl = rng.range(1, 3);
            let mut vals: Vec<Vec<Vec<Tensor>>> = vec![];
            for _ in 0..nl {
                if rng.coin() {
                    let (o, i) = (rng.range(1, 3), rng.range(1, 4));
                    vals.push(vec![vec![t2(o, i, &rng.vec(o * i, 2)), t1(rng.vec(o, 2))]]);
                } else {
                    let nf = rng.range(1, 3);
                    let (c, h, w) = (rng.range(1, 2), rng.range(1, 3), rng.range(1, 3));
                    vals.push((0..nf).map(|_| vec![t3(c, h, w, &rng.vec(c * h * w, 2))]).collect());
                }
            }
            let nsteps = rng.range(1, if thorough { 30 } else { 12 });
            let gk = r % 6;
            let mut steps = vec![];
            let mut stepnr = 1i32;
            for s in 0..nsteps {
                let l = rng.below(vals.len());
                let fi = rng.below(vals[l].len());
                let b = vals[l][fi].len() > 1 && rng.coin();
                let shape = vals[l][fi][b as usize].shape.clone();
                let g = tensor_of_shape(&shape, &grad_stream(rng, gk, s, shape_numel(&shape)));
                steps.push((l, fi, b, stepnr, g));
                if rng.chance(2, 3) {
                    stepnr += 1;
                } else if rng.chance(1, 6) {
                    stepnr = rng.range(1, 40) as i32;
                }
            }
            out.push((format!("{}-g{}", opt.kind(), gk), Case::OptHistory { opt, vals, steps }));
        }
    }
    // every option combination of every optimizer on every rank, 3 steps (step numbers 1, 2, 5)
    let some_none = [None, Some(0.05f32)];
    let mut combos: Vec<Opt> = vec![];
    for d in some_none {
        combos.push(Opt::SGD { lr: 0.1, decay: d });
        for mo in [0.9f32, 0.0] {
            for da in [0.0f32, 0.25] {
                combos.push(Opt::SGDM { lr: 0.1, momentum: mo, dampening: da, decay: d });
            }
        }
        combos.push(Opt::Adam { lr: 0.01, b1: 0.9, b2: 0.999, eps: 1e-8, decay: d });
        for mo in [None, Some(0.9f32)] {
            for c in [false, true] {
                combos.push(Opt::RMS { lr: 0.01, alpha: 0.9, eps: 1e-8, decay: d, momentum: mo, centered: c });
            }
        }
    }
    combos.push(Opt::AdamW { lr: 0.01, b1: 0.9, b2: 0.999, eps: 1e-8, decay: 0.01 });
    combos.push(Opt::AdamW { lr: 0.01, b1: 0.9, b2: 0.999, eps: 1e-8, decay: 0.0 });
    for opt in combos {
        for rank in 1..=3usize {
            let shape = match rank { 1 => Shape::Single(4), 2 => Shape::Double(2, 2), _ => Shape::Triple(1, 2, 2) };
            let w = tensor_of_shape(&shape, &rng.vec(4, 2));
            let steps: Vec<(usize, usize, bool, i32, Tensor)> = [1, 2, 5].iter().map(|s| (0usize, 0usize, false, *s, tensor_of_shape(&shape, &rng.vec(4, 2)))).collect();
            out.push((format!("{}-combo-rank{}", opt.kind(), rank), Case::OptHistory { opt: opt.clone(), vals: vec![vec![vec![w]]], steps }));
        }
    }
    // large extents on every rank (beyond any block / lane size, not multiples of 8/32/64), every
    // optimizer kind; histories whose gradient is exactly zero on the first steps (state stays 0) and
    // whose first call already has a step number > 1; huge step numbers
    for kind in 0..5 {
        // beyond 2^10 and 2^16 elements
        for (ri, shape) in [Shape::Single(1100), Shape::Double(1030, 2), Shape::Triple(3, 37, 37), Shape::Single(66000)].iter().enumerate() {
            if ri == 3 && !thorough {
                continue;
            }
            let opt = rand_opt(rng, kind);
            let n = shape_numel(shape);
            let w = tensor_of_shape(shape, &rng.vec(n, 2));
            let steps: Vec<(usize, usize, bool, i32, Tensor)> = [1, 2].iter().map(|s| (0usize, 0usize, false, *s, tensor_of_shape(shape, &rng.vec(n, 2)))).collect();
            out.push((format!("{}-huge-rank{}", opt.kind(), ri + 1), Case::OptHistory { opt, vals: vec![vec![vec![w]]], steps }));
        }
        for (ri, shape) in [Shape::Single(257), Shape::Double(130, 3), Shape::Triple(33, 2, 3)].iter().enumerate() {
            let opt = rand_opt(rng, kind);
            let n = shape_numel(shape);
            let w = tensor_of_shape(shape, &rng.vec(n, 2));
            let steps: Vec<(usize, usize, bool, i32, Tensor)> = [1, 2, 3].iter().map(|s| (0usize, 0usize, false, *s, tensor_of_shape(shape, &rng.vec(n, 2)))).collect();
            out.push((format!("{}-large-rank{}", opt.kind(), ri + 1), Case::OptHistory { opt, vals: vec![vec![vec![w]]], steps }));
        }
        for variant in 0..3 {
            let opt = match kind {
                1 => Opt::SGDM { lr: 0.1, momentum: 0.9, dampening: *rng.pick(&[0.25f32, 0.5]), decay: None },
                k => rand_opt(rng, k),
            };
            let shape = [Shape::Single(4), Shape::Double(2, 2), Shape::Triple(1, 2, 2)][variant].clone();
            let w = tensor_of_shape(&shape, &rng.vec(4, 2));
            let zero = tensor_of_shape(&shape, &[0.0, 0.0, 0.0, 0.0]);
            let sparse = tensor_of_shape(&shape, &[0.0, 0.5, 0.0, -0.25]);
            let dense = tensor_of_shape(&shape, &rng.vec(4, 2));
            let steps = vec![
                (0usize, 0usize, false, 1, zero.clone()), (0, 0, false, 2, sparse.clone()), (0, 0, false, 3, dense.clone()),
                (0, 0, false, 3, zero), (0, 0, false, 1000, sparse), (0, 0, false, 100000, dense),
            ];
            out.push((format!("{}-zero-then-nonzero-rank{}", opt.kind(), variant + 1), Case::OptHistory { opt: opt.clone(), vals: vec![vec![vec![w.clone()]]], steps }));
            // fresh state, first call with step number 7
            let g = tensor_of_shape(&shape, &rng.vec(4, 2));
            out.push((format!("{}-first-call-step7-rank{}", opt.kind(), variant + 1), Case::OptHistory { opt, vals: vec![vec![vec![w]]], steps: vec![(0, 0, false, 7, g.clone()), (0, 0, false, 8, g)] }));
        }
    }
    // extreme but valid hyper-parameters: tiny (below f32::EPSILON, denormal), huge, negative zero; each is
    // used as given (only an exact 0.0 selects the documented default); tiny gradients so that eps matters
    {
        let tiny = [5e-8f32, 1e-10, 1e-20, 1e-40, 1.1920929e-7, 1e-7];
        let mut hp: Vec<Opt> = vec![];
        for (k, &v) in tiny.iter().enumerate() {
            hp.push(Opt::SGD { lr: v, decay: if k % 2 == 0 { None } else { Some(v) } });
            hp.push(Opt::SGDM { lr: v, momentum: 0.9, dampening: 0.0, decay: None });
            hp.push(Opt::SGDM { lr: 0.1, momentum: v, dampening: v, decay: Some(v) });
            hp.push(Opt::Adam { lr: v, b1: 0.9, b2: 0.999, eps: 1e-8, decay: None });
            hp.push(Opt::Adam { lr: 0.01, b1: v, b2: v, eps: v, decay: Some(v) });
            hp.push(Opt::AdamW { lr: v, b1: 0.9, b2: 0.999, eps: v, decay: v });
            hp.push(Opt::AdamW { lr: 0.01, b1: v, b2: 0.999, eps: 1e-8, decay: 0.01 });
            hp.push(Opt::RMS { lr: v, alpha: 0.9, eps: v, decay: None, momentum: None, centered: k % 2 == 0 });
            hp.push(Opt::RMS { lr: 0.01, alpha: v, eps: 1e-8, decay: Some(v), momentum: Some(v), centered: k % 2 == 1 });
        }
        for &v in &[-0.0f32, 3.0, 1e6] {
            hp.push(Opt::SGD { lr: v, decay: Some(v) });
            hp.push(Opt::Adam { lr: v, b1: 0.9, b2: 0.999, eps: v, decay: None });
            hp.push(Opt::RMS { lr: v, alpha: 0.9, eps: v, decay: None, momentum: Some(v), centered: false });
        }
        for (k, opt) in hp.into_iter().enumerate() {
            let shape = [Shape::Single(3), Shape::Double(1, 3), Shape::Triple(1, 1, 3)][k % 3].clone();
            let w = tensor_of_shape(&shape, &[0.5, -0.25, 1.5]);
            let gs: [[f32; 3]; 3] = [[0.5, -0.75, 1e-6], [1e-6, -2e-7, 0.25], [-0.125, 3e-6, 1e-7]];
            let steps: Vec<(usize, usize, bool, i32, Tensor)> = (0..3).map(|s| (0usize, 0usize, false, s as i32 + 1, tensor_of_shape(&shape, &gs[s]))).collect();
            out.push((format!("{}-extreme-hyperparameters", opt.kind()), Case::OptHistory { opt, vals: vec![vec![vec![w]]], steps }));
        }
    }
    // large step numbers (beyond 2^8, 2^10, 2^16, 20 000, 10^6, i32::MAX) with momentum / beta parameters close
    // to one: beta^step is far from zero, the bias corrections are far from one
    {
        let stepnrs: [i32; 14] = [1, 2, 255, 256, 257, 1024, 1025, 19_999, 20_000, 20_001, 65_537, 1_000_000, 16_777_217, i32::MAX];
        let mut hp: Vec<Opt> = vec![
            Opt::Adam { lr: 0.01, b1: 0.9, b2: 0.9999, eps: 1e-8, decay: None },
            Opt::Adam { lr: 0.01, b1: 0.9999, b2: 0.999_999, eps: 1e-8, decay: Some(0.01) },
            Opt::Adam { lr: 0.01, b1: 0.999_99, b2: 0.999_999_9, eps: 1e-8, decay: None },
            Opt::AdamW { lr: 0.01, b1: 0.9, b2: 0.9999, eps: 1e-8, decay: 0.01 },
            Opt::AdamW { lr: 0.01, b1: 0.9999, b2: 0.999_999, eps: 1e-8, decay: 0.0 },
            Opt::SGDM { lr: 0.1, momentum: 0.9999, dampening: 0.5, decay: None },
            Opt::RMS { lr: 0.01, alpha: 0.9999, eps: 1e-8, decay: None, momentum: Some(0.9999), centered: true },
        ];
        if thorough {
            hp.push(Opt::Adam { lr: 0.01, b1: 0.9, b2: 0.999, eps: 1e-8, decay: None });
            hp.push(Opt::RMS { lr: 0.01, alpha: 0.999_999, eps: 1e-8, decay: None, momentum: None, centered: false });
        }
        for (k, opt) in hp.into_iter().enumerate() {
            let shape = [Shape::Single(3), Shape::Double(1, 3), Shape::Triple(1, 1, 3)][k % 3].clone();
            let w = tensor_of_shape(&shape, &[0.5, -0.25, 1.5]);
            let steps: Vec<(usize, usize, bool, i32, Tensor)> = stepnrs.iter().enumerate().map(|(s, nr)| {
                (0usize, 0usize, false, *nr, tensor_of_shape(&shape, &[0.5 - 0.1 * s as f32, -0.75 + 0.05 * s as f32, if s % 2 == 0 { 1e-3 } else { -2e-3 }]))
            }).collect();
            out.push((format!("{}-large-step-numbers", opt.kind()), Case::OptHistory { opt, vals: vec![vec![vec![w]]], steps }));
        }
    }
    // matrices and kernels beyond 2^15 elements (a dense layer of 784 -> 128, say) with SMALL gradients (1e-3 ..
    // 1e-6: of the order of epsilon's square root, where sqrt(v) + eps and sqrt(v + eps) part ways), every
    // optimizer kind, three steps; long and tall matrices
    for kind in 0..5 {
        for (si, shape) in [Shape::Double(182, 181), Shape::Double(1, 33000), Shape::Double(33000, 1), Shape::Triple(8, 65, 64)].iter().enumerate() {
            if !(thorough || si == 0 || (si + kind) % 4 == 0) {
                continue;
            }
            let opt = rand_opt(rng, kind);
            let n = shape_numel(shape);
            let w = tensor_of_shape(shape, &(0..n).map(|i| ((i * 31) % 997) as f32 * 0.002 - 1.0).collect::<Vec<_>>());
            let steps: Vec<(usize, usize, bool, i32, Tensor)> = [1, 2, 3].iter().map(|s| {
                let scale = [1e-4f32, 1e-3, 1e-6][(*s as usize + si) % 3];
                (0usize, 0usize, false, *s, tensor_of_shape(shape, &(0..n).map(|i| (((i * 17 + *s as usize * 5) % 211) as f32 - 105.0) * scale * 0.01).collect::<Vec<_>>()))
            }).collect();
            out.push((format!("{}-beyond-2^15-small-gradients-{}", opt.kind(), si), Case::OptHistory { opt, vals: vec![vec![vec![w]]], steps }));
        }
    }
    // the same optimizer value attached (validated) again between phases of steps, with the same layout: the
    // running statistics are zero-initialised at every attachment (the second phase restarts at step 1, or at a
    // later step number), the parameters carry on; every optimizer kind, every rank
    for kind in 0..5 {
        for variant in 0..(if thorough { 9 } else { 3 }) {
            let opt = rand_opt(rng, kind);
            let shape = [Shape::Single(3), Shape::Double(2, 2), Shape::Triple(1, 2, 2)][variant % 3].clone();
            let n = shape_numel(&shape);
            let vals = vec![vec![vec![tensor_of_shape(&shape, &rng.vec(n, 2)), t1(rng.vec(2, 2))]]];
            let mut phases = vec![];
            for ph in 0..(2 + variant % 2) {
                let mut steps = vec![];
                let mut nr = if ph > 0 && variant % 3 == 2 { 3 } else { 1 };
                for s in 0..rng.range(2, 5) {
                    let b = s % 3 == 2;
                    let sh = vals[0][0][b as usize].shape.clone();
                    steps.push((0usize, 0usize, b, nr, tensor_of_shape(&sh, &grad_stream(rng, (kind + variant) % 6, s, shape_numel(&sh)))));
                    nr += 1;
                }
                phases.push(steps);
            }
            out.push((format!("{}-attached-again-rank{}", opt.kind(), variant % 3 + 1), Case::OptPhases { opt, vals, phases }));
        }
    }
    // wrong slot / rank mismatch is refused
    let opt = rand_opt(rng, 2);
    out.push(("adam-bad-slot".into(), Case::OptHistory { opt: opt.clone(), vals: vec![vec![vec![t1(vec![1.0, 2.0])]]], steps: vec![(0, 0, true, 1, t1(vec![0.5, 0.5]))] }));
    out.push(("adam-rank-mismatch".into(), Case::OptHistory { opt, vals: vec![vec![vec![t1(vec![1.0, 2.0])]]], steps: vec![(0, 0, false, 1, t2(1, 2, &[0.5, 0.5]))] }));
    out
}

/// documented update equations, element-wise, in f64
struct RefState { m: f64, v: f64, g: f64, b: f64 }
fn ref_step(o: &Opt, stepnr: i32, w: f64, g: f64, st: &mut RefState) -> f64 {
    let d = |x: f32| x as f64;
    let dflt = |x: f32, y: f32| if x == 0.0 { y as f64 } else { x as f64 };
    match o {
        Opt::SGD { lr, decay } => {
            let g = g + decay.map_or(0.0, |dc| d(dc) * w);
            w - dflt(*lr, 0.1) * g
        }
        Opt::SGDM { lr, momentum, dampening, decay } => {
            let g = g + decay.map_or(0.0, |dc| d(dc) * w);
            let mo = dflt(*momentum, 0.9);
            if stepnr > 1 {
                st.v = mo * st.v + (1.0 - d(*dampening)) * g;
            } else {
                st.v = g;
            }
            w - dflt(*lr, 0.1) * st.v
        }
        Opt::Adam { lr, b1, b2, eps, decay } => {
            let g = g + decay.map_or(0.0, |dc| d(dc) * w);
            let (b1, b2) = (dflt(*b1, 0.9), dflt(*b2, 0.999));
            st.m = b1 * st.m + (1.0 - b1) * g;
            st.v = b2 * st.v + (1.0 - b2) * g * g;
            let mh = st.m / (1.0 - b1.powi(stepnr));
            let vh = st.v / (1.0 - b2.powi(stepnr));
            w - dflt(*lr, 0.001) * mh / (vh.sqrt() + dflt(*eps, 1e-8))
        }
        Opt::AdamW { lr, b1, b2, eps, decay } => {
            let lr = dflt(*lr, 0.001);
            let w = w - lr * d(*decay) * w;
            let (b1, b2) = (dflt(*b1, 0.9), dflt(*b2, 0.999));
            st.m = b1 * st.m + (1.0 - b1) * g;
            st.v = b2 * st.v + (1.0 - b2) * g * g;
            let mh = st.m / (1.0 - b1.powi(stepnr));
            let vh = st.v / (1.0 - b2.powi(stepnr));
            w - lr * mh / (vh.sqrt() + dflt(*eps, 1e-8))
        }
        Opt::RMS { lr, alpha, eps, decay, momentum, centered } => {
            let g = g + decay.map_or(0.0, |dc| d(dc) * w);
            let al = dflt(*alpha, 0.99);
            st.v = al * st.v + (1.0 - al) * g * g;
            let mut v = st.v;
            if *centered {
                st.g = al * st.g + (1.0 - al) * g;
                v -= st.g * st.g;
            }
            let den = v.max(0.0).sqrt() + dflt(*eps, 1e-8);
            match momentum {
                Some(mo) => {
                    st.b = d(*mo) * st.b + g / den;
                    w - dflt(*lr, 0.01) * st.b
                }
                None => w - dflt(*lr, 0.01) * g / den,
            }
        }
    }
}

pub fn fals_c03(rng: &mut Rng, thorough: bool) -> Fals {
    let mut f = Fals::new();
    // centred RMSprop on a constant gradient: E[g^2] - E[g]^2 tends to 0 and must not go negative
    for alpha in [0.99f32, 0.9, 0.5] {
        for g in [0.5f32, 1.0, 0.1, 3.0] {
            for momentum in [None, Some(0.9f32)] {
                let opt = Opt::RMS { lr: 0.01, alpha, eps: 1e-8, decay: None, momentum, centered: true };
                let mut o = opt.to();
                o.validate(vec![vec![vec![t1(vec![0.0; 2]), t1(vec![0.0; 2])]]]);
                let mut w = t1(vec![0.25, -0.5]);
                let steps = if thorough { 6000 } else { 2500 };
                let mut bad = None;
                for s in 0..steps {
                    let mut gt = t1(vec![g, -g]);
                    o.update(0, 0, false, (s + 1) as i32, &mut w, &mut gt);
                    if flat_of(&w).iter().any(|x| !x.is_finite()) {
                        bad = Some(s + 1);
                        break;
                    }
                }
                f.check("rmsprop/centered", bad.is_none(), "parameters became NaN or infinite on a constant moderate gradient", || {
                    format!("{:?}, w0=[0.25,-0.5], constant gradient [{}, {}]: non-finite after step {}", opt, g, -g, bad.unwrap_or(0))
                });
            }
        }
    }
    let reps = if thorough { 600 } else { 60 };
    for kind in 0..5 {
        for r in 0..reps {
            let opt = rand_opt(rng, kind);
            let centered = matches!(opt, Opt::RMS { centered: true, .. });
            let class = if centered { "rmsprop/centered".to_string() } else { format!("optimizer/{}", opt.kind()) };
            let n = 6usize;
            let w0: Vec<f32> = rng.vec(n, 2);
            let gk = r % 4; // moderate magnitudes only
            let nsteps = if r % 10 == 0 { if thorough { 3000 } else { 1500 } } else { rng.range(1, 40) };
            // three ranks with the same flat data + a second slot interleaved
            let shapes = [Shape::Single(n), Shape::Double(2, 3), Shape::Triple(1, 3, 2)];
            let mut os: Vec<_> = shapes.iter().map(|_| opt.to()).collect();
            let mut ws: Vec<Tensor> = shapes.iter().map(|s| tensor_of_shape(s, &w0)).collect();
            for (o, s) in os.iter_mut().zip(shapes.iter()) {
                let z = tensor_of_shape(s, &vec![0.0; n]);
                o.validate(vec![vec![vec![z.clone(), z.clone()]]]);
            }
            let mut other = tensor_of_shape(&shapes[0], &rng.vec(n, 2));
            let mut refw: Vec<f64> = w0.iter().map(|x| *x as f64).collect();
            let mut refs: Vec<RefState> = (0..n).map(|_| RefState { m: 0.0, v: 0.0, g: 0.0, b: 0.0 }).collect();
            let mut bad_nan = None;
            for s in 0..nsteps {
                let stepnr = (s + 1) as i32;
                let g = if nsteps > 100 { vec![0.5f32; n] } else { grad_stream(rng, gk, s, n) };
                for k in 0..3 {
                    let mut gt = tensor_of_shape(&shapes[k], &g);
                    os[k].update(0, 0, false, stepnr, &mut ws[k], &mut gt);
                }
                // an interleaved update of another slot of optimizer 0 must not influence slot (0,0,false)
                if s % 2 == 0 {
                    let mut gt = tensor_of_shape(&shapes[0], &grad_stream(rng, 0, s, n));
                    os[0].update(0, 0, true, stepnr, &mut other, &mut gt);
                }
                for i in 0..n {
                    refw[i] = ref_step(&opt, stepnr, refw[i], g[i] as f64, &mut refs[i]);
                }
                if bad_nan.is_none() && flat_of(&ws[0]).iter().any(|x| !x.is_finite()) {
                    bad_nan = Some(s + 1);
                }
            }
            let a = flat_of(&ws[0]);
            let same = flat_of(&ws[1]).iter().zip(a.iter()).all(|(x, y)| x.to_bits() == y.to_bits() || (x.is_nan() && y.is_nan()))
                && flat_of(&ws[2]).iter().zip(a.iter()).all(|(x, y)| x.to_bits() == y.to_bits() || (x.is_nan() && y.is_nan()));
            f.check(&class, same, "result depends on the tensor rank or on another slot's updates", || format!("{:?} w0={:?} steps {}", opt, w0, nsteps));
            f.check(&class, bad_nan.is_none(), "parameters became NaN or infinite on a moderate history", || {
                format!("{:?} w0={:?}: non-finite after step {} of {} (gradient stream {})", opt, w0, bad_nan.unwrap_or(0), nsteps, if nsteps > 100 { "constant 0.5".to_string() } else { format!("{}", gk) })
            });
            if bad_nan.is_none() && nsteps <= 40 {
                let ok = a.iter().zip(refw.iter()).all(|(x, y)| (*x as f64 - y).abs() <= 5e-3 * (1.0 + y.abs()));
                f.check(&class, ok, "parameters differ from the documented update equations", || format!("{:?} w0={:?} steps {}: {:?} vs {:?}", opt, w0, nsteps, a, refw));
            }
        }
    }
    f
}
