//! C14 (reshape / flatten) and C15 (element-wise arithmetic) cases.
use crate::case::Case;
use crate::rng::Rng;
use crate::tok::*;
use neurons::tensor::{Shape, Tensor};

pub type Tagged = (String, Case);

fn factorizations(n: usize, maxdim: usize) -> Vec<(usize, usize, usize)> {
    let mut v = vec![];
    for c in 1..=maxdim {
        for h in 1..=maxdim {
            for w in 1..=maxdim {
                if c * h * w == n {
                    v.push((c, h, w));
                }
            }
        }
    }
    v
}

pub fn gen_c14(rng: &mut Rng, thorough: bool) -> Vec<Tagged> {
    let mut out: Vec<Tagged> = vec![];
    let maxd = if thorough { 6 } else { 4 };
    // exhaustive source shapes, distinct contents
    for c in 1..=maxd {
        for h in 1..=maxd {
            for w in 1..=maxd {
                let n = c * h * w;
                let x3 = t3(c, h, w, &rng.distinct(n));
                let x1 = t1(rng.distinct(n));
                out.push(("flatten3".into(), Case::Flatten(x3.clone())));
                out.push(("getflat3".into(), Case::GetFlat(x3.clone())));
                // every target shape with the same count (3-D and flat), both directions
                let fs = factorizations(n, if thorough { 12 } else { 8 });
                let pick: Vec<_> = if thorough || fs.len() <= 3 {
                    fs.clone()
                } else {
                    (0..3).map(|_| *rng.pick(&fs)).collect()
                };
                for (c2, h2, w2) in pick {
                    out.push(("reshape33-eq".into(), Case::Reshape(x3.clone(), Shape::Triple(c2, h2, w2))));
                    out.push(("reshape13-eq".into(), Case::Reshape(x1.clone(), Shape::Triple(c2, h2, w2))));
                    out.push(("gettriple1".into(), Case::GetTriple(x1.clone(), Shape::Triple(c2, h2, w2))));
                }
                out.push(("reshape31-eq".into(), Case::Reshape(x3.clone(), Shape::Single(n))));
                // unequal counts: must be refused
                let d = rng.range(1, 3);
                out.push(("reshape33-ne".into(), Case::Reshape(x3.clone(), Shape::Triple(c, h, w + d))));
                out.push(("reshape13-ne".into(), Case::Reshape(x1.clone(), Shape::Triple(c, h + d, w))));
                out.push(("reshape31-ne".into(), Case::Reshape(x3.clone(), Shape::Single(n + d))));
                if n > 1 {
                    out.push(("reshape31-ne".into(), Case::Reshape(x3.clone(), Shape::Single(n - 1))));
                    out.push(("gettriple1-short".into(), Case::GetTriple(t1(rng.distinct(n - 1)), Shape::Triple(c, h, w))));
                }
                out.push(("gettriple1-long".into(), Case::GetTriple(t1(rng.distinct(n + 2)), Shape::Triple(c, h, w))));
                // a vector LONGER than the target shape must be refused as well
                out.push(("reshape13-ne-longer".into(), Case::Reshape(t1(rng.distinct(n + d)), Shape::Triple(c, h, w))));
                out.push(("reshape33-ne-smaller".into(), Case::Reshape(t3(c, h, w + d, &rng.distinct(c * h * (w + d))), Shape::Triple(c, h, w))));
                out.push(("reshape31-ne-smaller".into(), Case::Reshape(t3(c, h, w + d, &rng.distinct(c * h * (w + d))), Shape::Single(n))));
                out.push(("gettriple3".into(), Case::GetTriple(x3.clone(), Shape::Triple(w, h, c))));
            }
        }
    }
    // the element SEQUENCE is preserved bit for bit whatever the values are: denormals, signed
    // zeros, infinities, NaN, extreme magnitudes, arbitrary bit patterns
    let special: Vec<f32> = vec![0.0, -0.0, f32::from_bits(1), -f32::from_bits(1), 1e-40, -3e-39, f32::MIN_POSITIVE, -f32::MIN_POSITIVE,
                                 f32::MAX, f32::MIN, f32::INFINITY, f32::NEG_INFINITY, f32::NAN, f32::EPSILON, 1.0, -1.0];
    for (c, h, w) in [(2usize, 2usize, 2usize), (1, 3, 2), (3, 1, 2), (2, 3, 1), (2, 2, 4), (4, 2, 2)] {
        let n = c * h * w;
        for stream in 0..3 {
            let v: Vec<f32> = (0..n).map(|i| match stream {
                0 => special[(i * 7 + c + w) % special.len()],
                1 => rng.finite_bits(),
                _ => if i % 2 == 0 { f32::from_bits(1 + (rng.next() % 8388607) as u32) } else { special[i % special.len()] },
            }).collect();
            let x3 = t3(c, h, w, &v);
            out.push(("special-values-flatten3".into(), Case::Flatten(x3.clone())));
            out.push(("special-values-getflat3".into(), Case::GetFlat(x3.clone())));
            out.push(("special-values-reshape33".into(), Case::Reshape(x3.clone(), Shape::Triple(w, c, h))));
            out.push(("special-values-reshape31".into(), Case::Reshape(x3.clone(), Shape::Single(n))));
            out.push(("special-values-reshape13".into(), Case::Reshape(t1(v.clone()), Shape::Triple(c, h, w))));
            out.push(("special-values-gettriple1".into(), Case::GetTriple(t1(v.clone()), Shape::Triple(h, w, c))));
        }
    }
    // huge extents: beyond 2^10, 2^12 and 2^16 elements, widths that are no powers of two (block-wise or
    // parallel rewrites of the re-chunking must keep every row boundary)
    let huge: Vec<(usize, usize, usize)> = if thorough {
        vec![(5, 5, 41), (17, 241, 1), (1, 1025, 1), (3, 37, 37), (3, 150, 150), (7, 100, 100), (1, 1, 65537), (2, 257, 129), (65537, 1, 1)]
    } else {
        vec![(5, 5, 41), (17, 241, 1), (3, 150, 150), (1, 1, 65537)]
    };
    for (c, h, w) in huge {
        let n = c * h * w;
        let v = rng.distinct(n);
        let x1 = t1(v.clone());
        let x3 = t3(c, h, w, &v);
        out.push(("huge-gettriple1".into(), Case::GetTriple(x1.clone(), Shape::Triple(c, h, w))));
        out.push(("huge-reshape13".into(), Case::Reshape(x1.clone(), Shape::Triple(c, h, w))));
        out.push(("huge-reshape31".into(), Case::Reshape(x3.clone(), Shape::Single(n))));
        out.push(("huge-flatten3".into(), Case::Flatten(x3.clone())));
        out.push(("huge-getflat3".into(), Case::GetFlat(x3.clone())));
        out.push(("huge-reshape33".into(), Case::Reshape(x3.clone(), Shape::Triple(w, c, h))));
        out.push(("huge-gettriple3".into(), Case::GetTriple(x3, Shape::Triple(h, w, c))));
        out.push(("huge-reshape13-ne".into(), Case::Reshape(x1, Shape::Triple(c, h, w + 1))));
    }
    // targets and sources with a ZERO dimension: a non-empty source is refused by every target that holds no
    // element (the counts differ), whichever dimension is the zero one; empty sources against empty and
    // non-empty targets; flatten / get_flat / get_triple of empty tensors
    {
        let zero_targets = [Shape::Triple(0, 2, 2), Shape::Triple(2, 0, 4), Shape::Triple(4, 2, 0), Shape::Triple(0, 0, 0), Shape::Single(0)];
        let sources: Vec<Tensor> = vec![t1(rng.distinct(4)), t1(rng.distinct(8)), t3(1, 2, 2, &rng.distinct(4)), t3(2, 2, 2, &rng.distinct(8)), t1(rng.distinct(1))];
        for src in &sources {
            for tg in &zero_targets {
                out.push(("reshape-nonempty-to-zero-dimension-ne".into(), Case::Reshape(src.clone(), tg.clone())));
            }
        }
        let empties: Vec<Tensor> = vec![t1(vec![]), t3(0, 2, 2, &[]), t3(2, 0, 3, &[]), t3(2, 2, 0, &[])];
        for e in &empties {
            for tg in zero_targets.iter().chain([Shape::Triple(1, 1, 1), Shape::Single(2)].iter()) {
                out.push(("reshape-empty-source".into(), Case::Reshape(e.clone(), tg.clone())));
            }
            out.push(("flatten-empty".into(), Case::Flatten(e.clone())));
            out.push(("getflat-empty".into(), Case::GetFlat(e.clone())));
            out.push(("gettriple-empty".into(), Case::GetTriple(e.clone(), Shape::Triple(0, 1, 1))));
        }
    }
    // flat to flat, unsupported ranks
    out.push(("reshape11".into(), Case::Reshape(t1(rng.distinct(6)), Shape::Single(7))));
    out.push(("flatten1".into(), Case::Flatten(t1(rng.distinct(5)))));
    out.push(("flatten2".into(), Case::Flatten(t2(2, 3, &rng.distinct(6)))));
    out.push(("getflat4".into(), Case::GetFlat(t4(1, 2, 2, 2, &rng.distinct(8)))));
    out.push(("reshape2".into(), Case::Reshape(t2(2, 3, &rng.distinct(6)), Shape::Single(6))));
    out
}

fn rand_shape(rng: &mut Rng, rank: usize, maxd: usize) -> Shape {
    match rank {
        1 => Shape::Single(rng.range(1, maxd * 2)),
        2 => Shape::Double(rng.range(1, maxd), rng.range(1, maxd)),
        3 => Shape::Triple(rng.range(1, maxd), rng.range(1, maxd), rng.range(1, maxd)),
        _ => Shape::Quadruple(rng.range(1, 3), rng.range(1, 3), rng.range(1, maxd), rng.range(1, maxd)),
    }
}
fn rand_tensor(rng: &mut Rng, s: &Shape, kind: u8) -> Tensor {
    tensor_of_shape(s, &rng.vec(shape_numel(s), kind))
}
/// a shape differing from `s` in exactly one dimension, or of another rank
fn perturb(rng: &mut Rng, s: &Shape) -> Shape {
    let d = rng.range(1, 2);
    match s {
        Shape::Single(n) => {
            if rng.chance(1, 4) {
                Shape::Double(1, *n)
            } else {
                Shape::Single(n + d)
            }
        }
        Shape::Double(r, c) => match rng.below(3) {
            0 => Shape::Double(r + d, *c),
            1 => Shape::Double(*r, c + d),
            _ => Shape::Single(r * c),
        },
        Shape::Triple(c, h, w) => match rng.below(4) {
            0 => Shape::Triple(c + d, *h, *w),
            1 => Shape::Triple(*c, h + d, *w),
            2 => Shape::Triple(*c, *h, w + d),
            _ => Shape::Double(c * h, *w),
        },
        Shape::Quadruple(a, c, h, w) => match rng.below(5) {
            0 => Shape::Quadruple(a + d, *c, *h, *w),
            1 => Shape::Quadruple(*a, c + d, *h, *w),
            2 => Shape::Quadruple(*a, *c, h + d, *w),
            3 => Shape::Quadruple(*a, *c, *h, w + d),
            _ => Shape::Triple(a * c, *h, *w),
        },
        _ => Shape::Single(1),
    }
}

pub fn gen_c15(rng: &mut Rng, thorough: bool) -> Vec<Tagged> {
    let mut out: Vec<Tagged> = vec![];
    let reps = if thorough { 60 } else { 6 };
    let maxd = 5;
    for _ in 0..reps {
        for rank in 1..=4usize {
            for kind in [0u8, 2, 3, 4] {
                let s = rand_shape(rng, rank, maxd);
                let a = rand_tensor(rng, &s, kind);
                let b = rand_tensor(rng, &s, kind);
                for k in 0..3u8 {
                    out.push((format!("binop{}-r{}", k, rank), Case::Binop(k, a.clone(), b.clone())));
                }
                let sc = if kind == 0 { rng.dyadic_nz() } else { rng.moderate() };
                out.push((format!("hadamard-r{}", rank), Case::Hadamard(a.clone(), b.clone(), sc)));
                out.push((format!("divscalar-r{}", rank), Case::DivScalar(a.clone(), sc)));
                let k = rng.range(1, 4);
                let os: Vec<Tensor> = (0..k).map(|_| rand_tensor(rng, &s, kind)).collect();
                out.push((format!("mean{}-r{}", k, rank), Case::Mean(a.clone(), os)));
                let (lo, hi) = {
                    let x = rng.moderate();
                    let y = rng.moderate();
                    if x <= y { (x, y) } else { (y, x) }
                };
                out.push((format!("clamp-r{}", rank), Case::Clamp(a.clone(), lo, hi)));
                // mismatched shapes must be refused
                let s2 = perturb(rng, &s);
                let c = rand_tensor(rng, &s2, 1);
                out.push((format!("binop-mismatch-r{}", rank), Case::Binop(rng.below(3) as u8, a.clone(), c.clone())));
                out.push((format!("hadamard-mismatch-r{}", rank), Case::Hadamard(a.clone(), c.clone(), 1.0)));
                out.push((format!("mean-mismatch-r{}", rank), Case::Mean(a.clone(), vec![b.clone(), c.clone()])));
            }
        }
        out.push(("mean-empty".into(), Case::Mean(t1(rng.vec(3, 1)), vec![])));
        // nested lists
        let n = rng.range(1, 3);
        let shapes: Vec<Shape> = (0..n).map(|_| { let r = rng.range(1, 4); rand_shape(rng, r, 3) }).collect();
        let a: Vec<Tensor> = shapes.iter().map(|s| rand_tensor(rng, s, 2)).collect();
        let b: Vec<Tensor> = shapes.iter().map(|s| rand_tensor(rng, s, 2)).collect();
        out.push(("nested-add".into(), Case::NestedAdd(a.clone(), b.clone())));
        out.push(("nested-div".into(), Case::NestedDiv(a.clone(), rng.moderate())));
        let mut b2 = b.clone();
        b2.push(t1(vec![1.0]));
        out.push(("nested-add-mismatch".into(), Case::NestedAdd(a.clone(), b2)));
        // same number of elements and same ranks, but one element differs in an extent: refused as well
        {
            let sa = vec![Shape::Single(3), Shape::Double(2, 3), Shape::Triple(1, 2, 2)];
            let sb = [vec![Shape::Single(5), Shape::Double(2, 3), Shape::Triple(1, 2, 2)],
                      vec![Shape::Single(3), Shape::Double(2, 2), Shape::Triple(1, 2, 2)],
                      vec![Shape::Single(3), Shape::Double(2, 3), Shape::Triple(2, 2, 2)],
                      vec![Shape::Single(2), Shape::Double(3, 3), Shape::Triple(1, 2, 1)]];
            let k = rng.below(4);
            let a2: Vec<Tensor> = sa.iter().map(|s| rand_tensor(rng, s, 1)).collect();
            let b3: Vec<Tensor> = sb[k].iter().map(|s| rand_tensor(rng, s, 1)).collect();
            out.push(("nested-add-inner-extent-mismatch".into(), Case::NestedAdd(a2.clone(), b3.clone())));
            out.push(("nested-add-inner-extent-mismatch".into(), Case::NestedAdd(b3, a2)));
        }
        // products
        let (m, k) = (rng.range(1, 5), rng.range(1, 5));
        for kind in [0u8, 2, 3] {
            let u = t1(rng.vec(m, kind));
            let v = t1(rng.vec(k, kind));
            out.push(("product".into(), Case::Product(u.clone(), v.clone())));
            let mat = t2(m, k, &rng.vec(m * k, kind));
            out.push(("dot".into(), Case::Dot(mat.clone(), v.clone())));
            out.push(("transpose".into(), Case::Transpose(mat.clone())));
        }
        out.push(("dot-bad".into(), Case::Dot(t1(rng.vec(3, 1)), t1(rng.vec(3, 1)))));
        out.push(("product-bad".into(), Case::Product(t2(2, 2, &rng.vec(4, 1)), t1(rng.vec(2, 1)))));
        let na = rng.range(1, 7);
        out.push(("argmax".into(), Case::Argmax(t1(rng.vec(na, 1)))));
        let (c, h, w) = (rng.range(1, 3), rng.range(1, 4), rng.range(1, 4));
        let (ph, pw) = (rng.range(1, 7), rng.range(1, 7));
        out.push(("pad3d".into(), Case::Pad3d(t3(c, h, w, &rng.distinct(c * h * w)), ph, pw)));
        let dr = rng.range(1, 4);
        let ds = rand_shape(rng, dr, 4);
        let rate = *rng.pick(&[0.0, 0.3, 0.5, 0.9, 1.0]);
        out.push(("dropout".into(), Case::Dropout(rand_tensor(rng, &ds, 0), rate)));
    }
    // large extents (beyond every plausible block / chunk / lane size, and not multiples of them):
    // every element is still combined with its partner
    let big: Vec<Shape> = vec![
        Shape::Single(1000), Shape::Single(257), Shape::Double(130, 3), Shape::Double(200, 2), Shape::Double(3, 131), Shape::Double(129, 1),
        Shape::Triple(33, 2, 2), Shape::Triple(2, 67, 2), Shape::Triple(2, 2, 129), Shape::Quadruple(17, 2, 2, 2), Shape::Quadruple(2, 2, 33, 3),
    ];
    for s in &big {
        let a = rand_tensor(rng, s, 1);
        let b = rand_tensor(rng, s, 1);
        for k in 0..3u8 {
            out.push(("binop-large".into(), Case::Binop(k, a.clone(), b.clone())));
        }
        out.push(("hadamard-large".into(), Case::Hadamard(a.clone(), b.clone(), 0.5)));
        out.push(("divscalar-large".into(), Case::DivScalar(a.clone(), 3.0)));
        out.push(("mean-large".into(), Case::Mean(a.clone(), vec![b.clone(), a.clone()])));
        out.push(("clamp-large".into(), Case::Clamp(a.clone(), -0.25, 0.5)));
    }
    // optional entries (the per-layer bias gradients of a feedback block): addition is positional; where
    // either side has no entry the left entry is kept; every pattern of present / absent entries
    for pat in 0..16u32 {
        let n = 2 + (pat % 2) as usize;
        let mk = |rng: &mut Rng, bits: u32| -> Vec<Option<Tensor>> {
            (0..n).map(|i| if (bits >> i) & 1 == 1 { Some(t1(rng.vec(2, 1))) } else { None }).collect()
        };
        let a = mk(rng, pat & 7);
        let b = mk(rng, (pat >> 1) ^ 5);
        out.push(("nestedopt-add".into(), Case::NestedOptAdd(a, b)));
    }
    out.push(("nestedopt-add-length-mismatch".into(), Case::NestedOptAdd(vec![Some(t1(vec![1.0])), None], vec![Some(t1(vec![2.0]))])));
    out.push(("nestedopt-add-inner-shape-mismatch".into(), Case::NestedOptAdd(vec![Some(t1(vec![1.0, 2.0]))], vec![Some(t1(vec![2.0]))])));
    // huge extents: beyond 2^10, 2^12 and 2^16 elements on every rank
    let huge: Vec<Shape> = if thorough {
        vec![Shape::Single(1100), Shape::Single(4100), Shape::Single(66000), Shape::Double(1030, 3), Shape::Double(3, 22001), Shape::Triple(3, 150, 150),
             Shape::Triple(1100, 1, 2), Shape::Quadruple(2, 3, 37, 37), Shape::Quadruple(1030, 1, 2, 1)]
    } else {
        vec![Shape::Single(1100), Shape::Single(66000), Shape::Double(1030, 3), Shape::Triple(3, 150, 150), Shape::Quadruple(2, 3, 37, 37)]
    };
    for s in &huge {
        let a = rand_tensor(rng, s, 1);
        let b = rand_tensor(rng, s, 1);
        for k in 0..3u8 {
            out.push(("binop-huge".into(), Case::Binop(k, a.clone(), b.clone())));
        }
        out.push(("mean-huge".into(), Case::Mean(a.clone(), vec![b.clone(), a.clone()])));
        out.push(("hadamard-huge".into(), Case::Hadamard(a.clone(), b.clone(), 0.5)));
        out.push(("divscalar-huge".into(), Case::DivScalar(a.clone(), 3.0)));
        out.push(("clamp-huge".into(), Case::Clamp(a.clone(), -0.25, 0.5)));
    }
    {
        let (m, k) = (1030usize, 5usize);
        let u = t1(rng.vec(m, 1));
        let v = t1(rng.vec(k, 1));
        out.push(("product-huge".into(), Case::Product(u.clone(), v.clone())));
        out.push(("product-huge".into(), Case::Product(v.clone(), u.clone())));
        let mat = t2(m, k, &rng.vec(m * k, 1));
        out.push(("dot-huge".into(), Case::Dot(mat.clone(), v.clone())));
        out.push(("transpose-huge".into(), Case::Transpose(mat.clone())));
        let matt = t2(k, m, &rng.vec(m * k, 1));
        out.push(("dot-huge".into(), Case::Dot(matt.clone(), u.clone())));
        out.push(("transpose-huge".into(), Case::Transpose(matt)));
    }
    {
        let (m, k) = (131usize, 67usize);
        let u = t1(rng.vec(m, 1));
        let v = t1(rng.vec(k, 1));
        out.push(("product-large".into(), Case::Product(u.clone(), v.clone())));
        let mat = t2(m, k, &rng.vec(m * k, 1));
        out.push(("dot-large".into(), Case::Dot(mat.clone(), v.clone())));
        out.push(("transpose-large".into(), Case::Transpose(mat)));
        let a: Vec<Tensor> = vec![rand_tensor(rng, &Shape::Double(130, 3), 1), rand_tensor(rng, &Shape::Single(300), 1)];
        let b: Vec<Tensor> = vec![rand_tensor(rng, &Shape::Double(130, 3), 1), rand_tensor(rng, &Shape::Single(300), 1)];
        out.push(("nested-add-large".into(), Case::NestedAdd(a.clone(), b)));
        out.push(("nested-div-large".into(), Case::NestedDiv(a, 7.0)));
    }
    // operands of EQUAL ELEMENT COUNT but different shape - another rank (3-D against the flat vector of the same
    // length, 2-D against flat, 3-D against 2-D, 4-D against 3-D) or the same rank with permuted dimensions - in
    // both operand orders: refused by every binary operation, the Hadamard product and the mean
    {
        let pairs: Vec<(Shape, Shape)> = vec![
            (Shape::Triple(2, 2, 3), Shape::Single(12)), (Shape::Triple(1, 1, 4), Shape::Single(4)), (Shape::Triple(1, 3, 1), Shape::Single(3)),
            (Shape::Double(3, 4), Shape::Single(12)), (Shape::Double(1, 5), Shape::Single(5)), (Shape::Triple(2, 3, 2), Shape::Double(6, 2)),
            (Shape::Triple(1, 3, 4), Shape::Double(3, 4)), (Shape::Quadruple(1, 2, 2, 3), Shape::Triple(2, 2, 3)), (Shape::Quadruple(2, 1, 2, 2), Shape::Single(8)),
            (Shape::Triple(2, 3, 4), Shape::Triple(4, 3, 2)), (Shape::Triple(2, 3, 4), Shape::Triple(2, 4, 3)), (Shape::Double(2, 6), Shape::Double(6, 2)),
            (Shape::Double(3, 4), Shape::Double(4, 3)), (Shape::Quadruple(1, 2, 3, 2), Shape::Quadruple(2, 1, 2, 3)), (Shape::Triple(1, 1, 1), Shape::Single(1)),
        ];
        for (sa, sb) in pairs {
            for (x, y) in [(sa.clone(), sb.clone()), (sb.clone(), sa.clone())] {
                let a = rand_tensor(rng, &x, 1);
                let b = rand_tensor(rng, &y, 1);
                for k in 0..3u8 {
                    out.push((format!("binop{}-equal-count-other-shape-mismatch", k), Case::Binop(k, a.clone(), b.clone())));
                }
                out.push(("hadamard-equal-count-other-shape-mismatch".into(), Case::Hadamard(a.clone(), b.clone(), 0.5)));
                out.push(("mean-equal-count-other-shape-mismatch".into(), Case::Mean(a.clone(), vec![b.clone()])));
                out.push(("mean-equal-count-other-shape-mismatch".into(), Case::Mean(a.clone(), vec![a.clone(), b.clone()])));
            }
        }
    }
    // SPECIAL SCALARS of the scaled Hadamard product, the scalar division and the nested division: the
    // neighbours of 1, -1, 0.5 and 2 (one ulp below / above), 1 itself, signed zeros, the smallest normal and
    // subnormal numbers, the largest finite number, infinities and NaN - on every rank, with operands whose
    // products are not exactly representable (so that one ulp of the scalar shows in the result)
    {
        let specials: Vec<f32> = vec![
            f32::from_bits(0x3F7FFFFF), f32::from_bits(0x3F800001), 1.0, -1.0, f32::from_bits(0xBF7FFFFF), f32::from_bits(0xBF800001),
            f32::from_bits(0x3EFFFFFF), f32::from_bits(0x3F000001), f32::from_bits(0x3FFFFFFF), f32::from_bits(0x40000001),
            0.0, -0.0, f32::MIN_POSITIVE, 1e-45, f32::MAX, f32::INFINITY, f32::NEG_INFINITY, f32::NAN, 1.0 - f32::EPSILON, 1.0 + f32::EPSILON,
        ];
        for (k, &sc) in specials.iter().enumerate() {
            let rank = 1 + k % 4;
            let sh = match rank { 1 => Shape::Single(5), 2 => Shape::Double(2, 3), 3 => Shape::Triple(2, 2, 2), _ => Shape::Quadruple(1, 2, 2, 2) };
            let n = shape_numel(&sh);
            let a = tensor_of_shape(&sh, &(0..n).map(|i| 1.0 + (i as f32 + 1.0) / 3.0).collect::<Vec<_>>());
            let b = tensor_of_shape(&sh, &(0..n).map(|i| 0.7 - (i as f32) / 7.0).collect::<Vec<_>>());
            out.push((format!("hadamard-special-scalar-r{}", rank), Case::Hadamard(a.clone(), b.clone(), sc)));
            // every rank for the neighbours of one
            if k < 6 {
                for r2 in 1..=4usize {
                    let sh2 = match r2 { 1 => Shape::Single(4), 2 => Shape::Double(2, 2), 3 => Shape::Triple(1, 2, 2), _ => Shape::Quadruple(1, 1, 2, 2) };
                    let a2 = tensor_of_shape(&sh2, &[1.1, -2.3, 0.7, 3.9]);
                    let b2 = tensor_of_shape(&sh2, &[0.9, 1.7, -1.3, 0.3]);
                    out.push((format!("hadamard-scalar-next-to-one-r{}", r2), Case::Hadamard(a2, b2, sc)));
                }
            }
            out.push((format!("divscalar-special-scalar-r{}", rank), Case::DivScalar(a.clone(), sc)));
            out.push(("nested-div-special-scalar".into(), Case::NestedDiv(vec![a.clone(), b], sc)));
        }
    }
    out
}

/// C14 falsifier (implementation only): reshape targets with EXTREME dimensions - usize::MAX, 2^63, 2^62, 2^32,
/// 2^21 (whose cube is 2^63) - that no unary-number model can represent. The element count of such a target
/// (taken in u128) differs from the source's, so the reshape must be refused (a panic, whether from the count
/// assertion or from the overflowing product); if the counts do agree the result must carry the requested shape.
pub fn fals_c14(rng: &mut Rng, _thorough: bool) -> crate::fals::Fals {
    use std::panic::{catch_unwind, AssertUnwindSafe};
    let mut f = crate::fals::Fals::new();
    let big: [usize; 9] = [usize::MAX, usize::MAX - 1, 1 << 63, (1 << 63) + 1, 1 << 62, 1 << 32, (1 << 32) + 1, 1 << 21, 3_037_000_500];
    let small: [usize; 4] = [1, 2, 3, 6];
    let sources: Vec<Tensor> = vec![t1(rng.distinct(6)), t3(1, 2, 3, &rng.distinct(6)), t3(2, 1, 2, &rng.distinct(4)), t1(rng.distinct(1)), t3(3, 2, 2, &rng.distinct(12)), t1(rng.distinct(12))];
    let mut targets: Vec<Shape> = vec![];
    for &b in &big {
        targets.push(Shape::Single(b));
        for &a in &small {
            for &c in &small {
                targets.push(Shape::Triple(b, a, c));
                targets.push(Shape::Triple(a, b, c));
                targets.push(Shape::Triple(a, c, b));
            }
        }
        for &b2 in &big {
            targets.push(Shape::Triple(b, b2, 1));
            targets.push(Shape::Triple(1, b, b2));
            targets.push(Shape::Triple(b, 2, b2));
        }
    }
    for src in &sources {
        let n = shape_numel(&src.shape) as u128;
        for tg in &targets {
            let count: u128 = match tg {
                Shape::Single(a) => *a as u128,
                Shape::Triple(a, b, c) => (*a as u128).saturating_mul(*b as u128).saturating_mul(*c as u128),
                _ => continue,
            };
            // vector -> vector is not a reshape the property speaks of (the library returns the vector as it is)
            if matches!(src.shape, Shape::Single(_)) && matches!(tg, Shape::Single(_)) {
                continue;
            }
            let r = catch_unwind(AssertUnwindSafe(|| src.clone().reshape(tg.clone())));
            let class = format!("reshape-extreme-dimension/{}", if matches!(tg, Shape::Single(_)) { "flat-target" } else { "3d-target" });
            if count != n {
                f.check(&class, r.is_err(), "a reshape to a shape with a different element count was accepted", || {
                    format!("source shape {:?} ({} elements), requested shape {:?}; returned shape {:?}", src.shape, n, tg, r.as_ref().ok().map(|t| t.shape.clone()))
                });
            } else if let Ok(t) = &r {
                f.check(&class, t.shape == *tg, "the reshaped tensor does not carry the requested shape", || format!("source {:?}, requested {:?}, got {:?}", src.shape, tg, t.shape));
            }
        }
    }
    f
}
