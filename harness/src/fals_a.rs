//! Model-free falsifiers for C01 (back-propagated gradients are the true derivatives) and C16
//! (skip connections: builder, forward accumulation, gradients under additive accumulation).
//!
//! Oracle of every gradient check: central finite differences (steps 2^-6 and 2^-7, Richardson
//! extrapolated) of the library's OWN forward pass + objective, evaluated on the real network
//! whose parameters are perturbed through the `verif_set_*` hooks. Nothing here refers to a model.
//!
//! Class keys are functions of the configuration (and of the parameter tensor that is checked)
//! only, never of the outcome.
use crate::fals::Fals;
use crate::netgen::{as_spatial, isqrt, out_shape, Sh};
use crate::rng::Rng;
use crate::spec::*;
use crate::tok::*;
use neurons::network::{self, Network};
use neurons::tensor::{Data, Shape, Tensor};
use rayon::prelude::*;
use std::collections::BTreeMap;
use std::panic::{catch_unwind, AssertUnwindSafe};

// ------------------------------------------------------------------ numerical parameters
/// finite-difference step (the half step is used as well); parameters and inputs are O(1)
const H: f32 = 1.0 / 64.0;
/// relative tolerance on max(|fd|, |gradient|)
const RTOL: f64 = 5e-3;
/// absolute tolerance relative to the scale of the check (max of 0.25, |loss|, largest gradient entry)
const ATOL: f64 = 5e-4;
/// largest tensor (elements) that flows through a generated network
const MAXN: usize = 96;

// optional statistics on how close passing checks come to the tolerance (NVERIF_FALS_STATS=1)
static STATS: std::sync::Mutex<BTreeMap<String, (f64, u64, u64)>> = std::sync::Mutex::new(BTreeMap::new());
fn stat(key: &str, ratio: f64, checked: usize, skipped: usize) {
    if std::env::var_os("NVERIF_FALS_STATS").is_some() {
        let mut s = STATS.lock().unwrap();
        let e = s.entry(key.to_string()).or_insert((0.0, 0, 0));
        if ratio.is_finite() && ratio > e.0 {
            e.0 = ratio;
        }
        e.1 += checked as u64;
        e.2 += skipped as u64;
    }
}
fn dump_stats(title: &str) {
    if std::env::var_os("NVERIF_FALS_STATS").is_some() {
        let mut s = STATS.lock().unwrap();
        eprintln!("--- {}: worst error/tolerance ratio, coordinates checked, coordinates skipped, per key", title);
        for (k, (r, c, sk)) in s.iter() {
            eprintln!("{:<70} {:>10.4} {:>7} {:>7}", k, r, c, sk);
        }
        s.clear();
    }
}

// ------------------------------------------------------------------ descriptions (replayable)
fn show_t(t: &Tensor) -> String {
    format!("{:?}{:?}", t.shape, flat_of(t))
}
fn show_w(w: &W) -> String {
    match w {
        W::Dense(w, b) => format!("W(row-major [out][in])={} b={}", show_t(w), b.as_ref().map_or("none".to_string(), show_t)),
        W::Kernels(ks) => format!("kernels[filter]=[{}]", ks.iter().map(show_t).collect::<Vec<_>>().join(", ")),
        W::None => "-".into(),
    }
}
fn show_spec(s: &NetSpec) -> String {
    let ws = match &s.weights {
        None => "random".to_string(),
        Some(ws) => ws
            .iter()
            .enumerate()
            .map(|(i, w)| match w {
                LW::One(w) => format!("L{}: {}", i, show_w(w)),
                LW::Block(ws) => format!("L{}: block[{}]", i, ws.iter().map(show_w).collect::<Vec<_>>().join(" | ")),
            })
            .collect::<Vec<_>>()
            .join("; "),
    };
    format!(
        "network input {:?}; layers {:?}; connect(infrom,into) {:?} skip-accumulation {:?}; objective {:?}; weights {{{}}}",
        s.input, s.layers, s.connect, s.skipacc, s.obj, ws
    )
}

// ------------------------------------------------------------------ parameter addressing
#[derive(Clone, Copy, Debug, PartialEq)]
enum PK {
    W,
    B,
    K,
}
/// one parameter tensor: top-level layer, unrolled position inside a feedback block, kind
#[derive(Clone, Copy, Debug, PartialEq)]
struct PAddr {
    layer: usize,
    inner: Option<usize>,
    pk: PK,
}

fn layer_ref(n: &Network, l: usize, inner: Option<usize>) -> &network::Layer {
    match (&n.layers[l], inner) {
        (network::Layer::Feedback(b), Some(j)) => &b.layers[j],
        (x, _) => x,
    }
}
fn layer_mut(n: &mut Network, l: usize, inner: Option<usize>) -> &mut network::Layer {
    match (&mut n.layers[l], inner) {
        (network::Layer::Feedback(b), Some(j)) => &mut b.layers[j],
        (x, _) => x,
    }
}
fn get_param(n: &Network, a: PAddr) -> Vec<f32> {
    match (layer_ref(n, a.layer, a.inner), a.pk) {
        (network::Layer::Dense(d), PK::W) => flat_of(d.verif_weights()),
        (network::Layer::Dense(d), PK::B) => d.verif_bias().as_ref().map_or(vec![], flat_of),
        (network::Layer::Convolution(c), PK::K) => c.verif_kernels().iter().flat_map(flat_of).collect(),
        (network::Layer::Deconvolution(c), PK::K) => c.verif_kernels().iter().flat_map(flat_of).collect(),
        _ => vec![],
    }
}
fn set_kernels(old: &[Tensor], v: &[f32]) -> Vec<Tensor> {
    let mut o = 0;
    old.iter()
        .map(|k| {
            let m = shape_numel(&k.shape);
            let t = tensor_of_shape(&k.shape, &v[o..o + m]);
            o += m;
            t
        })
        .collect()
}
fn set_param(n: &mut Network, a: PAddr, v: &[f32]) {
    match (layer_mut(n, a.layer, a.inner), a.pk) {
        (network::Layer::Dense(d), PK::W) => {
            let s = d.verif_weights().shape.clone();
            d.verif_set_weights(tensor_of_shape(&s, v));
        }
        (network::Layer::Dense(d), PK::B) => d.verif_set_bias(Some(t1(v.to_vec()))),
        (network::Layer::Convolution(c), PK::K) => {
            let ks = set_kernels(c.verif_kernels(), v);
            c.verif_set_kernels(ks);
        }
        (network::Layer::Deconvolution(c), PK::K) => {
            let ks = set_kernels(c.verif_kernels(), v);
            c.verif_set_kernels(ks);
        }
        _ => panic!("set_param: no such parameter"),
    }
}
fn plain_params(l: &network::Layer, layer: usize, inner: Option<usize>, out: &mut Vec<PAddr>) {
    match l {
        network::Layer::Dense(d) => {
            out.push(PAddr { layer, inner, pk: PK::W });
            if d.verif_bias().is_some() {
                out.push(PAddr { layer, inner, pk: PK::B });
            }
        }
        network::Layer::Convolution(_) | network::Layer::Deconvolution(_) => out.push(PAddr { layer, inner, pk: PK::K }),
        _ => (),
    }
}
/// all parameter tensors of a network (every unrolled copy inside a feedback block separately)
fn param_addrs(n: &Network) -> Vec<PAddr> {
    let mut out = vec![];
    for (i, l) in n.layers.iter().enumerate() {
        match l {
            network::Layer::Feedback(b) => b.layers.iter().enumerate().for_each(|(j, l)| plain_params(l, i, Some(j), &mut out)),
            l => plain_params(l, i, None, &mut out),
        }
    }
    out
}
fn kind_name(n: &Network, a: PAddr) -> &'static str {
    match (layer_ref(n, a.layer, a.inner), a.pk) {
        (network::Layer::Dense(_), PK::W) => "dense-weights",
        (network::Layer::Dense(_), _) => "dense-bias",
        (network::Layer::Convolution(_), _) => "conv-kernel",
        (network::Layer::Deconvolution(_), _) => "deconv-kernel",
        _ => "?",
    }
}

// ------------------------------------------------------------------ evaluation of the objective
type Pat = Vec<i64>;
enum Ev {
    Ok(f64, Pat),
    Panic,
    /// outside the domain where the objective's gradient is its derivative (prediction too close to 0/1)
    Invalid,
}
#[derive(Clone, Debug)]
enum Kink {
    Plain(bool),
    Block(Vec<bool>),
}
fn is_relu(a: Act) -> bool {
    matches!(a, Act::ReLU | Act::Leaky)
}
fn simple_relu(l: &Simple) -> bool {
    match l {
        Simple::Dense { act, .. } | Simple::Conv { act, .. } | Simple::Deconv { act, .. } => is_relu(*act),
        Simple::Maxpool { .. } => false,
    }
}
fn kinks_of(spec: &NetSpec) -> Vec<Kink> {
    spec.layers
        .iter()
        .map(|l| match l {
            LayerSpec::One(s) => Kink::Plain(simple_relu(s)),
            LayerSpec::Block { layers, loops, .. } => Kink::Block((0..layers.len() * loops).map(|i| simple_relu(&layers[i % layers.len()])).collect()),
        })
        .collect()
}
fn push_signs(pat: &mut Pat, t: &Tensor) {
    for v in flat_of(t) {
        pat.push(if v > 0.0 { 1 } else if v < 0.0 { -1 } else { 0 });
    }
}
fn push_max(pat: &mut Pat, t: &Tensor) {
    // the pooling layers inside a feedback block: one optional entry per unrolled layer
    if let Data::NestedOptional(inner) = &t.data {
        for m in inner.iter().flatten() {
            push_max(pat, m);
        }
    }
    if let Data::Quintuple(q) = &t.data {
        for a in q {
            for b in a {
                for c in b {
                    for d in c {
                        for (h, w) in d {
                            pat.push((*h * 4096 + *w) as i64 + 7);
                        }
                    }
                }
            }
        }
    }
}

/// loss of the sample as the library computes it, plus the "pattern" of all non-smooth decisions
/// (signs of ReLU-family pre-activations, arg-max positions of pooling windows, signs of the
/// absolute-error residuals): finite differences are only used where the pattern is constant
fn net_eval(n: &Network, kinks: &[Kink], obj: Obj, x: &Tensor, y: &Tensor) -> Ev {
    let r = catch_unwind(AssertUnwindSafe(|| {
        let (pre, post, mx, fb) = n.forward(x);
        let out = post.last().unwrap();
        let (l, _) = n.verif_objective().loss(out, y);
        let mut pat: Pat = vec![];
        let mut fbi = 0;
        for (i, k) in kinks.iter().enumerate() {
            match k {
                Kink::Plain(r) => {
                    if *r {
                        push_signs(&mut pat, &pre[i]);
                    }
                }
                Kink::Block(rs) => {
                    let inner = fb[fbi][0].unnested();
                    fbi += 1;
                    for (j, r) in rs.iter().enumerate() {
                        if *r {
                            push_signs(&mut pat, &inner[j]);
                        }
                    }
                }
            }
            if let Some(m) = &mx[i] {
                push_max(&mut pat, m);
            }
        }
        let p = flat_of(out);
        let t = flat_of(y);
        match obj {
            Obj::AE | Obj::MAE => {
                for (p, t) in p.iter().zip(t.iter()) {
                    pat.push(if p > t { 1 } else if p < t { -1 } else { 0 });
                }
            }
            Obj::CE | Obj::BCE | Obj::KL => {
                if p.iter().any(|p| !(*p > 0.02 && *p < 0.98)) {
                    return Ev::Invalid;
                }
            }
            _ => (),
        }
        if !l.is_finite() || p.iter().any(|v| !v.is_finite() || v.abs() > 1e4) {
            return Ev::Invalid;
        }
        Ev::Ok(l as f64, pat)
    }));
    r.unwrap_or(Ev::Panic)
}

struct LibGrads {
    w: Vec<Tensor>,
    b: Vec<Option<Tensor>>,
}
/// forward + objective + backward exactly as the training loop does for one sample; None on panic
fn net_backward(n: &Network, x: &Tensor, y: &Tensor) -> Option<LibGrads> {
    catch_unwind(AssertUnwindSafe(|| {
        let (pre, post, mx, fb) = n.forward(x);
        let (_, g) = n.verif_objective().loss(post.last().unwrap(), y);
        let (w, b) = n.verif_backward(g, &pre, &post, &mx, fb);
        LibGrads { w, b }
    }))
    .ok()
}
/// the library's gradient for one parameter tensor, flattened in the order of `get_param`
/// (gradient lists are in reversed layer order, also inside a block)
fn lib_grad(g: &LibGrads, nlayers: usize, a: PAddr) -> Option<Vec<f32>> {
    let i = nlayers.checked_sub(1 + a.layer)?;
    match a.pk {
        PK::W | PK::K => {
            let t = g.w.get(i)?;
            match (&t.data, a.inner) {
                (Data::Nested(l), Some(j)) => {
                    let k = l.len().checked_sub(1 + j)?;
                    Some(flat_of(&l[k]))
                }
                (Data::Nested(_), None) => None,
                (_, None) => Some(flat_of(t)),
                _ => None,
            }
        }
        PK::B => {
            let t = g.b.get(i)?.as_ref()?;
            match (&t.data, a.inner) {
                (Data::NestedOptional(l), Some(j)) => {
                    let k = l.len().checked_sub(1 + j)?;
                    l[k].as_ref().map(flat_of)
                }
                (Data::NestedOptional(_), None) => None,
                (_, None) => Some(flat_of(t)),
                _ => None,
            }
        }
    }
}

// ------------------------------------------------------------------ finite differences
struct Fd {
    /// Richardson-extrapolated central difference
    d: f64,
    /// |D(h) - D(h/2)|: bound on the truncation error of D(h/2), enters the tolerance
    unc: f64,
}
/// `eval(t)` evaluates the function with the coordinate set to `t`
fn fd_coord(t0: f32, base: &Pat, eval: &mut dyn FnMut(f32) -> Ev) -> Option<Fd> {
    let mut ds = [0.0f64; 2];
    for (k, s) in [H, H / 2.0].iter().enumerate() {
        let tp = t0 + s;
        let tm = t0 - s;
        let (lp, pp) = match eval(tp) {
            Ev::Ok(l, p) => (l, p),
            _ => return None,
        };
        let (lm, pm) = match eval(tm) {
            Ev::Ok(l, p) => (l, p),
            _ => return None,
        };
        if pp != *base || pm != *base {
            return None; // an activation kink / pooling tie / residual sign change within the step
        }
        let dt = tp as f64 - tm as f64;
        if !(dt > 0.0) {
            return None;
        }
        ds[k] = (lp - lm) / dt;
    }
    Some(Fd { d: (4.0 * ds[1] - ds[0]) / 3.0, unc: (ds[0] - ds[1]).abs() })
}
fn fd_param(n: &mut Network, a: PAddr, idx: usize, base: &Pat, f: &dyn Fn(&Network) -> Ev) -> Option<Fd> {
    let mut v = get_param(n, a);
    let t0 = v[idx];
    let r = fd_coord(t0, base, &mut |t| {
        v[idx] = t;
        set_param(n, a, &v);
        f(n)
    });
    v[idx] = t0;
    set_param(n, a, &v);
    r
}
fn fd_input(x: &Tensor, idx: usize, base: &Pat, f: &dyn Fn(&Tensor) -> Ev) -> Option<Fd> {
    let mut v = flat_of(x);
    let t0 = v[idx];
    fd_coord(t0, base, &mut |t| {
        v[idx] = t;
        f(&tensor_of_shape(&x.shape, &v))
    })
}
fn sample(rng: &mut Rng, n: usize, k: usize) -> Vec<usize> {
    if n <= k {
        return (0..n).collect();
    }
    let mut v: Vec<usize> = (0..n).collect();
    for i in 0..k {
        let j = i + rng.below(n - i);
        v.swap(i, j);
    }
    v.truncate(k);
    v.sort();
    v
}

/// outcome of comparing one gradient tensor with finite differences on sampled coordinates
struct Verdict {
    checked: usize,
    skipped: usize,
    ratio: f64,
    bad: Option<String>,
}
/// `glib`: the library's gradient (flat); `fd(i)`: finite difference in coordinate i (None = unusable)
fn compare(glib: &[f32], count: usize, coords: &[usize], scale0: f64, fd: &mut dyn FnMut(usize) -> Option<Fd>) -> Verdict {
    let mut v = Verdict { checked: 0, skipped: 0, ratio: 0.0, bad: None };
    if glib.len() != count {
        v.checked = 1;
        v.ratio = f64::INFINITY;
        v.bad = Some(format!("the returned gradient has {} entries but the tensor it belongs to has {}", glib.len(), count));
        return v;
    }
    let gmax = glib.iter().fold(0.0f64, |m, g| m.max(g.abs() as f64));
    let mut worst: Option<(f64, String)> = None;
    for &i in coords {
        let r = match fd(i) {
            Some(r) => r,
            None => {
                v.skipped += 1;
                continue;
            }
        };
        let g = glib[i] as f64;
        let scale = scale0.max(gmax).max(0.25);
        if r.unc > 0.05 * (scale + r.d.abs()) {
            v.skipped += 1; // the difference quotient itself is unreliable here
            continue;
        }
        v.checked += 1;
        let tol = ATOL * scale + RTOL * r.d.abs().max(g.abs()) + 2.0 * r.unc;
        let err = if g.is_finite() { (g - r.d).abs() } else { f64::INFINITY };
        let ratio = err / tol;
        if ratio > v.ratio {
            v.ratio = ratio;
        }
        if !(err <= tol) && worst.as_ref().map_or(true, |w| ratio > w.0) {
            worst = Some((ratio, format!("flat index {}: library gradient {:e}, finite difference {:e} (+-{:.1e}), tolerance {:.2e}; whole library gradient {:?}", i, g, r.d, r.unc, tol, glib)));
        }
    }
    v.bad = worst.map(|w| w.1);
    v
}

// ------------------------------------------------------------------ generation of layers and networks
fn wvals(rng: &mut Rng, n: usize, fan_in: usize) -> Vec<f32> {
    let sc = if fan_in <= 4 { 1.0 } else if fan_in <= 16 { 0.5 } else if fan_in <= 64 { 0.25 } else { 0.125 };
    (0..n).map(|_| (rng.range(0, 128) as f32 - 64.0) / 64.0 * sc).collect()
}
/// explicit dyadic parameters of moderate size for layer `l` on input `inp`
fn gen_w(rng: &mut Rng, l: &Simple, inp: Sh) -> W {
    match l {
        Simple::Dense { out, bias, .. } => {
            let i = inp.numel();
            W::Dense(t2(*out, i, &wvals(rng, out * i, i)), if *bias { Some(t1(wvals(rng, *out, 1))) } else { None })
        }
        Simple::Conv { filters, kernel, .. } | Simple::Deconv { filters, kernel, .. } => {
            let ic = as_spatial(inp).map_or(1, |s| s.0);
            let m = ic * kernel.0 * kernel.1;
            W::Kernels((0..*filters).map(|_| t3(ic, kernel.0, kernel.1, &wvals(rng, m, m))).collect())
        }
        Simple::Maxpool { .. } => W::None,
    }
}
fn gen_x(rng: &mut Rng, s: Sh) -> Tensor {
    tensor_of_shape(&s.to_shape(), &rng.vec(s.numel(), 2))
}

fn rdense(rng: &mut Rng, out: usize, acts: &[Act]) -> Simple {
    Simple::Dense { out, act: *rng.pick(acts), bias: rng.coin(), dropout: None }
}
const SMOOTH: [Act; 3] = [Act::Linear, Act::Sigmoid, Act::Tanh];
const ELEMENTWISE: [Act; 5] = [Act::Linear, Act::Sigmoid, Act::Tanh, Act::ReLU, Act::Leaky];

fn at_least_one_gt1(rng: &mut Rng, max: usize) -> (usize, usize) {
    loop {
        let p = (rng.range(1, max), rng.range(1, max));
        if p.0 > 1 || p.1 > 1 {
            return p;
        }
    }
}
/// a valid convolution on `inp` whose class flags (stride>1, dilation>1, padding>=kernel) are as requested
fn rand_conv(rng: &mut Rng, inp: (usize, usize, usize), want: (bool, bool, bool), acts: &[Act]) -> Option<Simple> {
    for _ in 0..60 {
        let kernel = (rng.range(1, 3), rng.range(1, 3));
        let stride = if want.0 { at_least_one_gt1(rng, 3) } else { (1, 1) };
        let dilation = if want.1 { at_least_one_gt1(rng, 3) } else { (1, 1) };
        let padding = if want.2 {
            // at least one dimension with padding >= kernel
            let a = (rng.range(0, 4), rng.range(0, 4));
            if a.0 >= kernel.0 || a.1 >= kernel.1 {
                a
            } else if rng.coin() {
                (kernel.0 + rng.below(2), a.1)
            } else {
                (a.0, kernel.1 + rng.below(2))
            }
        } else {
            (rng.range(0, kernel.0 - 1), rng.range(0, kernel.1 - 1))
        };
        let l = Simple::Conv { filters: rng.range(1, 3), kernel, stride, padding, dilation, act: *rng.pick(acts), dropout: None };
        if let Some(Sh::Sp(f, h, w)) = out_shape(&l, Sh::Sp(inp.0, inp.1, inp.2)) {
            if h <= 8 && w <= 8 && f * h * w <= MAXN {
                return Some(l);
            }
        }
    }
    None
}
/// in some dimension the dilated kernel is larger than what `Convolution::backward` pads the delta to:
/// (kernel-1)*(dilation-1) > (input-1)*stride
fn conv_bwd_underflow(l: &Simple, inp: (usize, usize, usize)) -> bool {
    if let Simple::Conv { kernel, stride, dilation, .. } = l {
        (kernel.0 - 1) * (dilation.0 - 1) > (inp.1 - 1) * stride.0 || (kernel.1 - 1) * (dilation.1 - 1) > (inp.2 - 1) * stride.1
    } else {
        false
    }
}
/// dilation > 1 in a dimension where the kernel extends over more than one cell
fn conv_dilation_effective(l: &Simple) -> bool {
    if let Simple::Conv { kernel, dilation, .. } = l {
        (kernel.0 > 1 && dilation.0 > 1) || (kernel.1 > 1 && dilation.1 > 1)
    } else {
        false
    }
}
/// class of a convolution configuration on input (channels, height, width)
fn conv_flags(l: &Simple, inp: (usize, usize, usize)) -> String {
    if let Simple::Conv { kernel, stride, padding, dilation, .. } = l {
        let mut v = vec![];
        if stride.0 > 1 || stride.1 > 1 {
            v.push("stride>1");
        }
        if dilation.0 > 1 || dilation.1 > 1 {
            v.push(if conv_bwd_underflow(l, inp) { "dilation>1[(kernel-1)*(dilation-1)>(input-1)*stride]" } else { "dilation>1" });
        }
        if padding.0 >= kernel.0 || padding.1 >= kernel.1 {
            v.push("padding>=kernel");
        }
        if v.is_empty() {
            "basic".into()
        } else {
            v.join("+")
        }
    } else {
        "-".into()
    }
}
/// the forward pass of a deconvolution evaluates (i-1)*s - 2p + k left to right in usize
fn deconv_fwd_ok(inp: (usize, usize, usize), stride: P2, padding: P2) -> bool {
    (inp.1 - 1) * stride.0 >= 2 * padding.0 && (inp.2 - 1) * stride.1 >= 2 * padding.1
}
fn rand_deconv(rng: &mut Rng, inp: (usize, usize, usize), acts: &[Act], underflow: bool) -> Option<Simple> {
    let want = (rng.coin(), rng.coin());
    rand_deconv_class(rng, inp, acts, underflow, want)
}
/// `want`: (stride>1 in some dimension, padding>0 in some dimension)
fn rand_deconv_class(rng: &mut Rng, inp: (usize, usize, usize), acts: &[Act], underflow: bool, want: (bool, bool)) -> Option<Simple> {
    for _ in 0..60 {
        let kernel = (rng.range(1, 3), rng.range(1, 3));
        let stride = if want.0 { at_least_one_gt1(rng, 3) } else { (1, 1) };
        let padding = if want.1 || underflow {
            loop {
                let p = (rng.range(0, 3), rng.range(0, 3));
                if p.0 > 0 || p.1 > 0 {
                    break p;
                }
            }
        } else {
            (0, 0)
        };
        let l = Simple::Deconv { filters: rng.range(1, 3), kernel, stride, padding, act: *rng.pick(acts), dropout: None };
        if let Some(Sh::Sp(f, h, w)) = out_shape(&l, Sh::Sp(inp.0, inp.1, inp.2)) {
            if h <= 8 && w <= 8 && f * h * w <= MAXN && deconv_fwd_ok(inp, stride, padding) != underflow {
                return Some(l);
            }
        }
    }
    None
}
fn deconv_flags(l: &Simple) -> String {
    if let Simple::Deconv { stride, padding, .. } = l {
        let mut v = vec![];
        if stride.0 > 1 || stride.1 > 1 {
            v.push("stride>1");
        }
        if padding.0 > 0 || padding.1 > 0 {
            v.push("padding>0");
        }
        if v.is_empty() {
            "basic".into()
        } else {
            v.join("+")
        }
    } else {
        "-".into()
    }
}
fn rand_pool(rng: &mut Rng, inp: (usize, usize, usize)) -> Option<Simple> {
    let kernel = (rng.range(1, 3.min(inp.1)), rng.range(1, 3.min(inp.2)));
    let stride = (rng.range(1, 3), rng.range(1, 3));
    Some(Simple::Maxpool { kernel, stride })
}
/// class of a max-pool layer that is fed with a flat tensor of r*r elements (output of a dense layer)
fn pool_flat_class(l: &LayerSpec, r: usize) -> &'static str {
    if let LayerSpec::One(Simple::Maxpool { kernel, stride }) = l {
        if *kernel == (1, 1) && *stride == (1, 1) {
            return "kernel=1x1,stride=1x1";
        }
        let oh = (r - kernel.0) / stride.0 + 1;
        let ow = (r - kernel.1) / stride.1 + 1;
        if oh < kernel.0 || ow < kernel.1 {
            "pooling[output<kernel]"
        } else {
            "pooling"
        }
    } else {
        "-"
    }
}
fn pool_flags(l: &Simple) -> &'static str {
    if let Simple::Maxpool { kernel, stride } = l {
        if stride.0 < kernel.0 || stride.1 < kernel.1 {
            "overlapping-windows(stride<kernel)"
        } else {
            "disjoint-windows(stride>=kernel)"
        }
    } else {
        "-"
    }
}

/// incremental construction of a network description with explicit weights and shape tracking
struct NetB {
    spec: NetSpec,
    /// input shape of every layer, then the output shape of the last
    shapes: Vec<Sh>,
    ws: Vec<LW>,
}
impl NetB {
    fn new(input: Sh) -> Self {
        NetB { spec: NetSpec::new(input.to_shape()), shapes: vec![input], ws: vec![] }
    }
    fn cur(&self) -> Sh {
        *self.shapes.last().unwrap()
    }
    /// whether the builder accepts this kind at this position (first layer kind must match the input kind)
    fn fits(&self, l: &Simple) -> bool {
        let first = self.spec.layers.is_empty();
        match (l, self.cur()) {
            (Simple::Dense { .. }, Sh::Flat(_)) => true,
            (Simple::Dense { .. }, Sh::Sp(..)) => !first,
            (_, Sh::Sp(..)) => true,
            (_, Sh::Flat(n)) => !first && n >= 1 && isqrt(n) * isqrt(n) == n,
        }
    }
    fn push(&mut self, rng: &mut Rng, l: Simple) -> bool {
        if !self.fits(&l) {
            return false;
        }
        let cur = self.cur();
        let out = match out_shape(&l, cur) {
            Some(o) if o.numel() >= 1 && o.numel() <= MAXN => o,
            _ => return false,
        };
        let inp_for_w = match (&l, cur) {
            (Simple::Dense { .. }, _) => Sh::Flat(cur.numel()),
            (_, s) => match as_spatial(s) {
                Some((c, h, w)) => Sh::Sp(c, h, w),
                None => return false,
            },
        };
        self.ws.push(LW::One(gen_w(rng, &l, inp_for_w)));
        self.spec.layers.push(LayerSpec::One(l));
        self.shapes.push(out);
        true
    }
    /// a feedback block without skips; `ls` must preserve the shape
    fn push_block(&mut self, rng: &mut Rng, ls: Vec<Simple>, loops: usize) -> bool {
        let cur = self.cur();
        let mut c = cur;
        let mut ws = vec![];
        for l in &ls {
            let inp_for_w = match (l, c) {
                (Simple::Dense { .. }, Sh::Flat(n)) => Sh::Flat(n),
                (Simple::Dense { .. }, _) => return false,
                (_, Sh::Sp(a, b, d)) => Sh::Sp(a, b, d),
                _ => return false,
            };
            ws.push(gen_w(rng, l, inp_for_w));
            c = match out_shape(l, c) {
                Some(o) => o,
                None => return false,
            };
        }
        if c != cur {
            return false;
        }
        self.ws.push(LW::Block(ws));
        self.spec.layers.push(LayerSpec::Block { layers: ls, loops, inskips: false, outskips: false, acc: Acc::Mean });
        self.shapes.push(cur);
        true
    }
    fn finish(mut self) -> (NetSpec, Vec<Sh>) {
        self.spec.weights = Some(self.ws);
        (self.spec, self.shapes)
    }
}

fn rand_input_shape(rng: &mut Rng, spatial: bool) -> Sh {
    if spatial {
        Sh::Sp(rng.range(1, 3), rng.range(2, 6), rng.range(2, 6))
    } else {
        Sh::Flat(rng.range(1, 6))
    }
}
/// one random layer of a kind that fits; convolutions are "basic" (stride 1, dilation 1, padding < kernel)
/// unless `dirty` requests class flags; max-pool directly after a dense layer is never produced here
fn rand_layer(rng: &mut Rng, b: &NetB, acts: &[Act], kinds: &[&str], last: bool) -> Option<Simple> {
    for _ in 0..40 {
        let kind = *rng.pick(kinds);
        let cur = b.cur();
        let sp = as_spatial(cur);
        let l = match kind {
            "dense" => {
                let out = if last { rng.range(1, 6) } else { *rng.pick(&[1usize, 2, 3, 4, 4, 5, 6, 9, 9, 16]) };
                Some(Simple::Dense { out, act: *rng.pick(acts), bias: rng.coin(), dropout: None })
            }
            "conv" => sp.and_then(|s| rand_conv(rng, s, (false, false, false), acts)),
            "deconv" => sp.and_then(|s| rand_deconv(rng, s, acts, false)),
            "maxpool" => match cur {
                Sh::Sp(c, h, w) => rand_pool(rng, (c, h, w)),
                Sh::Flat(_) => None,
            },
            _ => None,
        };
        if let Some(l) = l {
            if b.fits(&l) {
                if let Some(o) = out_shape(&l, cur) {
                    if o.numel() >= 1 && o.numel() <= MAXN {
                        return Some(l);
                    }
                }
            }
        }
    }
    None
}
fn rand_seq_net(rng: &mut Rng, depth: usize, acts: &[Act], spatial: bool) -> Option<NetB> {
    let mut b = NetB::new(rand_input_shape(rng, spatial));
    for k in 0..depth {
        let l = rand_layer(rng, &b, acts, &["dense", "conv", "deconv", "maxpool", "conv", "dense"], k + 1 == depth)?;
        if !b.push(rng, l) {
            return None;
        }
    }
    Some(b)
}
fn set_act(l: &mut LayerSpec, a: Act) -> bool {
    match l {
        LayerSpec::One(Simple::Dense { act, .. }) | LayerSpec::One(Simple::Conv { act, .. }) | LayerSpec::One(Simple::Deconv { act, .. }) => {
            *act = a;
            true
        }
        _ => false,
    }
}
/// makes the predictions lie in (0,1): the last parameterised layer gets a sigmoid (only max-pools may follow)
fn force_unit_outputs(spec: &mut NetSpec) -> bool {
    for l in spec.layers.iter_mut().rev() {
        match l {
            LayerSpec::One(Simple::Maxpool { .. }) => continue,
            LayerSpec::Block { .. } => return false,
            l => return set_act(l, Act::Sigmoid),
        }
    }
    false
}
fn gen_target(rng: &mut Rng, out: Sh, obj: Obj) -> Tensor {
    let n = out.numel();
    let v: Vec<f32> = match obj {
        Obj::BCE => (0..n).map(|_| if rng.chance(1, 4) { rng.below(2) as f32 } else { rng.unit() * 0.9 + 0.05 }).collect(),
        Obj::KL => (0..n).map(|_| rng.unit() * 0.9 + 0.05).collect(),
        Obj::CE => {
            if rng.coin() {
                let mut v = vec![0.0f32; n];
                v[rng.below(n)] = 1.0;
                v
            } else {
                let mut v: Vec<f32> = (0..n).map(|_| rng.unit() * 0.9 + 0.05).collect();
                let s: f32 = v.iter().sum();
                v.iter_mut().for_each(|x| *x /= s);
                v
            }
        }
        _ => (0..n).map(|_| rng.sym() * 2.0).collect(),
    };
    tensor_of_shape(&out.to_shape(), &v)
}

// ------------------------------------------------------------------ whole-network gradient check
/// Compares every parameter gradient of `verif_backward` with finite differences of the library's
/// own forward + objective. `key_of(addr, kind-name)` gives the class of the checked tensor
/// (None: do not check this tensor). Returns false when the case had to be dropped (domain).
fn check_net_grads(
    f: &mut Fals,
    rng: &mut Rng,
    spec: &NetSpec,
    x: &Tensor,
    y: &Tensor,
    kmax: usize,
    key_of: &dyn Fn(PAddr, &'static str) -> Option<String>,
) -> bool {
    let built = catch_unwind(AssertUnwindSafe(|| spec.build()));
    let mut n = match built {
        Ok(n) => n,
        Err(_) => return false, // the builder's behaviour is not the subject here
    };
    if !check_net_grads_on(f, rng, spec, &mut n, x, y, kmax, key_of, "") {
        return false;
    }
    // second pass on the SAME network object after the library's own update path has changed the
    // parameters (two steps of learn on the sample): the gradients must be the derivative at the
    // parameters the network holds NOW (no state of an earlier backward pass may survive an update)
    let mut spec2 = spec.clone();
    spec2.opt = Opt::SGD { lr: 0.05, decay: None };
    if let Ok(n2) = catch_unwind(AssertUnwindSafe(|| spec2.build())) {
        let mut n2 = n2;
        let warm = catch_unwind(AssertUnwindSafe(|| {
            let _ = net_backward(&n2, x, y);
            let _ = n2.learn(&vec![x], &vec![y], None, 1, 2, None);
            n2
        }));
        if let Ok(mut n2) = warm {
            let finite = param_addrs(&n2).iter().all(|a| get_param(&n2, *a).iter().all(|v| v.is_finite() && v.abs() < 1e3));
            if finite {
                let _ = check_net_grads_on(f, rng, &spec2, &mut n2, x, y, kmax, key_of, " [after two update steps of learn on this network object]");
            }
        }
    }
    // third pass, networks with skip connections: the public map `connect` is assigned directly (the first
    // connection removed; and all connections inserted into a network built without them) - forward and backward
    // pass both follow the map as it is NOW, so the gradients are still the derivative of what predict computes
    if !spec.connect.is_empty() && spec.loops.is_empty() {
        if let Ok(mut n3) = catch_unwind(AssertUnwindSafe(|| spec.build())) {
            let mut m = n3.connect.clone();
            m.remove(&spec.connect[0].1);
            n3.connect = m;
            let _ = check_net_grads_on(f, rng, spec, &mut n3, x, y, kmax, key_of, " [after `connect` was assigned directly: the first connection removed]");
        }
        let mut bare = spec.clone();
        bare.connect = vec![];
        if let Ok(mut n4) = catch_unwind(AssertUnwindSafe(|| bare.build())) {
            n4.connect = spec.connect.iter().map(|&(from, into)| (into, from)).collect();
            let _ = check_net_grads_on(f, rng, spec, &mut n4, x, y, kmax, key_of, " [built without connections, `connect` filled directly]");
        }
    }
    true
}

fn check_net_grads_on(
    f: &mut Fals,
    rng: &mut Rng,
    spec: &NetSpec,
    n: &mut Network,
    x: &Tensor,
    y: &Tensor,
    kmax: usize,
    key_of: &dyn Fn(PAddr, &'static str) -> Option<String>,
    note: &str,
) -> bool {
    let kinks = kinks_of(spec);
    let addrs = param_addrs(n);
    let desc = || format!("{}; sample input {}; target {}{}", show_spec(spec), show_t(x), show_t(y), note);
    let keys: Vec<(PAddr, String)> = addrs.iter().filter_map(|a| key_of(*a, kind_name(n, *a)).map(|k| (*a, k))).collect();
    let (l0, base) = match net_eval(n, &kinks, spec.obj, x, y) {
        Ev::Ok(l, p) => (l, p),
        Ev::Invalid => return false,
        Ev::Panic => {
            for (_, k) in &keys {
                f.check(k, false, "forward pass / objective panicked on a valid network and input", desc);
            }
            return true;
        }
    };
    // the library gradient is taken BEFORE any parameter is touched by the finite differences
    let g = match net_backward(n, x, y) {
        Some(g) => g,
        None => {
            for (_, k) in &keys {
                f.check(k, false, "backward pass panicked on a valid network and input", desc);
            }
            return true;
        }
    };
    let nl = n.layers.len();
    for (a, key) in keys {
        let count = get_param(n, a).len();
        let glib = match lib_grad(&g, nl, a) {
            Some(v) => v,
            None => {
                f.check(&key, false, "no gradient returned for a parameter tensor", || format!("{}; parameter {:?}", desc(), a));
                continue;
            }
        };
        let coords = sample(rng, count, kmax);
        let obj = spec.obj;
        let v = compare(&glib, count, &coords, l0.abs(), &mut |i| fd_param(n, a, i, &base, &|n| net_eval(n, &kinks, obj, x, y)));
        stat(&key, if v.bad.is_some() { 0.0 } else { v.ratio }, v.checked, v.skipped);
        if v.checked == 0 {
            continue;
        }
        let bad = v.bad;
        f.check(&key, bad.is_none(), "parameter gradient differs from the finite-difference derivative of the library's own loss", || {
            format!("{}; parameter tensor {:?} (layer index, unrolled position in block, W=dense weights/B=bias/K=kernels): {}", desc(), a, bad.unwrap_or_default())
        });
    }
    true
}

// ------------------------------------------------------------------ single layers: input / weight / bias gradients
/// runs the public forward of one layer
fn layer_fwd(l: &network::Layer, x: &Tensor) -> (Tensor, Tensor, Option<Tensor>) {
    match l {
        network::Layer::Dense(d) => {
            let (a, b) = d.forward(x);
            (a, b, None)
        }
        network::Layer::Convolution(d) => {
            let (a, b) = d.forward(x);
            (a, b, None)
        }
        network::Layer::Deconvolution(d) => {
            let (a, b) = d.forward(x);
            (a, b, None)
        }
        network::Layer::Maxpool(d) => {
            let (a, b, m) = d.forward(x);
            (a, b, Some(m))
        }
        network::Layer::Feedback(d) => {
            let (a, b, _, _, _) = d.forward(x);
            (a, b, None)
        }
    }
}
/// phi(x, theta) = sum_k g_k * post_k(x, theta), accumulated in f64
fn layer_eval(n: &Network, li: usize, relu: bool, g: &[f32], x: &Tensor) -> Ev {
    catch_unwind(AssertUnwindSafe(|| {
        let (pre, post, mx) = layer_fwd(&n.layers[li], x);
        let p = flat_of(&post);
        if p.len() != g.len() || p.iter().any(|v| !v.is_finite()) {
            return Ev::Invalid;
        }
        let mut pat = vec![];
        if relu {
            push_signs(&mut pat, &pre);
        }
        if let Some(m) = &mx {
            push_max(&mut pat, m);
        }
        Ev::Ok(p.iter().zip(g.iter()).map(|(a, b)| *a as f64 * *b as f64).sum(), pat)
    }))
    .unwrap_or(Ev::Panic)
}
fn layer_bwd(l: &network::Layer, g: &Tensor, x: &Tensor) -> Option<(Tensor, Option<Tensor>, Option<Tensor>)> {
    catch_unwind(AssertUnwindSafe(|| match l {
        network::Layer::Dense(d) => {
            let (pre, _) = d.forward(x);
            let (i, w, b) = d.backward(g, x, &pre);
            (i, Some(w), b)
        }
        network::Layer::Convolution(d) => {
            let (pre, _) = d.forward(x);
            let (i, w, b) = d.backward(g, x, &pre);
            (i, Some(w), b)
        }
        network::Layer::Deconvolution(d) => {
            let (pre, _) = d.forward(x);
            let (i, w, b) = d.backward(g, x, &pre);
            (i, Some(w), b)
        }
        network::Layer::Maxpool(d) => {
            let (_, _, mx) = d.forward(x);
            (d.backward(g, &mx), None, None)
        }
        network::Layer::Feedback(_) => panic!("not a plain layer"),
    }))
    .ok()
}

/// Checks the public `backward` of layer `li` of the network built from `spec` on input `x`
/// (the input of that layer) with upstream gradient `g`: input gradient, weight/kernel gradient
/// and bias gradient against finite differences of the layer's own public `forward`.
fn check_layer(f: &mut Fals, rng: &mut Rng, spec: &NetSpec, li: usize, x: &Tensor, g: &Tensor, kmax: usize, keybase: &str, class: &str) {
    let mut n = match catch_unwind(AssertUnwindSafe(|| spec.build())) {
        Ok(n) => n,
        Err(_) => return,
    };
    let relu = match &spec.layers[li] {
        LayerSpec::One(s) => simple_relu(s),
        _ => false,
    };
    let sfx = if class.is_empty() { String::new() } else { format!("/{}", class) };
    let gflat = flat_of(g);
    let desc = || format!("layer {} of {{{}}}; layer input {}; upstream gradient {}", li, show_spec(spec), show_t(x), show_t(g));
    let wname = if matches!(spec.layers[li], LayerSpec::One(Simple::Dense { .. })) { "weight-grad" } else { "kernel-grad" };
    let has_w = !matches!(spec.layers[li], LayerSpec::One(Simple::Maxpool { .. }));
    let has_b = matches!(spec.layers[li], LayerSpec::One(Simple::Dense { bias: true, .. }));
    let mut keys = vec![format!("{}/input-grad{}", keybase, sfx)];
    if has_w {
        keys.push(format!("{}/{}{}", keybase, wname, sfx));
    }
    if has_b {
        keys.push(format!("{}/bias-grad{}", keybase, sfx));
    }
    let base = match layer_eval(&n, li, relu, &gflat, x) {
        Ev::Ok(_, p) => p,
        Ev::Invalid => return,
        Ev::Panic => {
            for k in &keys {
                f.check(k, false, "public forward of the layer panicked on a valid configuration and input", desc);
            }
            return;
        }
    };
    let (ig, wg, bg) = match layer_bwd(&n.layers[li], g, x) {
        Some(r) => r,
        None => {
            for k in &keys {
                f.check(k, false, "public backward of the layer panicked on a valid configuration and input", desc);
            }
            return;
        }
    };
    // scale of the check: sum_k |g_k * post_k| bounds the size of the rounding noise of phi
    let scale0 = {
        let (_, post, _) = layer_fwd(&n.layers[li], x);
        flat_of(&post).iter().zip(gflat.iter()).map(|(a, b)| (*a as f64 * *b as f64).abs()).sum::<f64>()
    };
    let record = |f: &mut Fals, key: &str, v: Verdict, what: &str| {
        stat(key, if v.bad.is_some() { 0.0 } else { v.ratio }, v.checked, v.skipped);
        if v.checked > 0 {
            let bad = v.bad;
            f.check(key, bad.is_none(), what, || format!("{}: {}", desc(), bad.unwrap_or_default()));
        }
    };
    // input gradient
    {
        let count = flat_of(x).len();
        let glib = flat_of(&ig);
        let coords = sample(rng, count, kmax);
        let v = compare(&glib, count, &coords, scale0, &mut |i| fd_input(x, i, &base, &|xx| layer_eval(&n, li, relu, &gflat, xx)));
        record(f, &keys[0], v, "input gradient of the layer differs from the finite-difference derivative of its own forward pass");
    }
    // weight / kernel gradient
    if let Some(wg) = wg {
        if has_w {
            let a = PAddr { layer: li, inner: None, pk: if wname == "weight-grad" { PK::W } else { PK::K } };
            let count = get_param(&n, a).len();
            let glib = flat_of(&wg);
            let coords = sample(rng, count, kmax);
            let v = compare(&glib, count, &coords, scale0, &mut |i| fd_param(&mut n, a, i, &base, &|n| layer_eval(n, li, relu, &gflat, x)));
            record(f, &keys[1], v, "weight/kernel gradient of the layer differs from the finite-difference derivative of its own forward pass");
        }
    }
    if has_b {
        let a = PAddr { layer: li, inner: None, pk: PK::B };
        let count = get_param(&n, a).len();
        match bg {
            Some(bg) => {
                let glib = flat_of(&bg);
                let coords = sample(rng, count, kmax);
                let v = compare(&glib, count, &coords, scale0, &mut |i| fd_param(&mut n, a, i, &base, &|n| layer_eval(n, li, relu, &gflat, x)));
                record(f, &keys[2], v, "bias gradient of the layer differs from the finite-difference derivative of its own forward pass");
            }
            None => f.check(&keys[2], false, "no bias gradient returned for a layer with bias", desc),
        }
    }
}

fn out_tensor_shape(spec: &NetSpec, li: usize, shapes: &[Sh]) -> Shape {
    // a spatial layer followed by a dense layer flattens its output
    let flat = matches!(spec.layers.get(li + 1), Some(LayerSpec::One(Simple::Dense { .. })));
    match shapes[li + 1] {
        Sh::Sp(c, h, w) if !flat => Shape::Triple(c, h, w),
        s => Shape::Single(s.numel()),
    }
}

/// single-layer cases of one kind; `variant` cycles through the classes
fn job_layer(rng: &mut Rng, kind: &str, variant: usize, kmax: usize) -> Fals {
    let mut f = Fals::new();
    let acts: &[Act] = &ELEMENTWISE;
    match kind {
        "dense" => {
            let mut b = NetB::new(Sh::Flat(rng.range(1, 8)));
            let l = Simple::Dense { out: rng.range(1, 8), act: ELEMENTWISE[variant % 5], bias: variant % 2 == 0, dropout: None };
            if !b.push(rng, l) {
                return f;
            }
            let (spec, shapes) = b.finish();
            let x = gen_x(rng, shapes[0]);
            let g = gen_x(rng, shapes[1]);
            check_layer(&mut f, rng, &spec, 0, &x, &g, kmax, "layer/dense", "");
        }
        "conv" | "deconv" | "maxpool" => {
            // 0: spatial input, plain; 1: output flattened (a dense layer follows); 2: flat input (a dense layer precedes)
            let form = if kind == "maxpool" { (variant / 8) % 2 } else { (variant / 8) % 3 };
            let inp = if form == 2 {
                let r = rng.range(2, 5);
                (1, r, r)
            } else {
                (rng.range(1, 3), rng.range(1, 6), rng.range(1, 6))
            };
            let l = match kind {
                "conv" => {
                    let v = variant % 8;
                    rand_conv(rng, inp, (v & 1 != 0, v & 2 != 0, v & 4 != 0), acts)
                }
                "deconv" => rand_deconv_class(rng, inp, acts, false, (variant & 1 != 0, variant & 2 != 0)),
                _ => rand_pool(rng, inp),
            };
            let l = match l {
                Some(l) => l,
                None => return f,
            };
            let class = match kind {
                "conv" => conv_flags(&l, inp),
                "deconv" => deconv_flags(&l),
                _ => pool_flags(&l).to_string(),
            };
            let mut b;
            let li;
            if form == 2 {
                b = NetB::new(Sh::Flat(rng.range(1, 4)));
                if !b.push(rng, Simple::Dense { out: inp.1 * inp.2, act: Act::Linear, bias: false, dropout: None }) {
                    return f;
                }
                li = 1;
            } else {
                b = NetB::new(Sh::Sp(inp.0, inp.1, inp.2));
                li = 0;
            }
            if !b.push(rng, l) {
                return f;
            }
            if form == 1 && !b.push(rng, Simple::Dense { out: 1, act: Act::Linear, bias: false, dropout: None }) {
                return f;
            }
            let (spec, shapes) = b.finish();
            let x = gen_x(rng, shapes[li]);
            let gs = out_tensor_shape(&spec, li, &shapes);
            let g = tensor_of_shape(&gs, &rng.vec(shape_numel(&gs), 2));
            check_layer(&mut f, rng, &spec, li, &x, &g, kmax, &format!("layer/{}", kind), &class);
        }
        "special-relation" => {
            // parameters in a special relation to each other / the input (netgen::special_relation_layers)
            let all = crate::netgen::special_relation_layers();
            let (inp, l) = all[variant % all.len()].clone();
            let kindname = l.kind();
            let mut b = NetB::new(inp);
            if !b.push(rng, l) {
                return f;
            }
            let (spec, shapes) = b.finish();
            let x = gen_x(rng, shapes[0]);
            let gs = out_tensor_shape(&spec, 0, &shapes);
            let g = tensor_of_shape(&gs, &rng.vec(shape_numel(&gs), 2));
            check_layer(&mut f, rng, &spec, 0, &x, &g, kmax, &format!("layer/{}", kindname), &format!("special-relation-{}", variant % all.len()));
        }
        "maxpool-flat" => {
            // max-pool fed with the flat output of a dense layer (element count r*r)
            let r = rng.range(2, 5);
            let ident = variant % 3 == 0;
            let l = if ident {
                Simple::Maxpool { kernel: (1, 1), stride: (1, 1) }
            } else {
                loop {
                    let l = Simple::Maxpool { kernel: (rng.range(1, 3.min(r)), rng.range(1, 3.min(r))), stride: (rng.range(1, 3), rng.range(1, 3)) };
                    if !matches!(l, Simple::Maxpool { kernel: (1, 1), stride: (1, 1) }) {
                        break l;
                    }
                }
            };
            let mut b = NetB::new(Sh::Flat(rng.range(1, 4)));
            if !b.push(rng, Simple::Dense { out: r * r, act: Act::Linear, bias: false, dropout: None }) || !b.push(rng, l) {
                return f;
            }
            let (spec, shapes) = b.finish();
            let x = gen_x(rng, shapes[1]);
            let gs = out_tensor_shape(&spec, 1, &shapes);
            let g = tensor_of_shape(&gs, &rng.vec(shape_numel(&gs), 2));
            check_layer(&mut f, rng, &spec, 1, &x, &g, kmax, "layer/maxpool-flat-input", pool_flat_class(&spec.layers[1], r));
        }
        "deconv-underflow" => {
            // valid output size, but (input-1)*stride < 2*padding in some dimension
            let inp = (rng.range(1, 2), rng.range(1, 4), rng.range(1, 4));
            if let Some(l) = rand_deconv(rng, inp, acts, true) {
                let mut b = NetB::new(Sh::Sp(inp.0, inp.1, inp.2));
                if !b.push(rng, l) {
                    return f;
                }
                let (spec, shapes) = b.finish();
                let x = gen_x(rng, shapes[0]);
                let gs = out_tensor_shape(&spec, 0, &shapes);
                let g = tensor_of_shape(&gs, &rng.vec(shape_numel(&gs), 2));
                check_layer(&mut f, rng, &spec, 0, &x, &g, kmax, "layer/deconv", "(input-1)*stride<2*padding");
            }
        }
        _ => (),
    }
    f
}

// ------------------------------------------------------------------ C01: network families
fn obj_name(o: Obj) -> &'static str {
    match o {
        Obj::AE => "ae",
        Obj::MSE => "mse",
        Obj::BCE => "bce",
        Obj::KL => "kl",
        Obj::CE => "ce",
        Obj::MAE => "mae",
        Obj::RMSE => "rmse",
    }
}
/// sequential networks of "basic" layers, depth 1..4, the four objectives whose gradient is their derivative
fn job_net_clean(rng: &mut Rng, variant: usize, kmax: usize) -> Fals {
    let mut f = Fals::new();
    let depth = 1 + variant % 4;
    let obj = [Obj::MSE, Obj::AE, Obj::BCE, Obj::KL][(variant / 4) % 4];
    let kinky = (variant / 16) % 3 == 2;
    let acts: &[Act] = if kinky { &ELEMENTWISE } else { &SMOOTH };
    for _ in 0..8 {
        let spatial = rng.chance(2, 3);
        let b = match rand_seq_net(rng, depth, acts, spatial) {
            Some(b) => b,
            None => continue,
        };
        let (mut spec, shapes) = b.finish();
        spec.obj = obj;
        if matches!(obj, Obj::BCE | Obj::KL) && !force_unit_outputs(&mut spec) {
            continue;
        }
        let x = gen_x(rng, shapes[0]);
        let y = gen_target(rng, *shapes.last().unwrap(), obj);
        if check_net_grads(&mut f, rng, &spec, &x, &y, kmax, &|_, kn| Some(format!("net/{}/{}", obj_name(obj), kn))) {
            break;
        }
    }
    f
}
/// exactly one convolution outside the basic class, everything else basic
/// (configurations for which `Convolution::backward` runs into the usize underflow are kept out of
/// the networks: they have their own class at the single-layer level)
fn job_net_dirty_conv(rng: &mut Rng, variant: usize, kmax: usize) -> Fals {
    let mut f = Fals::new();
    let want = [(true, false, false), (false, true, false), (false, false, true)][variant % 3];
    for _ in 0..20 {
        let (depth, pos) = match (variant / 3) % 4 {
            0 => (rng.range(2, 4), 0),
            1 => {
                let d = rng.range(2, 4);
                (d, d - 1)
            }
            2 => {
                let d = rng.range(3, 4);
                (d, rng.range(1, d - 2))
            }
            _ => {
                let d = rng.range(1, 4);
                (d, rng.below(d))
            }
        };
        let spatial = pos == 0 || rng.coin();
        let mut b = NetB::new(rand_input_shape(rng, spatial));
        let mut ok = true;
        let mut conv_in = (0, 0, 0);
        for k in 0..depth {
            let l = if k == pos {
                as_spatial(b.cur()).and_then(|s| {
                    conv_in = s;
                    rand_conv(rng, s, want, &SMOOTH)
                })
            } else {
                rand_layer(rng, &b, &SMOOTH, &["dense", "conv", "deconv", "maxpool", "dense"], k + 1 == depth)
            };
            ok = match l {
                Some(l) => b.push(rng, l),
                None => false,
            };
            if !ok {
                break;
            }
        }
        if !ok {
            continue;
        }
        let (mut spec, shapes) = b.finish();
        spec.obj = Obj::MSE;
        let (flags, wrong_shape) = match &spec.layers[pos] {
            LayerSpec::One(l) => {
                if conv_bwd_underflow(l, conv_in) {
                    continue;
                }
                (conv_flags(l, conv_in), conv_dilation_effective(l) && pos > 0)
            }
            _ => continue,
        };
        let x = gen_x(rng, shapes[0]);
        let y = gen_target(rng, *shapes.last().unwrap(), Obj::MSE);
        let key = |a: PAddr, _: &'static str| {
            let role = if a.layer == pos {
                "own-kernel"
            } else if a.layer < pos {
                "params-of-earlier-layers"
            } else if wrong_shape {
                // the input gradient of this convolution has fewer cells than its input and is handed to an earlier layer
                "params-of-later-layers[conv-is-not-the-first-layer]"
            } else {
                "params-of-later-layers"
            };
            Some(format!("net-with-one-nonbasic-conv/{}/{}", flags, role))
        };
        if check_net_grads(&mut f, rng, &spec, &x, &y, kmax, &key) {
            break;
        }
    }
    f
}
/// soft-max output layer under the cross-entropy objective
fn job_net_softmax_ce(rng: &mut Rng, variant: usize, kmax: usize) -> Fals {
    let mut f = Fals::new();
    for _ in 0..8 {
        let depth = 1 + variant % 3;
        let spatial = depth > 1 && rng.coin();
        let mut b = NetB::new(rand_input_shape(rng, spatial));
        let mut ok = true;
        for _ in 0..depth - 1 {
            ok = match rand_layer(rng, &b, &SMOOTH, &["dense", "conv", "deconv", "maxpool", "dense"], false) {
                Some(l) => b.push(rng, l),
                None => false,
            };
            if !ok {
                break;
            }
        }
        if !ok {
            continue;
        }
        let outs = if variant % 2 == 0 { 2 } else { rng.range(3, 5) };
        let sm = Simple::Dense { out: outs, act: Act::Softmax, bias: rng.coin(), dropout: None };
        if !b.push(rng, sm) {
            continue;
        }
        let (mut spec, shapes) = b.finish();
        spec.obj = Obj::CE;
        let x = gen_x(rng, shapes[0]);
        let y = gen_target(rng, *shapes.last().unwrap(), Obj::CE);
        let last = spec.layers.len() - 1;
        let key = |a: PAddr, _: &'static str| Some(format!("net/softmax-ce/{}", if a.layer == last { "output-layer-params" } else { "params-of-earlier-layers" }));
        if check_net_grads(&mut f, rng, &spec, &x, &y, kmax, &key) {
            break;
        }
    }
    f
}
/// the activation of a dense layer REPLACED after construction (`Network::set_activation`), across the soft-max
/// boundary in both directions: the backward pass follows the activation the layer has now (soft-max output under
/// cross-entropy: p - t; any other activation: its derivative at the pre-activation)
fn job_net_set_activation(rng: &mut Rng, variant: usize, kmax: usize) -> Fals {
    let mut f = Fals::new();
    for _ in 0..8 {
        let depth = 2 + variant % 2;
        let mut b = NetB::new(Sh::Flat(rng.range(1, 4)));
        let mut ok = true;
        for k in 0..depth {
            let outs = if k + 1 == depth { rng.range(2, 4) } else { rng.range(1, 4) };
            let l = rdense(rng, outs, &SMOOTH);
            ok = b.push(rng, l);
            if !ok {
                break;
            }
        }
        if !ok {
            continue;
        }
        let (mut fin, shapes) = b.finish();
        let last = fin.layers.len() - 1;
        // the FINAL configuration `fin` and the configuration the network is BUILT with `ini`
        let mut ini;
        let (idx, class) = match variant % 3 {
            0 => {
                // built with an element-wise output activation, switched to soft-max; cross-entropy
                ini = fin.clone();
                if let LayerSpec::One(Simple::Dense { act, .. }) = &mut fin.layers[last] { *act = Act::Softmax; }
                fin.obj = Obj::CE;
                (last, "output-to-softmax")
            }
            1 => {
                // built with a soft-max output, switched to an element-wise activation; mean-squared error
                ini = fin.clone();
                if let LayerSpec::One(Simple::Dense { act, .. }) = &mut ini.layers[last] { *act = Act::Softmax; }
                fin.obj = Obj::MSE;
                (last, "output-from-softmax")
            }
            _ => {
                // a HIDDEN layer built with soft-max, switched to an element-wise activation
                ini = fin.clone();
                if let LayerSpec::One(Simple::Dense { act, .. }) = &mut ini.layers[0] { *act = Act::Softmax; }
                fin.obj = Obj::MSE;
                (0, "hidden-from-softmax")
            }
        };
        ini.obj = fin.obj;
        let new_act = match &fin.layers[idx] { LayerSpec::One(Simple::Dense { act, .. }) => *act, _ => continue };
        let x = gen_x(rng, shapes[0]);
        let y = gen_target(rng, *shapes.last().unwrap(), fin.obj);
        let mut n = match catch_unwind(AssertUnwindSafe(|| { let mut n = ini.build(); n.set_activation(idx, new_act.to()); n })) {
            Ok(n) => n,
            Err(_) => continue,
        };
        let key = |a: PAddr, _: &'static str| Some(format!("net/set-activation/{}/{}", class, if a.layer == idx { "params-of-the-switched-layer" } else if a.layer < idx { "params-of-earlier-layers" } else { "params-of-later-layers" }));
        if check_net_grads_on(&mut f, rng, &fin, &mut n, &x, &y, kmax, &key, " [the network was built with another activation on this layer; set_activation installed the one shown]") {
            break;
        }
    }
    f
}
/// shape-preserving layer lists for a feedback block
fn block_layers(rng: &mut Rng, inp: Sh, nl: usize, acts: &[Act], with_pool: bool) -> Vec<Simple> {
    let mut ls = vec![];
    match inp {
        Sh::Flat(n) => {
            for k in 0..nl {
                let out = if k + 1 == nl { n } else { rng.range(1, 5) };
                ls.push(Simple::Dense { out, act: *rng.pick(acts), bias: rng.coin(), dropout: None });
            }
        }
        Sh::Sp(c, h, w) => {
            // with_pool, half of the time: a max-pool with a real window - a 2x2 deconvolution grows the
            // image by one, the 2x2 / stride 1 pool shrinks it back (optionally a 1x3 "same" convolution after it)
            if with_pool && rng.coin() {
                let smooth = [Act::Tanh, Act::Sigmoid, Act::Linear];
                let f = if nl == 2 { c } else { rng.range(1, 2) };
                ls.push(Simple::Deconv { filters: f, kernel: (2, 2), stride: (1, 1), padding: (0, 0), act: *rng.pick(&smooth), dropout: None });
                ls.push(Simple::Maxpool { kernel: (2, 2), stride: (1, 1) });
                if nl > 2 {
                    ls.push(Simple::Conv { filters: c, kernel: (1, 3), stride: (1, 1), padding: (0, 1), dilation: (1, 1), act: *rng.pick(&smooth), dropout: None });
                }
                return ls;
            }
            // with_pool: a 1x1 max-pool at position 1; it keeps the channel count of the layer before it
            for k in 0..nl {
                if with_pool && k == 1 {
                    ls.push(Simple::Maxpool { kernel: (1, 1), stride: (1, 1) });
                    continue;
                }
                let last_param = k + 1 == nl || (with_pool && k == 0 && nl == 2);
                let filters = if last_param { c } else { rng.range(1, 3) };
                let l = if rng.chance(2, 3) {
                    let kh = *rng.pick(&[1usize, 3]);
                    let kw = *rng.pick(&[1usize, 3]);
                    Simple::Conv { filters, kernel: (kh, kw), stride: (1, 1), padding: ((kh - 1) / 2, (kw - 1) / 2), dilation: (1, 1), act: *rng.pick(acts), dropout: None }
                } else {
                    let kh = if h >= 3 { *rng.pick(&[1usize, 3]) } else { 1 };
                    let kw = if w >= 3 { *rng.pick(&[1usize, 3]) } else { 1 };
                    Simple::Deconv { filters, kernel: (kh, kw), stride: (1, 1), padding: ((kh - 1) / 2, (kw - 1) / 2), act: *rng.pick(acts), dropout: None }
                };
                ls.push(l);
            }
        }
    }
    ls
}
/// [optional layer] feedback block without skips, 1..3 loops [optional dense]
fn job_net_feedback(rng: &mut Rng, variant: usize, kmax: usize) -> Fals {
    let mut f = Fals::new();
    let loops = 1 + variant % 3;
    let with_pool = variant % 8 == 7;
    for _ in 0..10 {
        let spatial = rng.coin() || with_pool;
        let acts: &[Act] = if rng.chance(1, 4) { &ELEMENTWISE } else { &SMOOTH };
        let prefix = rng.coin();
        let follow = rng.coin();
        let mut b;
        if spatial {
            b = NetB::new(Sh::Sp(rng.range(1, 2), rng.range(2, 4), rng.range(2, 4)));
            if prefix {
                let l = match as_spatial(b.cur()).and_then(|s| if rng.coin() { rand_conv(rng, s, (false, false, false), acts) } else { rand_deconv(rng, s, acts, false) }) {
                    Some(l) => l,
                    None => continue,
                };
                if !b.push(rng, l) {
                    continue;
                }
            }
        } else {
            b = NetB::new(Sh::Flat(rng.range(1, 5)));
            if prefix && !{ let o_ = rng.range(1, 5); let l_ = rdense(rng, o_, acts); b.push(rng, l_) } {
                continue;
            }
        }
        if let Sh::Sp(_, h, w) = b.cur() {
            if h > 5 || w > 5 {
                continue;
            }
        }
        let nl = if with_pool { rng.range(2, 3) } else { rng.range(1, 3) };
        let ls = block_layers(rng, b.cur(), nl, acts, with_pool);
        if !b.push_block(rng, ls, loops) {
            continue;
        }
        // a second block (other depth, other loop count): the backward pass must hand every block
        // the tensors recorded for THAT block
        let two_blocks = !with_pool && variant % 4 == 2;
        if two_blocks {
            let nl2 = if nl == 1 { 2 } else { 1 };
            let ls2 = block_layers(rng, b.cur(), nl2, acts, false);
            if !b.push_block(rng, ls2, 1 + (loops % 3)) {
                continue;
            }
        }
        if follow && !{ let o_ = rng.range(1, 4); let l_ = rdense(rng, o_, acts); b.push(rng, l_) } {
            continue;
        }
        let (mut spec, shapes) = b.finish();
        spec.obj = *rng.pick(&[Obj::MSE, Obj::MSE, Obj::AE]);
        let x = gen_x(rng, shapes[0]);
        let y = gen_target(rng, *shapes.last().unwrap(), spec.obj);
        let bpos = if prefix { 1 } else { 0 };
        let key = |a: PAddr, _: &'static str| {
            let role = if a.layer == bpos { "block-params" } else if a.layer < bpos { "params-of-earlier-layers" } else { "params-of-later-layers" };
            Some(if with_pool { format!("net/feedback-with-maxpool/{}", role) }
                 else if two_blocks { format!("net/two-feedback-blocks/{}", role) }
                 else { format!("net/feedback/loops={}/{}", loops, role) })
        };
        if check_net_grads(&mut f, rng, &spec, &x, &y, kmax, &key) {
            break;
        }
    }
    f
}
/// dense (square output) -> max-pool [-> dense]
fn job_net_pool_after_dense(rng: &mut Rng, variant: usize, kmax: usize) -> Fals {
    let mut f = Fals::new();
    let ident = variant % 3 == 0;
    for _ in 0..8 {
        let r = rng.range(2, 5);
        let l = if ident {
            Simple::Maxpool { kernel: (1, 1), stride: (1, 1) }
        } else {
            let l = Simple::Maxpool { kernel: (rng.range(1, 3.min(r)), rng.range(1, 3.min(r))), stride: (rng.range(1, 3), rng.range(1, 3)) };
            if matches!(l, Simple::Maxpool { kernel: (1, 1), stride: (1, 1) }) {
                continue;
            }
            l
        };
        let mut b = NetB::new(Sh::Flat(rng.range(1, 4)));
        if !{ let o_ = r * r; let l_ = rdense(rng, o_, &SMOOTH); b.push(rng, l_) } || !b.push(rng, l) {
            continue;
        }
        if rng.coin() && !{ let o_ = rng.range(1, 4); let l_ = rdense(rng, o_, &SMOOTH); b.push(rng, l_) } {
            continue;
        }
        let (mut spec, shapes) = b.finish();
        spec.obj = Obj::MSE;
        let pclass = pool_flat_class(&spec.layers[1], r);
        let x = gen_x(rng, shapes[0]);
        let y = gen_target(rng, *shapes.last().unwrap(), Obj::MSE);
        let key = |a: PAddr, _: &'static str| {
            Some(format!("net/maxpool-directly-after-dense/{}/{}", pclass, if a.layer == 0 { "params-of-earlier-layers" } else { "params-of-later-layers" }))
        };
        if check_net_grads(&mut f, rng, &spec, &x, &y, kmax, &key) {
            break;
        }
    }
    f
}

fn run_jobs(rng: &mut Rng, jobs: Vec<(&'static str, usize)>, kmax: usize, run: &(dyn Fn(&mut Rng, &str, usize, usize) -> Fals + Sync)) -> Fals {
    let seeded: Vec<(&'static str, usize, u64)> = jobs.into_iter().map(|(k, v)| (k, v, rng.next())).collect();
    let parts: Vec<Fals> = seeded
        .par_iter()
        .map(|(k, v, s)| {
            let mut r = Rng(*s);
            catch_unwind(AssertUnwindSafe(|| run(&mut r, k, *v, kmax))).unwrap_or_else(|_| {
                let mut f = Fals::new();
                f.check("falsifier/internal", false, "the falsifier itself panicked (harness defect, not a finding about the library)", || format!("job {} variant {} seed {}", k, v, s));
                f
            })
        })
        .collect();
    let mut f = Fals::new();
    parts.into_iter().for_each(|p| f.merge(p));
    f
}

pub fn fals_c01(rng: &mut Rng, thorough: bool) -> Fals {
    // quick: about 2 600 checks (every check compares up to 5 coordinates of one gradient tensor); thorough: 12x
    let m = if thorough { 24 } else { 2 };
    let kmax = if thorough { 8 } else { 5 };
    let mut jobs: Vec<(&'static str, usize)> = vec![];
    for (kind, count) in [
        ("dense", 30),
        ("conv", 96),
        ("deconv", 48),
        ("maxpool", 32),
        ("maxpool-flat", 12),
        ("deconv-underflow", 6),
        ("special-relation", 26),
        ("net-clean", 96),
        ("net-dirty-conv", 48),
        ("net-softmax-ce", 12),
        ("net-set-activation", 18),
        ("net-feedback", 48),
        ("net-pool-after-dense", 12),
    ] {
        for v in 0..count * m {
            jobs.push((kind, v));
        }
    }
    let f = run_jobs(rng, jobs, kmax, &|r, k, v, kmax| match k {
        "net-clean" => job_net_clean(r, v, kmax),
        "net-dirty-conv" => job_net_dirty_conv(r, v, kmax),
        "net-softmax-ce" => job_net_softmax_ce(r, v, kmax),
        "net-set-activation" => job_net_set_activation(r, v, kmax),
        "net-feedback" => job_net_feedback(r, v, kmax),
        "net-pool-after-dense" => job_net_pool_after_dense(r, v, kmax),
        k => job_layer(r, k, v, kmax),
    });
    dump_stats("C01");
    f
}

// ================================================================== C16
/// shape-preserving chains: every layer input has the same element count
/// family 0: dense chain; 1: spatial chain; 2: spatial -> flat (conv.., then dense..); 3: flat -> spatial (dense.., then conv..)
fn chain_net(rng: &mut Rng, family: usize, depth: usize, acts: &[Act], allow_pool: bool) -> Option<NetB> {
    let same_conv = |rng: &mut Rng, filters: usize, acts: &[Act]| {
        let kh = *rng.pick(&[1usize, 3]);
        let kw = *rng.pick(&[1usize, 3]);
        Simple::Conv { filters, kernel: (kh, kw), stride: (1, 1), padding: ((kh - 1) / 2, (kw - 1) / 2), dilation: (1, 1), act: *rng.pick(acts), dropout: None }
    };
    let mut b;
    match family {
        0 => {
            let n = rng.range(1, 4);
            b = NetB::new(Sh::Flat(n));
            for _ in 0..depth {
                if !{ let o_ = n; let l_ = rdense(rng, o_, acts); b.push(rng, l_) } {
                    return None;
                }
            }
        }
        1 => {
            let (c, h, w) = (rng.range(1, 2), rng.range(2, 4), rng.range(2, 4));
            b = NetB::new(Sh::Sp(c, h, w));
            for k in 0..depth {
                let l = if allow_pool && k > 0 && rng.chance(1, 5) {
                    Simple::Maxpool { kernel: (1, 1), stride: (1, 1) }
                } else if rng.chance(3, 4) {
                    same_conv(rng, c, acts)
                } else {
                    Simple::Deconv { filters: c, kernel: (1, 1), stride: (1, 1), padding: (0, 0), act: *rng.pick(acts), dropout: None }
                };
                if !b.push(rng, l) {
                    return None;
                }
            }
        }
        2 => {
            let (c, h, w) = (rng.range(1, 2), rng.range(2, 3), rng.range(2, 3));
            b = NetB::new(Sh::Sp(c, h, w));
            let nconv = rng.range(1, depth - 1);
            for k in 0..depth {
                let l = if k < nconv { same_conv(rng, c, acts) } else { Simple::Dense { out: c * h * w, act: *rng.pick(acts), bias: rng.coin(), dropout: None } };
                if !b.push(rng, l) {
                    return None;
                }
            }
        }
        _ => {
            let r = rng.range(2, 3);
            b = NetB::new(Sh::Flat(r * r));
            let ndense = rng.range(1, depth - 1);
            for k in 0..depth {
                let l = if k < ndense { Simple::Dense { out: r * r, act: *rng.pick(acts), bias: rng.coin(), dropout: None } } else { same_conv(rng, 1, acts) };
                if !b.push(rng, l) {
                    return None;
                }
            }
        }
    }
    Some(b)
}
fn is_flat(s: Sh) -> bool {
    matches!(s, Sh::Flat(_))
}

// ---- (a) builder
fn job_connect_builder(rng: &mut Rng, variant: usize) -> Fals {
    let mut f = Fals::new();
    let depth = rng.range(2, 5);
    let family = variant % 4;
    if family >= 2 && depth < 2 {
        return f;
    }
    let b = match chain_net(rng, family, depth, &SMOOTH, true) {
        Some(b) => b,
        None => return f,
    };
    let (mut spec, shapes) = b.finish();
    // sometimes a bottleneck so that unequal element counts occur as well (dense chains only)
    if family == 0 && rng.chance(1, 3) && depth >= 3 {
        let k = rng.range(1, depth - 1);
        let n = shapes[0].numel();
        let m = n + 1;
        let mut b2 = NetB::new(shapes[0]);
        for i in 0..depth {
            let out = if i + 1 == k { m } else { n };
            b2.push(rng, Simple::Dense { out, act: Act::Linear, bias: false, dropout: None });
        }
        let (s2, _) = b2.finish();
        spec = s2;
    }
    let counts: Vec<usize> = {
        // element count of the input of every layer, by this module's own shape arithmetic
        let mut v = vec![];
        let mut cur = match &spec.input {
            Shape::Single(n) => Sh::Flat(*n),
            Shape::Triple(c, h, w) => Sh::Sp(*c, *h, *w),
            _ => return f,
        };
        for l in &spec.layers {
            v.push(cur.numel());
            if let LayerSpec::One(s) = l {
                cur = match out_shape(s, cur) {
                    Some(o) => o,
                    None => return f,
                };
            }
        }
        v
    };
    let is_pool: Vec<bool> = spec.layers.iter().map(|l| matches!(l, LayerSpec::One(Simple::Maxpool { .. }))).collect();
    let mut n = match catch_unwind(AssertUnwindSafe(|| spec.build_layers())) {
        Ok(n) => n,
        Err(_) => return f,
    };
    let ncalls = rng.range(2, 5);
    let mut history: Vec<String> = vec![];
    for _ in 0..ncalls {
        let before: BTreeMap<usize, usize> = n.connect.iter().map(|(k, v)| (*k, *v)).collect();
        // steer the calls through all relations to the earlier connections
        let (a, bb) = {
            let tg: Vec<usize> = before.keys().cloned().collect();
            let sr: Vec<usize> = before.values().cloned().collect();
            let mut c = None;
            for _ in 0..30 {
                let cand = match rng.below(8) {
                    // the source is an earlier target
                    0 | 1 if !tg.is_empty() => {
                        let a = *rng.pick(&tg);
                        if a + 1 >= depth { continue; }
                        (a, rng.range(a + 1, depth - 1))
                    }
                    // same target as an earlier connection, other source
                    2 if !tg.is_empty() => {
                        let bb = *rng.pick(&tg);
                        (rng.below(bb + 1), bb)
                    }
                    // a == b
                    3 => {
                        let a = rng.below(depth);
                        (a, a)
                    }
                    // invalid or arbitrary indices
                    4 => (rng.below(depth + 2), rng.below(depth + 2)),
                    // source and target not used before, source not an earlier target
                    _ => {
                        let bb = rng.range(1, depth - 1);
                        let a = rng.below(bb);
                        if tg.contains(&bb) || sr.contains(&a) || tg.contains(&a) { continue; }
                        (a, bb)
                    }
                };
                c = Some(cand);
                break;
            }
            match c {
                Some(c) => c,
                None => {
                    let bb = rng.below(depth);
                    (rng.below(bb + 1), bb)
                }
            }
        };
        let r = catch_unwind(AssertUnwindSafe(|| n.connect(a, bb)));
        let accepted = r.is_ok();
        let after: BTreeMap<usize, usize> = n.connect.iter().map(|(k, v)| (*k, *v)).collect();
        history.push(format!("connect({},{}) -> {}", a, bb, if accepted { "accepted" } else { "rejected (panic)" }));
        let desc = |before: &BTreeMap<usize, usize>, after: &BTreeMap<usize, usize>| {
            format!("layers {:?} on input {:?}; calls so far: [{}]; network.connect (into -> infrom) before the last call {:?}, after {:?}", spec.layers, spec.input, history.join(", "), before, after)
        };
        // earlier connections are never silently discarded
        if !before.is_empty() {
            let key = if !accepted {
                "connect-keeps-earlier/call-rejected"
            } else if before.get(&bb) == Some(&a) {
                "connect-keeps-earlier/duplicate-call"
            } else if before.contains_key(&bb) {
                "connect-keeps-earlier/same-target-new-source"
            } else {
                "connect-keeps-earlier/new-target"
            };
            let kept = before.iter().all(|(k, v)| after.get(k) == Some(v));
            f.check(key, kept, "a previously configured skip connection is no longer present after a later connect call", || desc(&before, &after));
        }
        // valid calls with pairwise distinct sources and targets are accepted and recorded
        let valid = a <= bb && bb < depth && counts[a] == counts[bb];
        let src_new = !before.values().any(|v| *v == a);
        let tgt_new = !before.contains_key(&bb);
        if valid && src_new && tgt_new {
            let key = if is_pool[a] {
                "connect-accepts/source-layer-is-maxpool"
            } else if before.contains_key(&a) {
                "connect-accepts/source-equals-earlier-target"
            } else if a == bb {
                "connect-accepts/a==b"
            } else if before.is_empty() {
                "connect-accepts/first-connection"
            } else {
                "connect-accepts/distinct-sources-and-targets"
            };
            let ok = accepted && after.get(&bb) == Some(&a);
            f.check(key, ok, "a valid connection (a <= b, equal element counts, source and target not used by an earlier connection) was rejected or not recorded", || desc(&before, &after));
        }
    }
    f
}

// ---- (b) forward
fn acc_apply(acc: Acc, o: f32, s: f32) -> f32 {
    match acc {
        Acc::Add => o + s,
        Acc::Sub => o - s,
        Acc::Mul => o * s,
        Acc::Overwrite => s,
        Acc::Mean => (o + s) / 2.0,
    }
}
fn close(a: &Tensor, b: &Tensor) -> bool {
    let (x, y) = (flat_of(a), flat_of(b));
    a.shape == b.shape && x.len() == y.len() && x.iter().zip(y.iter()).all(|(p, q)| (p - q).abs() <= 1e-5 * (1.0 + p.abs().max(q.abs())))
}
fn job_skip_forward(rng: &mut Rng, variant: usize) -> Fals {
    let mut f = Fals::new();
    let acc = ALL_ACCS[variant % 5];
    let family = (variant / 5) % 4;
    let depth = rng.range(if family >= 2 { 3 } else { 2 }, 5);
    let acts: &[Act] = &ELEMENTWISE;
    let b = match chain_net(rng, family, depth, acts, true) {
        Some(b) => b,
        None => return f,
    };
    let (mut spec, shapes) = b.finish();
    spec.skipacc = acc;
    let is_pool: Vec<bool> = spec.layers.iter().map(|l| matches!(l, LayerSpec::One(Simple::Maxpool { .. }))).collect();
    // one connection a -> b, a <= b, the source not a max-pool layer (the builder refuses those: see connect-accepts/...)
    let selfc = (variant / 20) % 6 == 5;
    let mut pick = None;
    for _ in 0..40 {
        let bb = rng.below(depth);
        let a = if selfc { bb } else if bb == 0 { continue } else { rng.below(bb) };
        if is_pool[a] {
            continue;
        }
        // in the mixed families prefer pairs that cross the flat/spatial boundary
        if family >= 2 && !selfc && is_flat(shapes[a]) == is_flat(shapes[bb]) && rng.chance(3, 4) {
            continue;
        }
        pick = Some((a, bb));
        break;
    }
    let (a, bb) = match pick {
        Some(p) => p,
        None => return f,
    };
    let mut conns = vec![(a, bb)];
    // every other variant: the same source feeds a second (and third) target - same element count, not a == b
    if variant % 2 == 1 && a != bb {
        for b2 in (a + 1)..depth {
            if b2 != bb && conns.len() < 3 && shapes[b2].numel() == shapes[a].numel() && rng.chance(2, 3) {
                conns.push((a, b2));
            }
        }
    }
    spec.connect = conns.clone();
    let n = match catch_unwind(AssertUnwindSafe(|| spec.build())) {
        Ok(n) => n,
        Err(_) => return f, // acceptance by the builder is checked in (a)
    };
    let x = gen_x(rng, shapes[0]);
    let cross = if a == bb {
        "a==b"
    } else {
        match (is_flat(shapes[a]), is_flat(shapes[bb])) {
            (true, true) => "flat-to-flat",
            (false, false) => "spatial-to-spatial",
            (false, true) => "spatial-to-flat",
            (true, false) => "flat-to-spatial",
        }
    };
    let key = format!("skip-forward/{:?}/{}", acc, cross);
    let desc = || format!("{}; input {}", show_spec(&spec), show_t(&x));
    let lib = catch_unwind(AssertUnwindSafe(|| n.forward(&x)));
    let (pre, post) = match lib {
        Ok((pre, post, _, _)) => (pre, post),
        Err(_) => {
            f.check(&key, false, "forward panicked on a network with one valid skip connection", desc);
            return f;
        }
    };
    // hand composition of the public per-layer forward calls
    let hand = catch_unwind(AssertUnwindSafe(|| {
        let mut ordinary: Vec<Tensor> = vec![x.clone()]; // ordinary input of every layer (output of the previous one)
        let mut pres = vec![];
        for i in 0..depth {
            let o = ordinary[i].clone();
            let xin = if let Some(&(a, _)) = conns.iter().find(|c| c.1 == i) {
                let s = flat_of(&ordinary[a]); // a < b: the input fed to layer a is its ordinary input; a == b: likewise
                let of = flat_of(&o);
                assert_eq!(s.len(), of.len());
                let v: Vec<f32> = of.iter().zip(s.iter()).map(|(o, s)| acc_apply(acc, *o, *s)).collect();
                tensor_of_shape(&o.shape, &v) // row-major re-interpretation across flat/spatial
            } else {
                o
            };
            let (p, q, _) = layer_fwd(&n.layers[i], &xin);
            pres.push(p);
            ordinary.push(q);
        }
        (pres, ordinary)
    }));
    let (hpre, hpost) = match hand {
        Ok(h) => h,
        Err(_) => return f,
    };
    let ok = pre.len() == depth && post.len() == depth + 1 && (0..depth).all(|i| close(&pre[i], &hpre[i]) && close(&post[i + 1], &hpost[i + 1]));
    f.check(&key, ok, "forward of a network with one skip connection differs from feeding layer b with acc(ordinary input, input of layer a)", || {
        let i = (0..depth).find(|i| !(pre.len() > *i && post.len() > *i + 1 && close(&pre[*i], &hpre[*i]) && close(&post[*i + 1], &hpost[*i + 1]))).unwrap_or(0);
        format!("{}; first differing layer {}: library pre {} post {}; expected pre {} post {}", desc(), i,
                pre.get(i).map_or("-".into(), show_t), post.get(i + 1).map_or("-".into(), show_t), show_t(&hpre[i]), show_t(&hpost[i + 1]))
    });
    // the observable output: predict and predict_batch return the last output of that composition
    let pkey = format!("skip-predict/{:?}/{}{}", acc, cross, if conns.len() > 1 { "/shared-source" } else { "" });
    let pr = catch_unwind(AssertUnwindSafe(|| (n.predict(&x), n.predict_batch(&vec![&x, &x]))));
    match pr {
        Ok((p, pb)) => {
            let okp = close(&p, &hpost[depth]) && pb.len() == 2 && pb.iter().all(|q| close(q, &hpost[depth]));
            f.check(&pkey, okp, "predict / predict_batch of a network with skip connections differ from feeding every target with acc(ordinary input, input of its source)", || {
                format!("{}; connections {:?}; predict {}; predict_batch {:?}; expected {}", desc(), conns, show_t(&p), pb.iter().map(show_t).collect::<Vec<_>>(), show_t(&hpost[depth]))
            });
        }
        Err(_) => f.check(&pkey, false, "predict panicked on a network with valid skip connections", desc),
    }
    f
}

// ---- (c) gradients under additive accumulation
fn job_skip_grad(rng: &mut Rng, variant: usize, kmax: usize) -> Fals {
    let mut f = Fals::new();
    let topo = ["one-connection", "distinct-sources", "shared-source", "chained(source-is-a-target)", "one-connection", "distinct-sources", "shared-source", "chained(source-is-a-target)", "a==b"][variant % 9];
    let family = (variant / 9) % 4;
    let acts: &[Act] = if (variant / 36) % 4 == 3 { &ELEMENTWISE } else { &SMOOTH };
    for _ in 0..20 {
        let mind = match topo {
            "one-connection" | "a==b" => 2,
            "chained(source-is-a-target)" | "shared-source" => 3,
            _ => 3,
        }
        .max(if family >= 2 { 3 } else { 2 });
        let depth = if mind < 4 && rng.coin() { rng.range(4, 5) } else { rng.range(mind, 5) };
        let b = match chain_net(rng, family, depth, acts, false) {
            Some(b) => b,
            None => continue,
        };
        let (mut spec, shapes) = b.finish();
        spec.skipacc = Acc::Add;
        spec.obj = Obj::MSE;
        // connections (infrom, into) in the order of the builder calls; `crit`: the source whose
        // upstream layers receive the gradient that flows through the connection(s) in question
        let (conns, crit): (Vec<(usize, usize)>, usize) = match topo {
            "one-connection" => {
                let bb = rng.range(1, depth - 1);
                let a = rng.below(bb);
                (vec![(a, bb)], a)
            }
            "a==b" => {
                let a = rng.below(depth);
                (vec![(a, a)], a)
            }
            "shared-source" => {
                let a = if depth >= 4 && rng.chance(2, 3) { rng.range(1, depth - 3) } else { rng.below(depth - 2) };
                let b1 = rng.range(a + 1, depth - 2);
                let b2 = rng.range(b1 + 1, depth - 1);
                (vec![(a, b1), (a, b2)], a)
            }
            "chained(source-is-a-target)" => {
                let a = if depth >= 4 && rng.chance(2, 3) { rng.range(1, depth - 3) } else { rng.below(depth - 2) };
                let m = rng.range(a + 1, depth - 2);
                let c = rng.range(m + 1, depth - 1);
                // the builder refuses a source that is already a target: add the later link first
                (vec![(m, c), (a, m)], a)
            }
            _ => {
                // two or three connections, all sources and targets pairwise distinct, no source is a target
                let mut found = None;
                for _ in 0..50 {
                    let k = rng.range(2, 3);
                    let cs: Vec<(usize, usize)> = (0..k).map(|_| { let bb = rng.range(1, depth - 1); (rng.below(bb), bb) }).collect();
                    let srcs: std::collections::BTreeSet<usize> = cs.iter().map(|c| c.0).collect();
                    let tgts: std::collections::BTreeSet<usize> = cs.iter().map(|c| c.1).collect();
                    if srcs.len() == k && tgts.len() == k && srcs.is_disjoint(&tgts) {
                        found = Some(cs);
                        break;
                    }
                }
                match found {
                    Some(cs) => {
                        let crit = cs.iter().map(|c| c.0).max().unwrap();
                        (cs, crit)
                    }
                    None => continue,
                }
            }
        };
        spec.connect = conns.clone();
        let x = gen_x(rng, shapes[0]);
        let y = gen_target(rng, *shapes.last().unwrap(), Obj::MSE);
        let targets: Vec<usize> = conns.iter().map(|c| c.1).collect();
        let key = |a: PAddr, _: &'static str| {
            if topo == "a==b" {
                return Some("skip-grad/a==b/any-parameter".to_string());
            }
            let role = if targets.contains(&a.layer) && (a.pk == PK::W || a.pk == PK::K) {
                "weights-of-a-target-layer"
            } else if a.layer < crit {
                "params-of-layers-before-the-source"
            } else {
                "other-params"
            };
            Some(format!("skip-grad/{}/{}", topo, role))
        };
        if check_net_grads(&mut f, rng, &spec, &x, &y, kmax, &key) {
            break;
        }
    }
    f
}

/// one skip connection into a flat input of 5184 / 4422 / 10000 values (beyond 2^12, no multiple of 2^12): predict
/// against the hand composition conv -> acc(flattened conv output, flattened image) -> dense
fn job_skip_forward_huge(_rng: &mut Rng, variant: usize) -> Fals {
    let mut f = Fals::new();
    let acc = ALL_ACCS[variant % 5];
    let (h, w) = [(72usize, 72usize), (66, 67), (100, 100)][(variant / 5) % 3];
    let input = Sh::Sp(1, h, w);
    let c = Simple::Conv { filters: 1, kernel: (1, 1), stride: (1, 1), padding: (0, 0), dilation: (1, 1), act: Act::Linear, dropout: None };
    let d = Simple::Dense { out: 2, act: Act::Linear, bias: false, dropout: None };
    let mut spec = NetSpec::new(input.to_shape());
    let wd: Vec<f32> = (0..2 * h * w).map(|i| ((i * 13) % 31) as f32 * 0.01 - 0.15).collect();
    spec.weights = Some(vec![LW::One(W::Kernels(vec![t3(1, 1, 1, &[0.5])])), LW::One(W::Dense(t2(2, h * w, &wd), None))]);
    spec.layers.push(LayerSpec::One(c));
    spec.layers.push(LayerSpec::One(d));
    spec.connect = vec![(0, 1)];
    spec.skipacc = acc;
    let xv: Vec<f32> = (0..h * w).map(|i| ((i * 7) % 23) as f32 * 0.1 - 1.0).collect();
    let x = tensor_of_shape(&input.to_shape(), &xv);
    let n = match catch_unwind(AssertUnwindSafe(|| spec.build())) { Ok(n) => n, Err(_) => return f };
    let key = format!("skip-predict/{:?}/huge-flat-target", acc);
    let r = catch_unwind(AssertUnwindSafe(|| {
        let p = n.predict(&x);
        let (_, y0, _) = layer_fwd(&n.layers[0], &x);
        let o = flat_of(&y0);
        let v: Vec<f32> = o.iter().zip(xv.iter()).map(|(o, s)| acc_apply(acc, *o, *s)).collect();
        let (_, want, _) = layer_fwd(&n.layers[1], &t1(v));
        (p, want)
    }));
    match r {
        Ok((p, want)) => f.check(&key, close(&p, &want), "predict of a network with a skip connection into a huge flat input differs from feeding the target with acc(ordinary input, input of the source)", || {
            format!("1x{}x{} image -> conv 1x1 (0.5) -> dense 2, connect(0, 1), {:?}: predict {}; expected {}", h, w, acc, show_t(&p), show_t(&want))
        }),
        Err(_) => f.check(&key, false, "predict panicked on a valid network", || format!("1x{}x{} image, connect(0, 1), {:?}", h, w, acc)),
    }
    f
}

pub fn fals_c16(rng: &mut Rng, thorough: bool) -> Fals {
    let m = if thorough { 24 } else { 2 };
    let kmax = if thorough { 8 } else { 5 };
    let mut jobs: Vec<(&'static str, usize)> = vec![];
    for (kind, count) in [("builder", 80), ("forward", 200), ("grad", 108)] {
        for v in 0..count * m {
            jobs.push((kind, v));
        }
    }
    for v in 0..(if thorough { 15 } else { 5 }) {
        jobs.push(("forward-huge", v));
    }
    let f = run_jobs(rng, jobs, kmax, &|r, k, v, kmax| match k {
        "builder" => job_connect_builder(r, v),
        "forward" => job_skip_forward(r, v),
        "forward-huge" => job_skip_forward_huge(r, v),
        _ => job_skip_grad(r, v, kmax),
    });
    dump_stats("C16");
    f
}
