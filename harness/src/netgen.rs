//! Random network descriptions with explicit weights. Shapes are chained with this module's own
//! arithmetic (independent of the library and of the model).
use crate::rng::Rng;
use crate::spec::*;
use crate::tok::*;
use neurons::tensor::{Shape, Tensor};

#[derive(Clone, Copy, Debug, PartialEq)]
pub enum Sh {
    Flat(usize),
    Sp(usize, usize, usize),
}
impl Sh {
    pub fn to_shape(self) -> Shape {
        match self {
            Sh::Flat(n) => Shape::Single(n),
            Sh::Sp(c, h, w) => Shape::Triple(c, h, w),
        }
    }
    pub fn numel(self) -> usize {
        match self {
            Sh::Flat(n) => n,
            Sh::Sp(c, h, w) => c * h * w,
        }
    }
}

pub fn isqrt(n: usize) -> usize {
    let mut r = (n as f64).sqrt() as usize;
    while r * r > n {
        r -= 1;
    }
    while (r + 1) * (r + 1) <= n {
        r += 1;
    }
    r
}

/// what a spatial layer makes of its input shape
pub fn as_spatial(s: Sh) -> Option<(usize, usize, usize)> {
    match s {
        Sh::Sp(c, h, w) => Some((c, h, w)),
        Sh::Flat(n) => {
            let r = isqrt(n);
            if r > 0 && r * r == n {
                Some((1, r, r))
            } else {
                None
            }
        }
    }
}

pub fn conv_out(i: usize, k: usize, s: usize, p: usize, d: usize) -> Option<usize> {
    if k == 0 || s == 0 {
        return None;
    }
    let need = d * (k - 1) + 1;
    if i + 2 * p < need {
        return None;
    }
    Some((i + 2 * p - need) / s + 1)
}
pub fn deconv_out(i: usize, k: usize, s: usize, p: usize) -> Option<usize> {
    if i == 0 {
        return None;
    }
    let a = (i - 1) * s + k;
    if a <= 2 * p {
        return None;
    }
    Some(a - 2 * p)
}
pub fn pool_out(i: usize, k: usize, s: usize) -> Option<usize> {
    if k == 0 || s == 0 || i < k {
        return None;
    }
    Some((i - k) / s + 1)
}

/// output shape of a simple layer on input `inp` (None when the configuration is invalid)
pub fn out_shape(l: &Simple, inp: Sh) -> Option<Sh> {
    match l {
        Simple::Dense { out, .. } => match inp {
            Sh::Flat(_) => Some(Sh::Flat(*out)),
            Sh::Sp(..) => Some(Sh::Flat(*out)), // previous layer is flattened by the builder
        },
        Simple::Conv { filters, kernel, stride, padding, dilation, .. } => {
            let (_, h, w) = as_spatial(inp)?;
            Some(Sh::Sp(*filters, conv_out(h, kernel.0, stride.0, padding.0, dilation.0)?, conv_out(w, kernel.1, stride.1, padding.1, dilation.1)?))
        }
        Simple::Deconv { filters, kernel, stride, padding, .. } => {
            let (_, h, w) = as_spatial(inp)?;
            Some(Sh::Sp(*filters, deconv_out(h, kernel.0, stride.0, padding.0)?, deconv_out(w, kernel.1, stride.1, padding.1)?))
        }
        Simple::Maxpool { kernel, stride } => {
            let (c, h, w) = as_spatial(inp)?;
            Some(Sh::Sp(c, pool_out(h, kernel.0, stride.0)?, pool_out(w, kernel.1, stride.1)?))
        }
    }
}

/// spatial layers whose parameters stand in a SPECIAL RELATION to each other or to the input - the
/// configurations for which a specialised code path is tempting: stride == kernel (non-overlapping
/// patches), with and without dilation, tiling the input exactly or not; a 1x1 kernel with padding and
/// stride > 1; the kernel equal to the input; the (dilated) kernel overhanging the input by more than the
/// one-sided padding; padding >= kernel; stride > kernel. Used by the forward (C02), backward (C01) and
/// shape (C08) generators alike.
pub fn special_relation_layers() -> Vec<(Sh, Simple)> {
    let conv = |filters, kernel, stride, padding, dilation, act| Simple::Conv { filters, kernel, stride, padding, dilation, act, dropout: None };
    let deconv = |filters, kernel, stride, padding, act| Simple::Deconv { filters, kernel, stride, padding, act, dropout: None };
    vec![
        // patch-wise convolutions
        (Sh::Sp(2, 8, 8), conv(2, (2, 2), (2, 2), (0, 0), (2, 2), Act::Linear)),
        (Sh::Sp(1, 8, 9), conv(2, (2, 3), (2, 3), (0, 0), (3, 2), Act::Tanh)),
        (Sh::Sp(1, 6, 6), conv(2, (3, 3), (3, 3), (0, 0), (1, 1), Act::Linear)),
        (Sh::Sp(2, 4, 6), conv(1, (2, 3), (2, 3), (0, 0), (1, 2), Act::Sigmoid)),
        (Sh::Sp(1, 7, 5), conv(2, (2, 2), (2, 2), (0, 0), (1, 1), Act::Linear)),
        (Sh::Sp(1, 6, 4), conv(1, (3, 2), (3, 2), (0, 0), (2, 1), Act::Linear)),
        // 1x1 kernels with padding and stride
        (Sh::Sp(2, 5, 5), conv(2, (1, 1), (2, 2), (1, 1), (1, 1), Act::Linear)),
        (Sh::Sp(1, 4, 7), conv(1, (1, 1), (3, 2), (2, 1), (1, 1), Act::Tanh)),
        (Sh::Sp(1, 4, 4), conv(2, (1, 1), (2, 1), (0, 2), (1, 1), Act::Linear)),
        (Sh::Sp(2, 3, 3), conv(1, (1, 1), (1, 1), (1, 2), (2, 3), Act::Linear)),
        // plain pointwise layers (1x1, stride 1, no padding)
        (Sh::Sp(2, 3, 3), conv(2, (1, 1), (1, 1), (0, 0), (1, 1), Act::Tanh)),
        (Sh::Sp(3, 2, 4), conv(1, (1, 1), (1, 1), (0, 0), (2, 2), Act::Linear)),
        (Sh::Sp(2, 3, 2), deconv(2, (1, 1), (1, 1), (0, 0), Act::Tanh)),
        // the (dilated) kernel overhangs the input by more than the one-sided padding
        (Sh::Sp(1, 2, 2), conv(1, (4, 4), (1, 1), (1, 1), (1, 1), Act::Linear)),
        (Sh::Sp(2, 1, 1), conv(2, (3, 3), (1, 1), (1, 1), (1, 1), Act::Linear)),
        (Sh::Sp(1, 3, 3), conv(1, (3, 3), (1, 1), (1, 1), (2, 2), Act::Tanh)),
        (Sh::Sp(1, 1, 5), conv(2, (1, 3), (1, 1), (0, 2), (1, 4), Act::Linear)),
        // kernel == input, padding >= kernel
        (Sh::Sp(2, 3, 4), conv(2, (3, 4), (1, 1), (0, 0), (1, 1), Act::Linear)),
        (Sh::Sp(1, 3, 3), conv(1, (2, 2), (1, 2), (2, 3), (1, 1), Act::Linear)),
        // deconvolutions: stride == kernel, 1x1 kernel with stride and padding, stride > kernel, padding >= kernel
        (Sh::Sp(2, 3, 3), deconv(2, (2, 2), (2, 2), (0, 0), Act::Linear)),
        (Sh::Sp(1, 2, 4), deconv(1, (3, 2), (3, 2), (1, 0), Act::Tanh)),
        (Sh::Sp(2, 4, 4), deconv(1, (1, 1), (2, 2), (1, 1), Act::Linear)),
        (Sh::Sp(1, 3, 3), deconv(2, (2, 2), (3, 3), (0, 0), Act::Linear)),
        (Sh::Sp(1, 4, 4), deconv(1, (2, 2), (2, 2), (2, 2), Act::Linear)),
        (Sh::Sp(1, 5, 3), deconv(1, (2, 3), (2, 1), (3, 1), Act::Sigmoid)),
        // max-pools: stride == kernel not tiling the input, kernel == input, stride > kernel, 1x1 window with stride
        (Sh::Sp(1, 5, 7), Simple::Maxpool { kernel: (2, 3), stride: (2, 3) }),
        (Sh::Sp(2, 3, 4), Simple::Maxpool { kernel: (3, 4), stride: (1, 1) }),
        (Sh::Sp(2, 7, 7), Simple::Maxpool { kernel: (2, 2), stride: (3, 3) }),
        (Sh::Sp(1, 5, 5), Simple::Maxpool { kernel: (1, 1), stride: (2, 2) }),
    ]
}

/// spatial layers with MANY multiply-accumulates or output elements (beyond 2^14 / 2^15) and NON-SQUARE output planes
/// (a flat-index split that confuses rows and columns shows only there): convolutions, a deconvolution, a max-pool
pub fn big_nonsquare_layers() -> Vec<(Sh, Simple)> {
    vec![
        (Sh::Sp(2, 14, 44), Simple::Conv { filters: 4, kernel: (3, 3), stride: (1, 1), padding: (0, 0), dilation: (1, 1), act: Act::Linear, dropout: None }),
        (Sh::Sp(1, 1, 571), Simple::Conv { filters: 8, kernel: (1, 9), stride: (1, 1), padding: (0, 0), dilation: (1, 1), act: Act::Tanh, dropout: None }),
        (Sh::Sp(1, 32, 80), Simple::Conv { filters: 8, kernel: (1, 1), stride: (1, 1), padding: (0, 0), dilation: (1, 1), act: Act::Linear, dropout: None }),
        (Sh::Sp(1, 80, 32), Simple::Conv { filters: 8, kernel: (1, 1), stride: (1, 1), padding: (0, 0), dilation: (1, 1), act: Act::Linear, dropout: None }),
        (Sh::Sp(3, 40, 12), Simple::Conv { filters: 4, kernel: (3, 2), stride: (1, 1), padding: (1, 0), dilation: (1, 1), act: Act::Linear, dropout: None }),
        (Sh::Sp(4, 31, 70), Simple::Deconv { filters: 2, kernel: (2, 2), stride: (1, 1), padding: (0, 0), act: Act::Linear, dropout: None }),
        (Sh::Sp(8, 32, 80), Simple::Maxpool { kernel: (1, 1), stride: (1, 1) }),
        (Sh::Sp(4, 66, 130), Simple::Maxpool { kernel: (2, 2), stride: (2, 2) }),
    ]
}

#[derive(Clone)]
pub struct GenOpts {
    pub acts: Vec<Act>,
    pub max_sp: usize,     // maximal spatial extent
    pub max_ch: usize,
    pub max_flat: usize,
    pub stride_max: usize,
    pub dil_max: usize,
    pub pad_max: usize,
    pub dropout: bool,
    pub wkind: u8,         // value stream for weights (see Rng::vec)
    pub bias: Option<bool>,
}
impl GenOpts {
    pub fn default() -> Self {
        GenOpts { acts: ALL_ACTS.iter().cloned().filter(|a| *a != Act::Softmax).collect(), max_sp: 6, max_ch: 2, max_flat: 6,
                  stride_max: 2, dil_max: 2, pad_max: 2, dropout: false, wkind: 1, bias: None }
    }
}

pub fn rand_dropout(rng: &mut Rng, o: &GenOpts) -> Option<f32> {
    // ordinary rates, and now and then the degenerate ones (nothing dropped / everything dropped)
    if o.dropout && rng.coin() { Some(if rng.chance(1, 5) { *rng.pick(&[1.0f32, 0.0, 1.5]) } else { *rng.pick(&[0.3f32, 0.5, 0.9]) }) } else { None }
}

pub fn rand_dense(rng: &mut Rng, o: &GenOpts) -> Simple {
    Simple::Dense { out: rng.range(1, o.max_flat), act: *rng.pick(&o.acts), bias: o.bias.unwrap_or_else(|| rng.coin()), dropout: rand_dropout(rng, o) }
}
pub fn rand_conv(rng: &mut Rng, o: &GenOpts, inp: (usize, usize, usize)) -> Option<Simple> {
    for _ in 0..20 {
        let kernel = (rng.range(1, 3.min(inp.1 + 2)), rng.range(1, 3.min(inp.2 + 2)));
        let stride = (rng.range(1, o.stride_max), rng.range(1, o.stride_max));
        let dilation = (rng.range(1, o.dil_max), rng.range(1, o.dil_max));
        let padding = (rng.range(0, o.pad_max), rng.range(0, o.pad_max));
        let l = Simple::Conv { filters: rng.range(1, o.max_ch), kernel, stride, padding, dilation, act: *rng.pick(&o.acts), dropout: rand_dropout(rng, o) };
        if let Some(Sh::Sp(_, h, w)) = out_shape(&l, Sh::Sp(inp.0, inp.1, inp.2)) {
            if h <= o.max_sp + 2 && w <= o.max_sp + 2 {
                return Some(l);
            }
        }
    }
    None
}
pub fn rand_deconv(rng: &mut Rng, o: &GenOpts, inp: (usize, usize, usize)) -> Option<Simple> {
    for _ in 0..20 {
        let kernel = (rng.range(1, 5), rng.range(1, 5));
        let stride = (rng.range(1, o.stride_max), rng.range(1, o.stride_max));
        let padding = (rng.range(0, o.pad_max.min(kernel.0 / 2 + 1)), rng.range(0, o.pad_max.min(kernel.1 / 2 + 1)));
        let l = Simple::Deconv { filters: rng.range(1, o.max_ch), kernel, stride, padding, act: *rng.pick(&o.acts), dropout: rand_dropout(rng, o) };
        if let Some(Sh::Sp(_, h, w)) = out_shape(&l, Sh::Sp(inp.0, inp.1, inp.2)) {
            // the forward pass evaluates (ih-1)*s - 2p + k left to right in usize
            let fwd_ok = (inp.1 - 1) * stride.0 >= 2 * padding.0 && (inp.2 - 1) * stride.1 >= 2 * padding.1;
            if h <= o.max_sp + 3 && w <= o.max_sp + 3 && fwd_ok {
                return Some(l);
            }
        }
    }
    None
}
pub fn rand_pool(rng: &mut Rng, inp: (usize, usize, usize)) -> Option<Simple> {
    if inp.1 < 1 || inp.2 < 1 {
        return None;
    }
    let kernel = (rng.range(1, 2.min(inp.1)), rng.range(1, 2.min(inp.2)));
    let stride = (rng.range(1, 2), rng.range(1, 2));
    Some(Simple::Maxpool { kernel, stride })
}

/// explicit parameters for a simple layer on input `inp`
pub fn rand_w(rng: &mut Rng, l: &Simple, inp: Sh, kind: u8) -> W {
    match l {
        Simple::Dense { out, bias, .. } => {
            let i = inp.numel();
            W::Dense(t2(*out, i, &rng.vec(out * i, kind)), if *bias { Some(t1(rng.vec(*out, kind))) } else { None })
        }
        Simple::Conv { filters, kernel, .. } | Simple::Deconv { filters, kernel, .. } => {
            let ic = as_spatial(inp).map_or(1, |s| s.0);
            W::Kernels((0..*filters).map(|_| t3(ic, kernel.0, kernel.1, &rng.vec(ic * kernel.0 * kernel.1, kind))).collect())
        }
        Simple::Maxpool { .. } => W::None,
    }
}

pub fn rand_input(rng: &mut Rng, s: Sh, kind: u8) -> Tensor {
    tensor_of_shape(&s.to_shape(), &rng.vec(s.numel(), kind))
}

/// a random sequential network (no blocks) of `depth` layers starting from `input`;
/// kinds: which layer kinds may appear
pub fn rand_seq(rng: &mut Rng, o: &GenOpts, input: Sh, depth: usize, kinds: &[&str], end_dense: bool) -> Option<(NetSpec, Vec<Sh>)> {
    let mut spec = NetSpec::new(input.to_shape());
    let mut shapes = vec![input];
    let mut ws = vec![];
    let mut cur = input;
    for k in 0..depth {
        let last = k + 1 == depth;
        let mut placed = false;
        for _ in 0..30 {
            let kind = if last && end_dense { "dense" } else { *rng.pick(kinds) };
            let l = match (kind, cur) {
                ("dense", Sh::Flat(_)) => Some(rand_dense(rng, o)),
                ("dense", Sh::Sp(..)) => if k > 0 { Some(rand_dense(rng, o)) } else { None },
                ("conv", s) => as_spatial(s).filter(|_| k > 0 || matches!(s, Sh::Sp(..))).and_then(|sp| rand_conv(rng, o, sp)),
                ("deconv", s) => as_spatial(s).filter(|_| k > 0 || matches!(s, Sh::Sp(..))).and_then(|sp| rand_deconv(rng, o, sp)),
                ("maxpool", s) => as_spatial(s).filter(|_| k > 0 || matches!(s, Sh::Sp(..))).and_then(|sp| rand_pool(rng, sp)),
                _ => None,
            };
            if let Some(l) = l {
                if let Some(out) = out_shape(&l, cur) {
                    if out.numel() == 0 || out.numel() > 200 {
                        continue;
                    }
                    // parameters see the spatial reading of a flat input
                    let inp_for_w = match (&l, cur) {
                        (Simple::Dense { .. }, _) => Sh::Flat(cur.numel()),
                        (_, s) => as_spatial(s).map(|(c, h, w)| Sh::Sp(c, h, w)).unwrap_or(s),
                    };
                    ws.push(LW::One(rand_w(rng, &l, inp_for_w, o.wkind)));
                    spec.layers.push(LayerSpec::One(l));
                    cur = out;
                    shapes.push(out);
                    placed = true;
                    break;
                }
            }
        }
        if !placed {
            return None;
        }
    }
    spec.weights = Some(ws);
    Some((spec, shapes))
}

/// target tensor matching the network output (flattened when the last layer is dense)
pub fn rand_target(rng: &mut Rng, out: Sh, obj: Obj) -> Tensor {
    let n = out.numel();
    let v: Vec<f32> = match obj {
        Obj::CE | Obj::BCE | Obj::KL => {
            let mut v: Vec<f32> = (0..n).map(|_| rng.unit() * 0.9 + 0.05).collect();
            let s: f32 = v.iter().sum();
            v.iter_mut().for_each(|x| *x /= s);
            v
        }
        _ => rng.vec(n, 1),
    };
    tensor_of_shape(&out.to_shape(), &v)
}
