//! Cases of the correspondence check: `encode` gives the token list the Coq driver decodes,
//! `run` executes the same operation on the implementation and encodes the result exactly as
//! coq/Driver.v does (first token 0 = Ok, 1 = panic).
use crate::spec::*;
use crate::tok::*;
use neurons::tensor::{self, Data, Shape, Tensor};
use neurons::{activation, network, objective, random};
use std::panic::{catch_unwind, AssertUnwindSafe};

#[derive(Clone, Debug)]
pub enum NetCmd {
    Predict(Tensor),
    Forward(Tensor),
    Backward(Tensor, Tensor),
    Learn { data: Vec<(Tensor, Tensor)>, val: Option<(Vec<(Tensor, Tensor)>, i32)>, batch: usize, epochs: i32 },
    Validate { data: Vec<(Tensor, Tensor)>, tol: f32, pre_training: bool },
    Shapes,
    PredictBatch(Vec<Tensor>),
    Step(Tensor, Tensor, i32),
    LayerBackward(usize, Tensor, Tensor),
    LearnTwice { data: Vec<(Tensor, Tensor)>, batch: usize, epochs1: i32, epochs2: i32 },
    /// several calls on ONE network object (sub-commands: Predict, Backward, Learn, Validate, PredictBatch)
    Script(Vec<NetCmd>),
    LearnTwiceVal { data: Vec<(Tensor, Tensor)>, val: Vec<(Tensor, Tensor)>, th: i32, batch: usize, epochs1: i32, epochs2: i32 },
    /// (script only) direct assignment of the public map `Network.loopbacks`: (outof, into, iterations, inskips)
    SetLoops(Vec<(usize, usize, usize, bool)>),
    /// (script only) direct assignment of the public map `Network.connect`: (into, infrom)
    SetConnect(Vec<(usize, usize)>),
    /// (script only) `Network::set_activation(layer, activation)`
    SetActivation(usize, Act),
    /// (script only) reconfiguration between calls
    SetOptimizer(Opt),
    SetObjective(Obj, Option<(f32, f32)>),
    SetAccumulation(Acc, Acc),
}

#[derive(Clone, Debug)]
pub enum Case {
    Flatten(Tensor),
    GetFlat(Tensor),
    Reshape(Tensor, Shape),
    GetTriple(Tensor, Shape),
    Binop(u8, Tensor, Tensor),
    Hadamard(Tensor, Tensor, f32),
    DivScalar(Tensor, f32),
    Mean(Tensor, Vec<Tensor>),
    Product(Tensor, Tensor),
    Dot(Tensor, Tensor),
    Transpose(Tensor),
    Clamp(Tensor, f32, f32),
    NestedAdd(Vec<Tensor>, Vec<Tensor>),
    NestedOptAdd(Vec<Option<Tensor>>, Vec<Option<Tensor>>),
    NestedDiv(Vec<Tensor>, f32),
    Argmax(Tensor),
    Dropout(Tensor, f32),
    Pad3d(Tensor, usize, usize),
    Act(Act, bool, Tensor),
    Obj(Obj, Option<(f32, f32)>, Tensor, Tensor),
    OptHistory { opt: Opt, vals: Vec<Vec<Vec<Tensor>>>, steps: Vec<(usize, usize, bool, i32, Tensor)> },
    /// the same optimizer value attached (validated) again before every phase of steps
    OptPhases { opt: Opt, vals: Vec<Vec<Vec<Tensor>>>, phases: Vec<Vec<(usize, usize, bool, i32, Tensor)>> },
    RandGen { wrap: bool, seed: u64, n: usize, lo: f32, hi: f32 },
    Shuffle { wrap: bool, seed: u64, n: usize },
    Net(NetSpec, NetCmd),
    ConnectSeq(NetSpec, Vec<(usize, usize)>),
}

fn enc_pairs(t: &mut Tok, d: &[(Tensor, Tensor)]) {
    push_n(t, d.len());
    for (x, y) in d {
        enc_tensor_in(t, x);
        enc_tensor_in(t, y);
    }
}

impl Case {
    pub fn encode(&self) -> Tok {
        let mut t: Tok = vec![];
        match self {
            Case::Flatten(x) => {
                t.push(1);
                enc_tensor_in(&mut t, x)
            }
            Case::GetFlat(x) => {
                t.push(2);
                enc_tensor_in(&mut t, x)
            }
            Case::Reshape(x, s) => {
                t.push(3);
                enc_tensor_in(&mut t, x);
                enc_shape(&mut t, s)
            }
            Case::GetTriple(x, s) => {
                t.push(4);
                enc_tensor_in(&mut t, x);
                enc_shape(&mut t, s)
            }
            Case::Binop(k, a, b) => {
                t.push(5);
                t.push(*k as i128);
                enc_tensor_in(&mut t, a);
                enc_tensor_in(&mut t, b)
            }
            Case::Hadamard(a, b, s) => {
                t.push(6);
                enc_tensor_in(&mut t, a);
                enc_tensor_in(&mut t, b);
                push_f(&mut t, *s)
            }
            Case::DivScalar(a, s) => {
                t.push(7);
                enc_tensor_in(&mut t, a);
                push_f(&mut t, *s)
            }
            Case::Mean(a, os) => {
                t.push(8);
                enc_tensor_in(&mut t, a);
                push_n(&mut t, os.len());
                os.iter().for_each(|o| enc_tensor_in(&mut t, o));
            }
            Case::Product(a, b) => {
                t.push(9);
                enc_tensor_in(&mut t, a);
                enc_tensor_in(&mut t, b)
            }
            Case::Dot(a, b) => {
                t.push(10);
                enc_tensor_in(&mut t, a);
                enc_tensor_in(&mut t, b)
            }
            Case::Transpose(a) => {
                t.push(11);
                enc_tensor_in(&mut t, a)
            }
            Case::Clamp(a, lo, hi) => {
                t.push(12);
                enc_tensor_in(&mut t, a);
                push_f(&mut t, *lo);
                push_f(&mut t, *hi)
            }
            Case::NestedAdd(a, b) => {
                t.push(13);
                push_n(&mut t, a.len());
                a.iter().for_each(|o| enc_tensor_in(&mut t, o));
                push_n(&mut t, b.len());
                b.iter().for_each(|o| enc_tensor_in(&mut t, o));
            }
            Case::NestedOptAdd(a, b) => {
                t.push(18);
                for l in [a, b] {
                    push_n(&mut t, l.len());
                    for o in l.iter() {
                        match o {
                            Some(x) => {
                                t.push(1);
                                enc_tensor_in(&mut t, x)
                            }
                            None => t.push(0),
                        }
                    }
                }
            }
            Case::NestedDiv(a, s) => {
                t.push(14);
                push_n(&mut t, a.len());
                a.iter().for_each(|o| enc_tensor_in(&mut t, o));
                push_f(&mut t, *s)
            }
            Case::Argmax(a) => {
                t.push(15);
                enc_tensor_in(&mut t, a)
            }
            Case::Dropout(a, r) => {
                t.push(16);
                enc_tensor_in(&mut t, a);
                push_f(&mut t, *r)
            }
            Case::Pad3d(a, h, w) => {
                t.push(17);
                enc_tensor_in(&mut t, a);
                push_n(&mut t, *h);
                push_n(&mut t, *w)
            }
            Case::Act(a, bwd, x) => {
                t.push(20);
                t.push(a.code());
                push_b(&mut t, *bwd);
                enc_tensor_in(&mut t, x)
            }
            Case::Obj(o, cl, p, y) => {
                t.push(21);
                t.push(o.code());
                match cl {
                    Some((lo, hi)) => {
                        t.push(1);
                        push_f(&mut t, *lo);
                        push_f(&mut t, *hi)
                    }
                    None => t.push(0),
                }
                enc_tensor_in(&mut t, p);
                enc_tensor_in(&mut t, y)
            }
            Case::OptHistory { opt, vals, steps } => {
                t.push(22);
                opt.enc(&mut t);
                push_n(&mut t, vals.len());
                for l in vals {
                    push_n(&mut t, l.len());
                    for f in l {
                        push_n(&mut t, f.len());
                        f.iter().for_each(|x| enc_tensor_in(&mut t, x));
                    }
                }
                push_n(&mut t, steps.len());
                for (l, f, b, s, g) in steps {
                    push_n(&mut t, *l);
                    push_n(&mut t, *f);
                    push_b(&mut t, *b);
                    t.push(*s as i128);
                    enc_tensor_in(&mut t, g);
                }
            }
            Case::OptPhases { opt, vals, phases } => {
                t.push(23);
                opt.enc(&mut t);
                push_n(&mut t, vals.len());
                for l in vals {
                    push_n(&mut t, l.len());
                    for f in l {
                        push_n(&mut t, f.len());
                        f.iter().for_each(|x| enc_tensor_in(&mut t, x));
                    }
                }
                push_n(&mut t, phases.len());
                for steps in phases {
                    push_n(&mut t, steps.len());
                    for (l, f, b, s, g) in steps {
                        push_n(&mut t, *l);
                        push_n(&mut t, *f);
                        push_b(&mut t, *b);
                        t.push(*s as i128);
                        enc_tensor_in(&mut t, g);
                    }
                }
            }
            Case::RandGen { wrap, seed, n, lo, hi } => {
                t.push(30);
                push_b(&mut t, *wrap);
                t.push(*seed as i128);
                push_n(&mut t, *n);
                push_f(&mut t, *lo);
                push_f(&mut t, *hi)
            }
            Case::Shuffle { wrap, seed, n } => {
                t.push(31);
                push_b(&mut t, *wrap);
                t.push(*seed as i128);
                push_n(&mut t, *n)
            }
            Case::Net(spec, cmd) => {
                t.push(40);
                spec.enc(&mut t);
                enc_cmd(&mut t, cmd);
            }
            Case::ConnectSeq(spec, calls) => {
                t.push(41);
                spec.enc(&mut t);
                push_n(&mut t, calls.len());
                calls.iter().for_each(|c| {
                    push_n(&mut t, c.0);
                    push_n(&mut t, c.1)
                });
            }
        }
        t
    }

    /// Runs the implementation; a panic anywhere yields `[1]`.
    pub fn run(&self) -> Tok {
        match catch_unwind(AssertUnwindSafe(|| self.run_inner())) {
            Ok(t) => t,
            Err(_) => vec![1],
        }
    }

    fn run_inner(&self) -> Tok {
        let mut t: Tok = vec![0];
        match self {
            Case::Flatten(x) => enc_tensor_out(&mut t, &x.flatten()),
            Case::GetFlat(x) => {
                let v = x.get_flat();
                push_n(&mut t, v.len());
                v.iter().for_each(|e| out_f(&mut t, *e));
            }
            Case::Reshape(x, s) => enc_tensor_out(&mut t, &x.clone().reshape(s.clone())),
            Case::GetTriple(x, s) => enc_v3(&mut t, &x.get_triple(s)),
            Case::Binop(k, a, b) => {
                let mut a = a.clone();
                match k {
                    0 => a.add_inplace(b),
                    1 => a.sub_inplace(b),
                    _ => a.mul_inplace(b),
                }
                enc_tensor_out(&mut t, &a)
            }
            Case::Hadamard(a, b, s) => {
                let mut a = a.clone();
                a.hadamard(b, *s);
                enc_tensor_out(&mut t, &a)
            }
            Case::DivScalar(a, s) => {
                let mut a = a.clone();
                a.div_scalar_inplace(*s);
                enc_tensor_out(&mut t, &a)
            }
            Case::Mean(a, os) => {
                let mut a = a.clone();
                a.mean_inplace(&os.iter().collect());
                enc_tensor_out(&mut t, &a)
            }
            Case::Product(a, b) => enc_tensor_out(&mut t, &a.product(b)),
            Case::Dot(a, b) => enc_tensor_out(&mut t, &a.dot(b)),
            Case::Transpose(a) => enc_tensor_out(&mut t, &a.transpose()),
            Case::Clamp(a, lo, hi) => enc_tensor_out(&mut t, &a.clone().clamp(*lo, *hi)),
            Case::NestedAdd(a, b) => {
                let mut x = Tensor::nested(a.clone());
                x.add_inplace(&Tensor::nested(b.clone()));
                enc_list_tensor_out(&mut t, &x.unnested())
            }
            Case::NestedOptAdd(a, b) => {
                let mut x = Tensor::nestedoptional(a.clone());
                x.add_inplace(&Tensor::nestedoptional(b.clone()));
                let l = x.unnestedoptional();
                push_n(&mut t, l.len());
                l.iter().for_each(|o| enc_opt_tensor_out(&mut t, o))
            }
            Case::NestedDiv(a, s) => {
                let mut x = Tensor::nested(a.clone());
                x.div_scalar_inplace(*s);
                enc_list_tensor_out(&mut t, &x.unnested())
            }
            Case::Argmax(a) => push_n(&mut t, a.argmax()),
            Case::Dropout(a, r) => {
                let mut a = a.clone();
                a.dropout(*r);
                enc_tensor_out(&mut t, &a)
            }
            Case::Pad3d(a, h, w) => match &a.data {
                Data::Triple(d) => enc_v3(&mut t, &tensor::pad3d(d, (*h, *w))),
                _ => panic!(),
            },
            Case::Act(a, bwd, x) => {
                let f = activation::Function::create(&a.to());
                let y = if *bwd { f.backward(x) } else { f.forward(x) };
                enc_tensor_out(&mut t, &y)
            }
            Case::Obj(o, cl, p, y) => {
                let f = objective::Function::create(o.to(), *cl);
                let (l, g) = f.loss(p, y);
                out_f(&mut t, l);
                enc_tensor_out(&mut t, &g)
            }
            Case::OptHistory { opt, vals, steps } => {
                let mut o = opt.to();
                let zeros: Vec<Vec<Vec<Tensor>>> = vals
                    .iter()
                    .map(|l| {
                        l.iter()
                            .map(|f| {
                                f.iter()
                                    .map(|x| tensor_of_shape(&x.shape, &vec![0.0; shape_numel(&x.shape)]))
                                    .collect()
                            })
                            .collect()
                    })
                    .collect();
                o.validate(zeros);
                let mut vals = vals.clone();
                for (l, f, b, s, g) in steps {
                    let mut g = g.clone();
                    o.update(*l, *f, *b, *s, &mut vals[*l][*f][*b as usize], &mut g);
                    enc_tensor_out(&mut t, &g);
                }
                push_n(&mut t, vals.len());
                for l in &vals {
                    push_n(&mut t, l.len());
                    for f in l {
                        enc_list_tensor_out(&mut t, f);
                    }
                }
            }
            Case::OptPhases { opt, vals, phases } => {
                let mut o = opt.to();
                let mut cur = vals.clone();
                for steps in phases {
                    let zeros: Vec<Vec<Vec<Tensor>>> = vals
                        .iter()
                        .map(|l| l.iter().map(|f| f.iter().map(|x| tensor_of_shape(&x.shape, &vec![0.0; shape_numel(&x.shape)])).collect()).collect())
                        .collect();
                    o.validate(zeros);
                    for (l, f, b, s, g) in steps {
                        let mut g = g.clone();
                        o.update(*l, *f, *b, *s, &mut cur[*l][*f][*b as usize], &mut g);
                        enc_tensor_out(&mut t, &g);
                    }
                }
                push_n(&mut t, cur.len());
                for l in &cur {
                    push_n(&mut t, l.len());
                    for f in l {
                        enc_list_tensor_out(&mut t, f);
                    }
                }
            }
            Case::RandGen { seed, n, lo, hi, .. } => {
                let mut g = random::Generator::create(*seed);
                push_n(&mut t, *n);
                for _ in 0..*n {
                    out_f(&mut t, g.generate(*lo, *hi));
                }
            }
            Case::Shuffle { seed, n, .. } => {
                let mut g = random::Generator::create(*seed);
                let mut v: Vec<usize> = (0..*n).collect();
                g.shuffle(&mut v);
                push_n(&mut t, v.len());
                v.iter().for_each(|k| push_n(&mut t, *k));
            }
            Case::Net(spec, cmd) => {
                let mut n = spec.build();
                run_net_cmd(&mut t, &mut n, cmd);
            }
            Case::ConnectSeq(spec, calls) => {
                let mut n = spec.build();
                for (a, b) in calls {
                    let r = catch_unwind(AssertUnwindSafe(|| n.connect(*a, *b)));
                    t.push(r.is_err() as i128);
                }
                let mut m: Vec<(usize, usize)> = n.connect.iter().map(|(k, v)| (*k, *v)).collect();
                m.sort();
                push_n(&mut t, m.len());
                for (k, v) in m {
                    push_n(&mut t, k);
                    push_n(&mut t, v);
                }
            }
        }
        t
    }
}

pub fn enc_grads(t: &mut Tok, wg: &[Tensor], bg: &[Option<Tensor>]) {
    push_n(t, wg.len());
    for g in wg {
        match &g.data {
            Data::Nested(l) => {
                t.push(1);
                enc_list_tensor_out(t, l)
            }
            _ => {
                t.push(0);
                enc_tensor_out(t, g)
            }
        }
    }
    push_n(t, bg.len());
    for g in bg {
        match g {
            None => t.push(0),
            Some(g) => match &g.data {
                Data::NestedOptional(l) => {
                    t.push(2);
                    push_n(t, l.len());
                    l.iter().for_each(|o| enc_opt_tensor_out(t, o));
                }
                _ => {
                    t.push(1);
                    enc_tensor_out(t, g)
                }
            },
        }
    }
}

pub fn enc_cmd(t: &mut Tok, cmd: &NetCmd) {
    match cmd {
        NetCmd::Predict(x) => {
            t.push(1);
            enc_tensor_in(t, x)
        }
        NetCmd::Forward(x) => {
            t.push(2);
            enc_tensor_in(t, x)
        }
        NetCmd::Backward(x, y) => {
            t.push(3);
            enc_tensor_in(t, x);
            enc_tensor_in(t, y)
        }
        NetCmd::Learn { data, val, batch, epochs } => {
            t.push(4);
            enc_pairs(t, data);
            match val {
                Some((v, th)) => {
                    t.push(1);
                    enc_pairs(t, v);
                    t.push(*th as i128)
                }
                None => t.push(0),
            }
            push_n(t, *batch);
            t.push(*epochs as i128)
        }
        NetCmd::Validate { data, tol, pre_training } => {
            t.push(5);
            enc_pairs(t, data);
            push_f(t, *tol);
            push_b(t, *pre_training)
        }
        NetCmd::Shapes => t.push(6),
        NetCmd::PredictBatch(xs) => {
            t.push(7);
            push_n(t, xs.len());
            xs.iter().for_each(|x| enc_tensor_in(t, x));
        }
        NetCmd::Step(x, y, s) => {
            t.push(8);
            enc_tensor_in(t, x);
            enc_tensor_in(t, y);
            t.push(*s as i128)
        }
        NetCmd::LearnTwice { data, batch, epochs1, epochs2 } => {
            t.push(10);
            enc_pairs(t, data);
            push_n(t, *batch);
            t.push(*epochs1 as i128);
            t.push(*epochs2 as i128)
        }
        NetCmd::LearnTwiceVal { data, val, th, batch, epochs1, epochs2 } => {
            t.push(11);
            enc_pairs(t, data);
            enc_pairs(t, val);
            t.push(*th as i128);
            push_n(t, *batch);
            t.push(*epochs1 as i128);
            t.push(*epochs2 as i128)
        }
        NetCmd::Script(cmds) => {
            t.push(12);
            push_n(t, cmds.len());
            cmds.iter().for_each(|c| enc_cmd(t, c));
        }
        NetCmd::SetLoops(l) => {
            t.push(13);
            push_n(t, l.len());
            for (o, i, k, s) in l {
                push_n(t, *o);
                push_n(t, *i);
                push_n(t, *k);
                push_b(t, *s);
            }
        }
        NetCmd::SetConnect(l) => {
            t.push(14);
            push_n(t, l.len());
            for (a, b) in l {
                push_n(t, *a);
                push_n(t, *b);
            }
        }
        NetCmd::SetActivation(i, a) => {
            t.push(15);
            push_n(t, *i);
            t.push(a.code());
        }
        NetCmd::SetOptimizer(o) => {
            t.push(16);
            o.enc(t);
        }
        NetCmd::SetObjective(ob, cl) => {
            t.push(17);
            t.push(ob.code());
            match cl {
                Some((lo, hi)) => {
                    t.push(1);
                    push_f(t, *lo);
                    push_f(t, *hi)
                }
                None => t.push(0),
            }
        }
        NetCmd::SetAccumulation(sa, la) => {
            t.push(18);
            t.push(sa.code());
            t.push(la.code());
        }
        NetCmd::LayerBackward(i, x, g) => {
            t.push(9);
            push_n(t, *i);
            enc_tensor_in(t, x);
            enc_tensor_in(t, g)
        }
    }
}

pub fn run_net_cmd(t: &mut Tok, n: &mut network::Network, cmd: &NetCmd) {
    match cmd {
        NetCmd::Predict(x) => enc_tensor_out(t, &n.predict(x)),
        NetCmd::Forward(x) => {
            let (pre, post, _, _) = n.forward(x);
            enc_list_tensor_out(t, &pre);
            enc_list_tensor_out(t, &post);
        }
        NetCmd::Backward(x, y) => {
            let (pre, post, mx, fb) = n.forward(x);
            let (l, g) = n.verif_objective().loss(post.last().unwrap(), y);
            let (wg, bg) = n.verif_backward(g, &pre, &post, &mx, fb);
            out_f(t, l);
            enc_grads(t, &wg, &bg);
        }
        NetCmd::Learn { data, val, batch, epochs } => {
            let xs = alias_refs(data);
            let ys: Vec<&Tensor> = data.iter().map(|p| &p.1).collect();
            let (vx, vy): (Vec<&Tensor>, Vec<&Tensor>) = match val {
                Some((v, _)) => (alias_refs(v), v.iter().map(|p| &p.1).collect()),
                None => (vec![], vec![]),
            };
            let validation = match val {
                Some((_, th)) => Some((&vx, &vy, *th)),
                None => None,
            };
            let (tr, vl, va) = n.learn(&xs, &ys, validation, *batch, *epochs, print_freq(*batch, *epochs));
            for h in [&tr, &vl, &va] {
                push_n(t, h.len());
                h.iter().for_each(|e| out_f(t, *e));
            }
            enc_weights(t, n);
            enc_flags(t, n);
        }
        NetCmd::Validate { data, tol, pre_training } => {
            let xs = alias_refs(data);
            let ys: Vec<&Tensor> = data.iter().map(|p| &p.1).collect();
            if *pre_training {
                n.verif_set_training(true);
            }
            let (l, a) = n.validate(&xs, &ys, *tol);
            out_f(t, l);
            out_f(t, a);
            enc_flags(t, n);
        }
        NetCmd::Shapes => {
            push_n(t, n.verif_parameters());
            push_n(t, n.layers.len());
            for l in &n.layers {
                let (i, o) = match l {
                    network::Layer::Dense(l) => l.verif_shapes(),
                    network::Layer::Convolution(l) => l.verif_shapes(),
                    network::Layer::Deconvolution(l) => l.verif_shapes(),
                    network::Layer::Maxpool(l) => l.verif_shapes(),
                    network::Layer::Feedback(l) => l.verif_shapes(),
                };
                enc_shape(t, &i);
                enc_shape(t, &o);
            }
        }
        NetCmd::PredictBatch(xs) => {
            let r = n.predict_batch(&xs.iter().collect());
            enc_list_tensor_out(t, &r);
        }
        NetCmd::Step(x, y, s) => {
            let (pre, post, mx, fb) = n.forward(x);
            let (_, g) = n.verif_objective().loss(post.last().unwrap(), y);
            let (wg, bg) = n.verif_backward(g, &pre, &post, &mx, fb);
            n.verif_update(*s, wg, bg);
            enc_weights(t, n);
        }
        NetCmd::LearnTwice { data, batch, epochs1, epochs2 } => {
            let xs: Vec<&Tensor> = data.iter().map(|p| &p.0).collect();
            let ys: Vec<&Tensor> = data.iter().map(|p| &p.1).collect();
            let _ = n.learn(&xs, &ys, None, *batch, *epochs1, None);
            let (tr, vl, va) = n.learn(&xs, &ys, None, *batch, *epochs2, None);
            for h in [&tr, &vl, &va] {
                push_n(t, h.len());
                h.iter().for_each(|e| out_f(t, *e));
            }
            enc_weights(t, n);
        }
        NetCmd::Script(cmds) => {
            for c in cmds {
                run_net_cmd(t, n, c);
            }
            enc_weights(t, n);
            enc_flags(t, n);
        }
        NetCmd::LearnTwiceVal { data, val, th, batch, epochs1, epochs2 } => {
            let xs = alias_refs(data);
            let ys: Vec<&Tensor> = data.iter().map(|p| &p.1).collect();
            let vx = alias_refs(val);
            let vy: Vec<&Tensor> = val.iter().map(|p| &p.1).collect();
            let _ = n.learn(&xs, &ys, Some((&vx, &vy, *th)), *batch, *epochs1, None);
            let (tr, vl, va) = n.learn(&xs, &ys, Some((&vx, &vy, *th)), *batch, *epochs2, None);
            for h in [&tr, &vl, &va] {
                push_n(t, h.len());
                h.iter().for_each(|e| out_f(t, *e));
            }
            enc_weights(t, n);
        }
        NetCmd::SetLoops(l) => {
            n.loopbacks = l.iter().map(|&(o, i, k, s)| (o, (i, k, s))).collect();
        }
        NetCmd::SetConnect(l) => {
            n.connect = l.iter().cloned().collect();
        }
        NetCmd::SetActivation(i, a) => {
            n.set_activation(*i, a.to());
        }
        NetCmd::SetOptimizer(o) => n.set_optimizer(o.to()),
        NetCmd::SetObjective(ob, cl) => n.set_objective(ob.to(), *cl),
        NetCmd::SetAccumulation(sa, la) => n.set_accumulation(sa.to(), la.to()),
        NetCmd::LayerBackward(i, x, g) => {
            let (ig, wg, bg) = match &n.layers[*i] {
                network::Layer::Dense(l) => {
                    let (pre, _) = l.forward(x);
                    l.backward(g, x, &pre)
                }
                network::Layer::Convolution(l) => {
                    let (pre, _) = l.forward(x);
                    l.backward(g, x, &pre)
                }
                network::Layer::Deconvolution(l) => {
                    let (pre, _) = l.forward(x);
                    l.backward(g, x, &pre)
                }
                network::Layer::Maxpool(l) => {
                    let (_, _, mx) = l.forward(x);
                    (l.backward(g, &mx), t1(vec![]), None)
                }
                network::Layer::Feedback(_) => panic!("layer backward of a block"),
            };
            enc_tensor_out(t, &ig);
            enc_tensor_out(t, &wg);
            enc_opt_tensor_out(t, &bg);
        }
    }
}

/// the `print` argument of `learn` (console reporting every p epochs) as a function of the case: the
/// result of `learn` must not depend on it, so the model ignores it and the harness varies it
/// the input references of a data set; consecutive samples whose inputs are bit-identical share ONE
/// reference (callers that oversample pass the same tensor object several times)
pub fn alias_refs(data: &[(Tensor, Tensor)]) -> Vec<&Tensor> {
    let mut out: Vec<&Tensor> = Vec::with_capacity(data.len());
    for (i, p) in data.iter().enumerate() {
        if i > 0 && same_bits(&data[i - 1].0, &p.0) {
            let prev = out[i - 1];
            out.push(prev);
        } else {
            out.push(&p.0);
        }
    }
    out
}
fn same_bits(a: &Tensor, b: &Tensor) -> bool {
    let (mut ta, mut tb): (Tok, Tok) = (vec![], vec![]);
    enc_tensor_out(&mut ta, a);
    enc_tensor_out(&mut tb, b);
    ta == tb
}

pub fn print_freq(batch: usize, epochs: i32) -> Option<i32> {
    match (batch % 4 + epochs.max(0) as usize) % 4 {
        0 => None,
        1 => Some(1),
        2 => Some(2),
        _ => Some(5),
    }
}
