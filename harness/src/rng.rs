//! One splitmix64 state drives every random choice of a run.
pub struct Rng(pub u64);

impl Rng {
    pub fn new(seed: u64) -> Self {
        Rng(seed.wrapping_mul(0x9E37_79B9_7F4A_7C15) ^ 0xD1B5_4A32_D192_ED03)
    }
    pub fn next(&mut self) -> u64 {
        self.0 = self.0.wrapping_add(0x9E37_79B9_7F4A_7C15);
        let mut z = self.0;
        z = (z ^ (z >> 30)).wrapping_mul(0xBF58_476D_1CE4_E5B9);
        z = (z ^ (z >> 27)).wrapping_mul(0x94D0_49BB_1331_11EB);
        z ^ (z >> 31)
    }
    pub fn below(&mut self, n: usize) -> usize {
        (self.next() % n.max(1) as u64) as usize
    }
    /// inclusive range
    pub fn range(&mut self, lo: usize, hi: usize) -> usize {
        lo + self.below(hi - lo + 1)
    }
    pub fn coin(&mut self) -> bool {
        self.next() & 1 == 1
    }
    pub fn chance(&mut self, num: u64, den: u64) -> bool {
        self.next() % den < num
    }
    pub fn pick<'a, T>(&mut self, xs: &'a [T]) -> &'a T {
        &xs[self.below(xs.len())]
    }
    /// small dyadic rational k/16 with k in -48..=48, exactly representable; sums and products of
    /// a few of them are exact in f32
    pub fn dyadic(&mut self) -> f32 {
        (self.range(0, 96) as f32 - 48.0) / 16.0
    }
    pub fn dyadic_nz(&mut self) -> f32 {
        loop {
            let x = self.dyadic();
            if x != 0.0 {
                return x;
            }
        }
    }
    /// uniform in [0,1)
    pub fn unit(&mut self) -> f32 {
        (self.next() >> 40) as f32 / (1u64 << 24) as f32
    }
    /// uniform in [-1,1) with full mantissa
    pub fn sym(&mut self) -> f32 {
        self.unit() * 2.0 - 1.0
    }
    /// a random finite float from its bit pattern (all exponents equally likely)
    pub fn finite_bits(&mut self) -> f32 {
        loop {
            let x = f32::from_bits(self.next() as u32);
            if x.is_finite() {
                return x;
            }
        }
    }
    /// finite float of moderate magnitude (|x| in [2^-20, 2^20]) or zero
    pub fn moderate(&mut self) -> f32 {
        if self.chance(1, 16) {
            return if self.coin() { 0.0 } else { -0.0 };
        }
        let e = self.range(107, 147) as u32; // biased exponent
        let m = (self.next() as u32) & 0x7F_FFFF;
        let s = (self.coin() as u32) << 31;
        f32::from_bits(s | (e << 23) | m)
    }
    /// pairwise distinct dyadic values: a shuffled arithmetic progression
    pub fn distinct(&mut self, n: usize) -> Vec<f32> {
        let mut v: Vec<f32> = (0..n).map(|i| (i as f32 - (n / 2) as f32) / 8.0 + 0.0625).collect();
        for i in (1..n).rev() {
            let j = self.below(i + 1);
            v.swap(i, j);
        }
        v
    }
    pub fn vec(&mut self, n: usize, kind: u8) -> Vec<f32> {
        match kind {
            0 => self.distinct(n),
            1 => (0..n).map(|_| self.dyadic()).collect(),
            2 => (0..n).map(|_| self.sym()).collect(),
            3 => (0..n).map(|_| self.moderate()).collect(),
            _ => (0..n).map(|_| self.finite_bits()).collect(),
        }
    }
}
