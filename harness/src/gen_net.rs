//! Network-level tie cases: C02 (forward operators), C08 (shapes), C01 (gradients).
use crate::case::{Case, NetCmd};
use crate::gen_tensor::Tagged;
use crate::netgen::*;
use crate::rng::Rng;
use crate::spec::*;
use crate::tok::*;
use neurons::tensor::Tensor;

fn flat_version(x: &Tensor) -> Tensor {
    t1(flat_of(x))
}

fn single_layer(rng: &mut Rng, o: &GenOpts, kind: &str) -> Option<(NetSpec, Vec<Sh>)> {
    let input = if kind == "dense" {
        Sh::Flat(rng.range(1, 8))
    } else {
        Sh::Sp(rng.range(1, o.max_ch + 1), rng.range(1, o.max_sp), rng.range(1, o.max_sp))
    };
    rand_seq(rng, o, input, 1, &[kind], false)
}

pub fn gen_c02(rng: &mut Rng, thorough: bool) -> Vec<Tagged> {
    let mut out: Vec<Tagged> = vec![];
    let mut o = GenOpts::default();
    o.stride_max = 3;
    o.dil_max = 3;
    o.pad_max = 3;
    o.max_sp = 7;
    let reps = if thorough { 150 } else { 22 };
    for kind in ["dense", "conv", "deconv", "maxpool"] {
        for r in 0..reps {
            o.wkind = if r % 3 == 0 { 2 } else { 1 };
            if let Some((spec, shapes)) = single_layer(rng, &o, kind) {
                let x = rand_input(rng, shapes[0], if r % 3 == 0 { 2 } else { 0 });
                out.push((format!("{}-fwd", kind), Case::Net(spec.clone(), NetCmd::Forward(x.clone()))));
                if kind != "dense" {
                    // the same input arriving as a flat vector
                    out.push((format!("{}-fwd-flatinput", kind), Case::Net(spec.clone(), NetCmd::Forward(flat_version(&x)))));
                }
            }
        }
    }
    // compositions: prediction = layers in order, including flatten-before-dense
    for r in 0..reps * 2 {
        o.wkind = 1;
        let depth = rng.range(2, 4);
        let spatial = r % 3 != 0;
        let input = if spatial { Sh::Sp(rng.range(1, 2), rng.range(2, 6), rng.range(2, 6)) } else { Sh::Flat(rng.range(1, 9)) };
        let kinds: Vec<&str> = if spatial { vec!["conv", "deconv", "maxpool", "dense"] } else { vec!["dense", "dense", "conv", "maxpool"] };
        if let Some((spec, shapes)) = rand_seq(rng, &o, input, depth, &kinds, r % 2 == 0) {
            let x = rand_input(rng, shapes[0], 0);
            out.push(("seq-predict".into(), Case::Net(spec.clone(), NetCmd::Predict(x.clone()))));
            out.push(("seq-forward".into(), Case::Net(spec, NetCmd::Forward(x))));
        }
    }
    // boundary classes visited deterministically: wide dense rows, kernels larger than the input (with
    // padding), strides larger than the kernel, dilation 3, several channels and filters, pooling
    // windows equal to the input
    for &n in &[31usize, 32, 33, 36, 64, 65, 100] {
        let d = Simple::Dense { out: 2, act: Act::Linear, bias: true, dropout: None };
        let mut spec = NetSpec::new(Sh::Flat(n).to_shape());
        spec.weights = Some(vec![LW::One(rand_w(rng, &d, Sh::Flat(n), 1))]);
        spec.layers.push(LayerSpec::One(d));
        out.push(("dense-wide-fwd".into(), Case::Net(spec, NetCmd::Forward(rand_input(rng, Sh::Flat(n), 0)))));
    }
    let spatial_cases: Vec<(Sh, Simple)> = vec![
        (Sh::Sp(3, 3, 4), Simple::Conv { filters: 3, kernel: (5, 5), stride: (1, 1), padding: (2, 2), dilation: (1, 1), act: Act::Linear, dropout: None }),
        (Sh::Sp(2, 2, 3), Simple::Conv { filters: 2, kernel: (4, 6), stride: (1, 2), padding: (2, 3), dilation: (1, 1), act: Act::Tanh, dropout: None }),
        (Sh::Sp(1, 7, 6), Simple::Conv { filters: 2, kernel: (2, 2), stride: (4, 3), padding: (0, 1), dilation: (1, 1), act: Act::Linear, dropout: None }),
        (Sh::Sp(4, 7, 7), Simple::Conv { filters: 1, kernel: (3, 2), stride: (1, 1), padding: (0, 0), dilation: (3, 3), act: Act::Linear, dropout: None }),
        (Sh::Sp(2, 5, 5), Simple::Conv { filters: 3, kernel: (3, 3), stride: (2, 1), padding: (3, 0), dilation: (2, 1), act: Act::ReLU, dropout: None }),
        (Sh::Sp(3, 2, 3), Simple::Deconv { filters: 2, kernel: (5, 4), stride: (3, 2), padding: (2, 1), act: Act::Linear, dropout: None }),
        (Sh::Sp(1, 3, 1), Simple::Deconv { filters: 3, kernel: (1, 5), stride: (2, 3), padding: (0, 2), act: Act::Sigmoid, dropout: None }),
        (Sh::Sp(4, 1, 1), Simple::Deconv { filters: 1, kernel: (3, 3), stride: (1, 1), padding: (1, 1), act: Act::Linear, dropout: None }),
        (Sh::Sp(3, 4, 5), Simple::Maxpool { kernel: (4, 5), stride: (1, 1) }),
        (Sh::Sp(2, 5, 6), Simple::Maxpool { kernel: (3, 2), stride: (1, 2) }),
        (Sh::Sp(1, 6, 6), Simple::Maxpool { kernel: (2, 2), stride: (3, 3) }),
        (Sh::Sp(2, 1, 7), Simple::Maxpool { kernel: (1, 3), stride: (1, 2) }),
    ];
    for (inp, l) in spatial_cases {
        if out_shape(&l, inp).is_none() {
            continue;
        }
        let mut spec = NetSpec::new(inp.to_shape());
        spec.weights = Some(vec![LW::One(rand_w(rng, &l, inp, 1))]);
        let kind = l.kind();
        spec.layers.push(LayerSpec::One(l));
        let x = rand_input(rng, inp, 0);
        out.push((format!("{}-boundary-fwd", kind), Case::Net(spec.clone(), NetCmd::Forward(x.clone()))));
        out.push((format!("{}-boundary-fwd-flatinput", kind), Case::Net(spec, NetCmd::Forward(flat_version(&x)))));
    }
    // parameters in a special relation (stride == kernel, 1x1 kernels with padding and stride, overhanging
    // kernels, ...): forward, both input representations
    for (inp, l) in special_relation_layers() {
        if out_shape(&l, inp).is_none() {
            continue;
        }
        let mut spec = NetSpec::new(inp.to_shape());
        spec.weights = Some(vec![LW::One(rand_w(rng, &l, inp, 1))]);
        let kind = l.kind();
        spec.layers.push(LayerSpec::One(l));
        let x = rand_input(rng, inp, 0);
        out.push((format!("{}-special-relation-fwd", kind), Case::Net(spec.clone(), NetCmd::Forward(x.clone()))));
        out.push((format!("{}-special-relation-fwd-flatinput", kind), Case::Net(spec, NetCmd::Forward(flat_version(&x)))));
    }
    // many multiply-accumulates / output elements with non-square output planes: forward alone, and in front of a dense
    // layer (the flattened sequence is the row-major one)
    for (k, (inp, l)) in big_nonsquare_layers().into_iter().enumerate() {
        let osh = match out_shape(&l, inp) { Some(o) => o, None => continue };
        if !(thorough || k < 4 || k == 6) {
            continue;
        }
        let mut spec = NetSpec::new(inp.to_shape());
        let lw = LW::One(rand_w(rng, &l, inp, 1));
        let kind = l.kind();
        spec.layers.push(LayerSpec::One(l));
        let x = tensor_of_shape(&inp.to_shape(), &(0..inp.numel()).map(|i| ((i * 37) % 1013) as f32 * 0.002 - 1.0).collect::<Vec<_>>());
        let mut alone = spec.clone();
        alone.weights = Some(vec![lw.clone()]);
        out.push((format!("{}-big-nonsquare-fwd", kind), Case::Net(alone, NetCmd::Forward(x.clone()))));
        let d = Simple::Dense { out: 2, act: Act::Linear, bias: false, dropout: None };
        let wd: Vec<f32> = (0..2 * osh.numel()).map(|i| ((i * 13) % 31) as f32 * 0.01 - 0.15).collect();
        spec.weights = Some(vec![lw, LW::One(W::Dense(t2(2, osh.numel(), &wd), None))]);
        spec.layers.push(LayerSpec::One(d));
        out.push((format!("{}-big-nonsquare-then-dense-predict", kind), Case::Net(spec, NetCmd::Predict(x))));
    }
    // special input values (infinities, NaN, huge, denormal, signed zeros) through every layer kind,
    // both representations: the defining operator is applied to whatever arrives
    {
        let special: Vec<f32> = vec![f32::INFINITY, -1.0, f32::NAN, 3e38, -3e38, 1e-40, -0.0, 0.0, f32::NEG_INFINITY, 2.5, f32::MAX, f32::MIN_POSITIVE];
        let cases: Vec<(Sh, Simple)> = vec![
            (Sh::Flat(6), Simple::Dense { out: 3, act: Act::Linear, bias: true, dropout: None }),
            (Sh::Flat(6), Simple::Dense { out: 2, act: Act::ReLU, bias: false, dropout: None }),
            (Sh::Sp(1, 3, 4), Simple::Conv { filters: 2, kernel: (2, 2), stride: (1, 1), padding: (1, 0), dilation: (1, 1), act: Act::Linear, dropout: None }),
            (Sh::Sp(2, 2, 3), Simple::Conv { filters: 1, kernel: (1, 2), stride: (1, 1), padding: (0, 0), dilation: (1, 1), act: Act::Leaky, dropout: None }),
            (Sh::Sp(1, 3, 4), Simple::Deconv { filters: 2, kernel: (2, 2), stride: (2, 1), padding: (0, 0), act: Act::Linear, dropout: None }),
            (Sh::Sp(2, 3, 2), Simple::Maxpool { kernel: (2, 2), stride: (1, 1) }),
            (Sh::Sp(1, 3, 4), Simple::Maxpool { kernel: (3, 2), stride: (1, 2) }),
        ];
        for (inp, l) in cases {
            let n = inp.numel();
            for shift in 0..3 {
                let v: Vec<f32> = (0..n).map(|i| special[(i * 5 + shift * 3) % special.len()]).collect();
                let mut spec = NetSpec::new(inp.to_shape());
                spec.weights = Some(vec![LW::One(rand_w(rng, &l, inp, 1))]);
                let kind = l.kind();
                spec.layers.push(LayerSpec::One(l.clone()));
                let x = tensor_of_shape(&inp.to_shape(), &v);
                out.push((format!("{}-special-values-fwd", kind), Case::Net(spec.clone(), NetCmd::Forward(x.clone()))));
                if kind != "dense" {
                    out.push((format!("{}-special-values-fwd-flatinput", kind), Case::Net(spec, NetCmd::Forward(flat_version(&x)))));
                }
            }
        }
    }
    // "a network's prediction is the composition of its layers' outputs in order" on structured networks:
    // predict / predict_batch (not only forward) with chained and shared-source skip connections, loops, blocks
    for (k, acc) in crate::spec::ALL_ACCS.iter().enumerate() {
        let layouts: Vec<Vec<(usize, usize)>> = vec![vec![(0, 1), (1, 2)], vec![(1, 2), (2, 3), (1, 4)]];
        for (li, conns) in layouts.into_iter().enumerate() {
            let n = 2 + (k + li) % 2;
            let mut spec = crate::gen_net2::dense_chain(rng, n, 5, 1);
            spec.skipacc = *acc;
            spec.connect = conns;
            crate::gen_net2::entry_point_cases(rng, &spec, Sh::Flat(n), &format!("structured-skip-{:?}-layout{}", acc, li), &mut out);
        }
    }
    for r in 0..(if thorough { 12 } else { 4 }) {
        let (spec, input, _) = crate::gen_net2::combo_net(rng, r, 1);
        crate::gen_net2::entry_point_cases(rng, &spec, input, "structured-combination", &mut out);
    }
    // threshold sweep: extents around the powers of two at which a blocked / vectorised / parallel
    // fast path would switch on (dense inputs and outputs, channels, filters, spatial extents)
    for &(i, o_) in &[(7usize, 9usize), (8, 8), (9, 7), (63, 2), (64, 3), (65, 2), (127, 1), (128, 2), (129, 1), (2, 63), (3, 64), (2, 65), (1, 128), (2, 129), (33, 33)] {
        let d = Simple::Dense { out: o_, act: Act::Linear, bias: true, dropout: None };
        let mut spec = NetSpec::new(Sh::Flat(i).to_shape());
        spec.weights = Some(vec![LW::One(rand_w(rng, &d, Sh::Flat(i), 1))]);
        spec.layers.push(LayerSpec::One(d));
        out.push(("dense-threshold-fwd".into(), Case::Net(spec, NetCmd::Forward(rand_input(rng, Sh::Flat(i), 0)))));
    }
    let thr: Vec<(Sh, Simple)> = vec![
        (Sh::Sp(8, 3, 3), Simple::Conv { filters: 9, kernel: (2, 2), stride: (1, 1), padding: (0, 0), dilation: (1, 1), act: Act::Linear, dropout: None }),
        (Sh::Sp(9, 2, 3), Simple::Conv { filters: 8, kernel: (1, 2), stride: (1, 1), padding: (0, 1), dilation: (1, 1), act: Act::Linear, dropout: None }),
        (Sh::Sp(17, 2, 2), Simple::Conv { filters: 2, kernel: (2, 2), stride: (1, 1), padding: (1, 1), dilation: (1, 1), act: Act::Linear, dropout: None }),
        (Sh::Sp(1, 33, 17), Simple::Conv { filters: 1, kernel: (3, 3), stride: (2, 1), padding: (1, 0), dilation: (1, 1), act: Act::Linear, dropout: None }),
        (Sh::Sp(1, 16, 16), Simple::Conv { filters: 2, kernel: (3, 3), stride: (1, 1), padding: (1, 1), dilation: (1, 1), act: Act::Linear, dropout: None }),
        (Sh::Sp(9, 2, 2), Simple::Deconv { filters: 8, kernel: (2, 2), stride: (2, 2), padding: (0, 0), act: Act::Linear, dropout: None }),
        (Sh::Sp(1, 17, 9), Simple::Deconv { filters: 1, kernel: (3, 2), stride: (1, 2), padding: (1, 0), act: Act::Linear, dropout: None }),
        (Sh::Sp(9, 4, 4), Simple::Maxpool { kernel: (2, 2), stride: (2, 2) }),
        (Sh::Sp(1, 33, 17), Simple::Maxpool { kernel: (3, 2), stride: (2, 1) }),
        (Sh::Sp(2, 1, 65), Simple::Maxpool { kernel: (1, 2), stride: (1, 2) }),
    ];
    for (inp, l) in thr {
        if out_shape(&l, inp).is_none() {
            continue;
        }
        let mut spec = NetSpec::new(inp.to_shape());
        spec.weights = Some(vec![LW::One(rand_w(rng, &l, inp, 1))]);
        let kind = l.kind();
        spec.layers.push(LayerSpec::One(l));
        out.push((format!("{}-threshold-fwd", kind), Case::Net(spec, NetCmd::Forward(rand_input(rng, inp, 0)))));
    }
    // huge extents (beyond 2^10 and 2^16 elements, widths that are no powers of two), both representations
    let huge: Vec<(Sh, Simple)> = vec![
        (Sh::Flat(1100), Simple::Dense { out: 3, act: Act::Tanh, bias: true, dropout: None }),
        (Sh::Flat(3), Simple::Dense { out: 1100, act: Act::Linear, bias: true, dropout: None }),
        (Sh::Sp(1, 37, 37), Simple::Conv { filters: 1, kernel: (2, 3), stride: (1, 2), padding: (1, 0), dilation: (1, 1), act: Act::Linear, dropout: None }),
        (Sh::Sp(1, 37, 37), Simple::Maxpool { kernel: (2, 2), stride: (1, 1) }),
        (Sh::Sp(1, 36, 31), Simple::Deconv { filters: 1, kernel: (2, 2), stride: (1, 1), padding: (0, 0), act: Act::Linear, dropout: None }),
        // (the model's convolution indexes nested lists: its cost grows with the square of the extent, so the
        //  convolution / deconvolution stay below 5 000 cells; the max-pool walk is linear)
        (Sh::Sp(1, 70, 67), Simple::Conv { filters: 1, kernel: (1, 1), stride: (1, 1), padding: (0, 0), dilation: (1, 1), act: Act::Linear, dropout: None }),
        (Sh::Sp(1, 260, 257), Simple::Maxpool { kernel: (2, 1), stride: (2, 1) }),
        (Sh::Sp(1, 67, 70), Simple::Deconv { filters: 1, kernel: (1, 1), stride: (1, 1), padding: (0, 0), act: Act::Linear, dropout: None }),
    ];
    for (k, (inp, l)) in huge.into_iter().enumerate() {
        if k >= 5 && !(thorough || k == 6) {
            continue;
        }
        if out_shape(&l, inp).is_none() {
            continue;
        }
        let mut spec = NetSpec::new(inp.to_shape());
        spec.weights = Some(vec![LW::One(rand_w(rng, &l, inp, 1))]);
        let kind = l.kind();
        spec.layers.push(LayerSpec::One(l));
        let x = rand_input(rng, inp, 0);
        out.push((format!("{}-huge-fwd", kind), Case::Net(spec.clone(), NetCmd::Forward(x.clone()))));
        if kind != "dense" {
            out.push((format!("{}-huge-fwd-flatinput", kind), Case::Net(spec, NetCmd::Forward(flat_version(&x)))));
        }
    }
    // chains of padded convolutions whose PADDED inputs have the same size although the paddings
    // differ (6x6 p0 -> 4x4 p1; 2x2 p2 -> 4x4 p1 -> 4x4 p1 ...): every layer pads ITS input with zeros,
    // whatever was computed before on the same thread; consecutive cases repeat the pattern
    for r in 0..(if thorough { 24 } else { 8 }) {
        let pads: &[usize] = [&[0usize, 1][..], &[2, 1], &[1, 0, 1], &[2, 1, 1], &[3, 2]][r % 5];
        // with 3x3 kernels (stride 1): in_{k+1} = in_k + 2 p_k - 2; choose in_0 so that in_k + 2 p_k is constant
        let total = 6usize;
        let in0 = total - 2 * pads[0];
        let mut cur = Sh::Sp(1, in0, in0);
        let input = cur;
        let mut spec = NetSpec::new(cur.to_shape());
        let mut ws = vec![];
        let mut ok = true;
        for &p in pads {
            let (_, h, _) = as_spatial(cur).unwrap();
            if h + 2 * p != total {
                ok = false;
                break;
            }
            let c = Simple::Conv { filters: 1, kernel: (3, 3), stride: (1, 1), padding: (p, p), dilation: (1, 1), act: Act::Linear, dropout: None };
            ws.push(LW::One(rand_w(rng, &c, cur, 1)));
            cur = out_shape(&c, cur).unwrap();
            spec.layers.push(LayerSpec::One(c));
        }
        if !ok {
            continue;
        }
        spec.weights = Some(ws);
        for _ in 0..2 {
            out.push(("conv-chain-equal-padded-size".into(), Case::Net(spec.clone(), NetCmd::Forward(rand_input(rng, input, 0)))));
        }
    }
    // pointwise (1x1, stride 1, dilation 1) convolutions WITH padding: the zero border is part of the output
    for (p, inp) in [((1usize, 2usize), Sh::Sp(2, 4, 5)), ((2, 0), Sh::Sp(1, 3, 3)), ((0, 1), Sh::Sp(3, 2, 2)), ((1, 1), Sh::Sp(2, 1, 1))] {
        let c = Simple::Conv { filters: 3, kernel: (1, 1), stride: (1, 1), padding: p, dilation: (1, 1), act: Act::Linear, dropout: None };
        let mut spec = NetSpec::new(inp.to_shape());
        spec.weights = Some(vec![LW::One(rand_w(rng, &c, inp, 1))]);
        spec.layers.push(LayerSpec::One(c));
        let x = rand_input(rng, inp, 0);
        out.push(("conv-pointwise-padded-fwd".into(), Case::Net(spec.clone(), NetCmd::Forward(x.clone()))));
        out.push(("conv-pointwise-padded-shapes".into(), Case::Net(spec, NetCmd::Shapes)));
    }
    out
}

/// C08: announced shapes vs produced shapes; valid and invalid configurations; flat <-> spatial
pub fn gen_c08(rng: &mut Rng, thorough: bool) -> Vec<Tagged> {
    let mut out: Vec<Tagged> = vec![];
    let mut o = GenOpts::default();
    o.acts = vec![Act::Linear, Act::ReLU];
    o.wkind = 1;
    // (a) lattice of single spatial layers, valid or not: builder outcome and announced shapes,
    //     and for the valid ones the shapes actually produced
    let dims: Vec<usize> = if thorough { (1..=8).collect() } else { (1..=5).collect() };
    let mut lattice = vec![];
    for &h in &dims {
        for k in 1..=3usize {
            for s in 1..=3usize {
                for p in 0..=2usize {
                    for d in 1..=2usize {
                        lattice.push((h, k, s, p, d));
                    }
                }
            }
        }
    }
    for (i, &(h, k, s, p, d)) in lattice.iter().enumerate() {
        // pair every row configuration with an independently chosen column configuration
        let &(w, k2, s2, p2, d2) = rng.pick(&lattice);
        let c = rng.range(1, 2);
        let input = Sh::Sp(c, h, w);
        let layers = [
            // the activation cycles through all six (soft-max included): the produced shape must not depend on it
            Simple::Conv { filters: rng.range(1, 2), kernel: (k, k2), stride: (s, s2), padding: (p, p2), dilation: (d, d2), act: ALL_ACTS[(i / 3) % 6], dropout: None },
            Simple::Deconv { filters: rng.range(1, 2), kernel: (k, k2), stride: (s, s2), padding: (p.min(1), p2.min(1)), act: ALL_ACTS[(i / 3) % 6], dropout: None },
            Simple::Maxpool { kernel: (k, k2), stride: (s, s2) },
        ];
        let l = &layers[i % 3];
        let mut spec = NetSpec::new(input.to_shape());
        spec.layers.push(LayerSpec::One(l.clone()));
        let valid = out_shape(l, input);
        let tag = format!("lattice-{}-{}", l.kind(), if valid.is_some() { "valid" } else { "reject" });
        out.push((tag.clone(), Case::Net(spec.clone(), NetCmd::Shapes)));
        if valid.is_some() {
            spec.weights = Some(vec![LW::One(rand_w(rng, l, input, 1))]);
            let x = rand_input(rng, input, 0);
            out.push((format!("{}-produced", tag), Case::Net(spec.clone(), NetCmd::Forward(x.clone()))));
            // gradient shapes equal parameter shapes
            let g = rand_input(rng, valid.unwrap(), 1);
            out.push((format!("{}-gradshape", tag), Case::Net(spec, NetCmd::LayerBackward(0, x, g))));
        }
    }
    // (a2) every activation on a convolution / deconvolution: alone, followed by a spatial layer, followed
    //      by a dense layer (flatten boundary): announced = produced for each
    for a in ALL_ACTS {
        for variant in 0..6 {
            let input = Sh::Sp(1 + variant % 2, 3, 2 + variant % 3);
            let first = if variant % 2 == 0 {
                Simple::Conv { filters: 2, kernel: (2, 1), stride: (1, 1), padding: (0, 0), dilation: (1, 1), act: a, dropout: None }
            } else {
                Simple::Deconv { filters: 2, kernel: (1, 2), stride: (1, 1), padding: (0, 0), act: a, dropout: None }
            };
            let mid = match out_shape(&first, input) { Some(m) => m, None => continue };
            let mut spec = NetSpec::new(input.to_shape());
            let mut ws = vec![LW::One(rand_w(rng, &first, input, 1))];
            spec.layers.push(LayerSpec::One(first));
            match variant / 2 {
                0 => {}
                1 => {
                    let nxt = Simple::Conv { filters: 1, kernel: (1, 1), stride: (1, 1), padding: (0, 0), dilation: (1, 1), act: Act::Linear, dropout: None };
                    ws.push(LW::One(rand_w(rng, &nxt, mid, 1)));
                    spec.layers.push(LayerSpec::One(nxt));
                }
                _ => {
                    let nxt = Simple::Dense { out: 2, act: Act::Linear, bias: true, dropout: None };
                    ws.push(LW::One(rand_w(rng, &nxt, Sh::Flat(mid.numel()), 1)));
                    spec.layers.push(LayerSpec::One(nxt));
                }
            }
            spec.weights = Some(ws);
            out.push((format!("act-{:?}-on-spatial-shapes", a), Case::Net(spec.clone(), NetCmd::Shapes)));
            out.push((format!("act-{:?}-on-spatial-produced", a), Case::Net(spec, NetCmd::Forward(rand_input(rng, input, 0)))));
        }
    }
    // (a3) a spatial feedback block directly followed by a dense layer (the block must flatten its output),
    //      and followed by a spatial layer (it must not)
    for r in 0..(if thorough { 24 } else { 8 }) {
        let (c, h, w) = (1 + r % 2, 2 + r % 3, 2 + (r / 2) % 3);
        let input = Sh::Sp(c, h, w);
        let ls = vec![Simple::Conv { filters: c, kernel: (3, 3), stride: (1, 1), padding: (1, 1), dilation: (1, 1), act: ALL_ACTS[r % 6], dropout: None }];
        let mut spec = NetSpec::new(input.to_shape());
        let mut ws = vec![LW::Block(vec![rand_w(rng, &ls[0], input, 1)])];
        spec.layers.push(LayerSpec::Block { layers: ls, loops: 1 + r % 3, inskips: r % 4 == 1, outskips: r % 4 == 2, acc: crate::spec::Acc::Add });
        let nxt = if r % 3 == 2 {
            Simple::Maxpool { kernel: (1, 1), stride: (1, 1) }
        } else {
            Simple::Dense { out: 2, act: Act::Linear, bias: true, dropout: None }
        };
        ws.push(LW::One(match &nxt { Simple::Maxpool { .. } => W::None, d => rand_w(rng, d, Sh::Flat(input.numel()), 1) }));
        spec.layers.push(LayerSpec::One(nxt));
        spec.weights = Some(ws);
        out.push(("spatial-block-then-next-shapes".into(), Case::Net(spec.clone(), NetCmd::Shapes)));
        out.push(("spatial-block-then-next-produced".into(), Case::Net(spec, NetCmd::Forward(rand_input(rng, input, 0)))));
    }
    // (a4) parameters in a special relation (see netgen::special_relation_layers): announced = produced
    for (inp, l) in special_relation_layers() {
        let mut spec = NetSpec::new(inp.to_shape());
        let kind = l.kind();
        spec.layers.push(LayerSpec::One(l.clone()));
        out.push((format!("{}-special-relation-shapes", kind), Case::Net(spec.clone(), NetCmd::Shapes)));
        if out_shape(&l, inp).is_some() {
            spec.weights = Some(vec![LW::One(rand_w(rng, &l, inp, 1))]);
            out.push((format!("{}-special-relation-produced", kind), Case::Net(spec, NetCmd::Forward(rand_input(rng, inp, 0)))));
        }
    }
    // (a5) big non-square outputs (more than 2^14 elements) in front of a dense layer: announced = produced, and the
    //      flattened values reach the dense layer in row-major order (its output is compared)
    for (k, (inp, l)) in big_nonsquare_layers().into_iter().enumerate() {
        let osh = match out_shape(&l, inp) { Some(o) => o, None => continue };
        if !(thorough || k == 2 || k == 3 || k == 6) {
            continue;
        }
        let mut spec = NetSpec::new(inp.to_shape());
        let lw = LW::One(rand_w(rng, &l, inp, 1));
        let kind = l.kind();
        spec.layers.push(LayerSpec::One(l));
        let d = Simple::Dense { out: 2, act: Act::Linear, bias: false, dropout: None };
        let wd: Vec<f32> = (0..2 * osh.numel()).map(|i| ((i * 13) % 31) as f32 * 0.01 - 0.15).collect();
        spec.weights = Some(vec![lw, LW::One(W::Dense(t2(2, osh.numel(), &wd), None))]);
        spec.layers.push(LayerSpec::One(d));
        let x = tensor_of_shape(&inp.to_shape(), &(0..inp.numel()).map(|i| ((i * 37) % 1013) as f32 * 0.002 - 1.0).collect::<Vec<_>>());
        out.push((format!("{}-big-nonsquare-then-dense-shapes", kind), Case::Net(spec.clone(), NetCmd::Shapes)));
        out.push((format!("{}-big-nonsquare-then-dense-produced", kind), Case::Net(spec, NetCmd::Forward(x))));
    }
    // (b) flat -> spatial transitions for every flat size (perfect squares and not)
    let maxn = if thorough { 150 } else { 50 };
    for n in 1..=maxn {
        let r = isqrt(n);
        let square = r * r == n;
        let next = match n % 3 {
            0 => Simple::Conv { filters: 1, kernel: (1, 1), stride: (1, 1), padding: (0, 0), dilation: (1, 1), act: Act::Linear, dropout: None },
            1 => Simple::Maxpool { kernel: (1, 1), stride: (1, 1) },
            _ => Simple::Deconv { filters: 1, kernel: (1, 1), stride: (1, 1), padding: (0, 0), act: Act::Linear, dropout: None },
        };
        let mut spec = NetSpec::new(Sh::Flat(3).to_shape());
        spec.layers.push(LayerSpec::One(Simple::Dense { out: n, act: Act::Linear, bias: false, dropout: None }));
        spec.layers.push(LayerSpec::One(next.clone()));
        let tag = format!("flat{}-to-{}", if square { "square" } else { "nonsquare" }, next.kind());
        out.push((tag.clone(), Case::Net(spec.clone(), NetCmd::Shapes)));
        // element preservation: identity 1x1 kernel, distinct values
        let mut spec2 = spec.clone();
        spec2.weights = Some(vec![
            LW::One(W::Dense(t2(n, 3, &rng.distinct(3 * n)), None)),
            LW::One(match next { Simple::Maxpool { .. } => W::None, _ => W::Kernels(vec![t3(1, 1, 1, &[1.0])]) }),
        ]);
        out.push((format!("{}-elements", tag), Case::Net(spec2, NetCmd::Forward(t1(rng.distinct(3))))));
    }
    // (b1) the same transition into a FEEDBACK BLOCK whose first layer is spatial: a non-square flat size is
    //      refused when the block is added, a square one is read as 1 x r x r by every repetition
    for n in 1..=(if thorough { 40usize } else { 17 }) {
        for variant in 0..3 {
            let first = match variant {
                0 => Simple::Conv { filters: 1, kernel: (3, 3), stride: (1, 1), padding: (1, 1), dilation: (1, 1), act: Act::Linear, dropout: None },
                1 => Simple::Maxpool { kernel: (1, 1), stride: (1, 1) },
                _ => Simple::Deconv { filters: 1, kernel: (1, 1), stride: (1, 1), padding: (0, 0), act: Act::Tanh, dropout: None },
            };
            let mut spec = NetSpec::new(Sh::Flat(3).to_shape());
            spec.layers.push(LayerSpec::One(Simple::Dense { out: n, act: Act::Linear, bias: false, dropout: None }));
            spec.layers.push(LayerSpec::Block { layers: vec![first], loops: 1 + n % 3, inskips: false, outskips: false, acc: crate::spec::Acc::Add });
            let r = isqrt(n);
            out.push((format!("flat{}-to-spatial-block", if r * r == n { "square" } else { "nonsquare" }), Case::Net(spec, NetCmd::Shapes)));
        }
    }
    // (b2) the same transition for HUGE flat sizes (r >= 256: beyond 2^16 elements, up to 2^20): perfect squares
    //      are read as 1 x r x r, their neighbours are refused; every spatial kind
    for (k, &n) in [65535usize, 65536, 65537, 66049, 66564, 262144, 263169, 1_000_000, 1_048_576, 1_048_577].iter().enumerate() {
        if !(thorough || n < 300_000) {
            continue;
        }
        for kind in 0..3 {
            let next = match (kind + k) % 3 {
                0 => Simple::Conv { filters: 1, kernel: (2, 3), stride: (2, 2), padding: (0, 0), dilation: (1, 1), act: Act::Linear, dropout: None },
                1 => Simple::Maxpool { kernel: (2, 2), stride: (2, 2) },
                _ => Simple::Deconv { filters: 1, kernel: (1, 2), stride: (1, 1), padding: (0, 0), act: Act::Linear, dropout: None },
            };
            let mut spec = NetSpec::new(Sh::Flat(1).to_shape());
            spec.layers.push(LayerSpec::One(Simple::Dense { out: n, act: Act::Linear, bias: false, dropout: None }));
            spec.layers.push(LayerSpec::One(next.clone()));
            let r = isqrt(n);
            out.push((format!("flathuge{}-to-{}", if r * r == n { "square" } else { "nonsquare" }, next.kind()), Case::Net(spec, NetCmd::Shapes)));
        }
    }
    // element preservation at 257 x 257 (66049 values) through a max-pool with a large window
    {
        let n = 66049usize;
        let mut spec = NetSpec::new(Sh::Flat(1).to_shape());
        spec.layers.push(LayerSpec::One(Simple::Dense { out: n, act: Act::Linear, bias: false, dropout: None }));
        spec.layers.push(LayerSpec::One(Simple::Maxpool { kernel: (64, 64), stride: (64, 64) }));
        let w: Vec<f32> = (0..n).map(|i| ((i * 7919) % 66049) as f32 * 0.001).collect();
        spec.weights = Some(vec![LW::One(W::Dense(t2(n, 1, &w), None)), LW::One(W::None)]);
        out.push(("flathugesquare-to-maxpool-elements".into(), Case::Net(spec, NetCmd::Forward(t1(vec![1.5])))));
    }
    // (c) random sequences with dense <-> spatial transitions: announced vs produced along the chain
    let reps = if thorough { 400 } else { 60 };
    for r in 0..reps {
        let depth = rng.range(2, if thorough { 7 } else { 5 });
        let spatial = r % 2 == 0;
        let input = if spatial { Sh::Sp(rng.range(1, 2), rng.range(2, 6), rng.range(2, 6)) } else { Sh::Flat(rng.range(1, 9)) };
        let kinds: Vec<&str> = vec!["conv", "deconv", "maxpool", "dense"];
        if let Some((spec, shapes)) = rand_seq(rng, &o, input, depth, &kinds, false) {
            out.push(("seq-shapes".into(), Case::Net(spec.clone(), NetCmd::Shapes)));
            let x = rand_input(rng, shapes[0], 0);
            out.push(("seq-produced".into(), Case::Net(spec.clone(), NetCmd::Forward(x.clone()))));
            let t = rand_target(rng, *shapes.last().unwrap(), Obj::MSE);
            let t = if matches!(spec.layers.last(), Some(LayerSpec::One(Simple::Dense { .. }))) { t } else { t };
            out.push(("seq-gradshapes".into(), Case::Net(spec, NetCmd::Backward(x, t))));
        }
    }
    // (d) first-layer kind vs network input kind
    for (inp, l) in [
        (Sh::Sp(1, 3, 3), Simple::Dense { out: 2, act: Act::Linear, bias: true, dropout: None }),
        (Sh::Flat(9), Simple::Conv { filters: 1, kernel: (2, 2), stride: (1, 1), padding: (0, 0), dilation: (1, 1), act: Act::Linear, dropout: None }),
        (Sh::Flat(9), Simple::Maxpool { kernel: (2, 2), stride: (1, 1) }),
    ] {
        let mut spec = NetSpec::new(inp.to_shape());
        spec.layers.push(LayerSpec::One(l));
        out.push(("first-layer-reject".into(), Case::Net(spec, NetCmd::Shapes)));
    }
    // (e0) pointwise (1x1, stride 1, dilation 1) convolutions and deconvolutions WITH padding: announced = produced
    for (p, inp) in [((1usize, 2usize), Sh::Sp(2, 4, 5)), ((2, 0), Sh::Sp(1, 3, 3)), ((0, 1), Sh::Sp(3, 2, 2)), ((1, 1), Sh::Sp(2, 1, 1)), ((2, 2), Sh::Sp(1, 1, 4))] {
        let c = Simple::Conv { filters: 3, kernel: (1, 1), stride: (1, 1), padding: p, dilation: (1, 1), act: Act::Linear, dropout: None };
        let mut spec = NetSpec::new(inp.to_shape());
        spec.weights = Some(vec![LW::One(rand_w(rng, &c, inp, 1))]);
        spec.layers.push(LayerSpec::One(c.clone()));
        out.push(("conv-pointwise-padded-shapes".into(), Case::Net(spec.clone(), NetCmd::Shapes)));
        out.push(("conv-pointwise-padded-produced".into(), Case::Net(spec.clone(), NetCmd::Forward(rand_input(rng, inp, 0)))));
        // followed by a dense layer: the flattened length is the announced one
        if let Some(osh) = out_shape(&c, inp) {
            let d = Simple::Dense { out: 2, act: Act::Linear, bias: false, dropout: None };
            let mut sp2 = spec.clone();
            sp2.weights.as_mut().unwrap().push(LW::One(rand_w(rng, &d, Sh::Flat(osh.numel()), 1)));
            sp2.layers.push(LayerSpec::One(d));
            out.push(("conv-pointwise-padded-then-dense".into(), Case::Net(sp2, NetCmd::Forward(rand_input(rng, inp, 0)))));
        }
    }
    // (e) flat -> MULTI-channel spatial transitions (only reachable through reshape: a flattened
    //     multi-filter output looped back into its spatial layer, a skip from a flat tensor into a
    //     multi-channel input, and the tensor-level reshape / get_triple themselves); distinct values
    for (c, h, w) in [(2usize, 2usize, 2usize), (2, 2, 3), (3, 1, 2), (2, 3, 2), (3, 2, 2)] {
        let n = c * h * w;
        let v = rng.distinct(n);
        out.push(("flat-to-multichannel-reshape".into(), Case::Reshape(t1(v.clone()), Sh::Sp(c, h, w).to_shape())));
        out.push(("flat-to-multichannel-get-triple".into(), Case::GetTriple(t1(v.clone()), Sh::Sp(c, h, w).to_shape())));
        // conv with c identity 1x1 filters followed by a dense layer (its output is flattened), looped back once
        let mut spec = NetSpec::new(Sh::Sp(c, h, w).to_shape());
        let conv = Simple::Conv { filters: c, kernel: (1, 1), stride: (1, 1), padding: (0, 0), dilation: (1, 1), act: Act::Linear, dropout: None };
        let dense = Simple::Dense { out: 2, act: Act::Linear, bias: false, dropout: None };
        let mut kernels = vec![];
        for f in 0..c {
            let mut k = vec![0.0f32; c];
            k[f] = 1.0;
            kernels.push(t3(c, 1, 1, &k));
        }
        spec.layers.push(LayerSpec::One(conv));
        spec.layers.push(LayerSpec::One(dense.clone()));
        spec.weights = Some(vec![LW::One(W::Kernels(kernels.clone())), LW::One(rand_w(rng, &dense, Sh::Flat(n), 1))]);
        spec.loops = vec![(0, 0, 1, false)];
        spec.loopacc = crate::spec::Acc::Overwrite;
        out.push(("flat-to-multichannel-loopback".into(), Case::Net(spec.clone(), NetCmd::Forward(tensor_of_shape(&Sh::Sp(c, h, w).to_shape(), &v)))));
        // dense(n) -> dense(h*w') ... a skip from the flat network input into a multi-channel conv input
        let r = isqrt(h * w);
        if r * r == h * w {
            let mut sp = NetSpec::new(Sh::Flat(c * r * r).to_shape());
            let d0 = Simple::Dense { out: r * r, act: Act::Linear, bias: false, dropout: None };
            let c1 = Simple::Conv { filters: c, kernel: (1, 1), stride: (1, 1), padding: (0, 0), dilation: (1, 1), act: Act::Linear, dropout: None };
            let c2 = Simple::Conv { filters: 1, kernel: (1, 1), stride: (1, 1), padding: (0, 0), dilation: (1, 1), act: Act::Linear, dropout: None };
            let w0 = rand_w(rng, &d0, Sh::Flat(c * r * r), 1);
            let k1: Vec<Tensor> = (0..c).map(|_| t3(1, 1, 1, &[1.0])).collect();
            let k2 = vec![t3(c, 1, 1, &rng.distinct(c))];
            sp.layers.push(LayerSpec::One(d0));
            sp.layers.push(LayerSpec::One(c1));
            sp.layers.push(LayerSpec::One(c2));
            sp.weights = Some(vec![LW::One(w0), LW::One(W::Kernels(k1)), LW::One(W::Kernels(k2))]);
            sp.connect = vec![(0, 2)];
            sp.skipacc = crate::spec::Acc::Overwrite;
            out.push(("flat-to-multichannel-skip".into(), Case::Net(sp, NetCmd::Forward(t1(rng.distinct(c * r * r))))));
        }
    }
    out
}

/// C01: gradients. Weight/bias/kernel gradients of whole networks and the input gradient of each
/// layer kind, inside and outside the configurations known to be wrong on the pinned tree.
pub fn gen_c01(rng: &mut Rng, thorough: bool) -> Vec<Tagged> {
    let mut out: Vec<Tagged> = vec![];
    let mut o = GenOpts::default();
    o.acts = ALL_ACTS.iter().cloned().filter(|a| *a != Act::Softmax).collect();
    o.stride_max = 3;
    o.dil_max = 2;
    o.pad_max = 3;
    let reps = if thorough { 120 } else { 16 };
    for kind in ["dense", "conv", "deconv", "maxpool"] {
        for r in 0..reps {
            o.wkind = if r % 2 == 0 { 1 } else { 2 };
            if let Some((spec, shapes)) = single_layer(rng, &o, kind) {
                let x = rand_input(rng, shapes[0], if r % 2 == 0 { 0 } else { 2 });
                let g = rand_input(rng, shapes[1], 1);
                out.push((format!("{}-layer-bwd", kind), Case::Net(spec, NetCmd::LayerBackward(0, x, g))));
            }
        }
    }
    for r in 0..reps * 2 {
        o.wkind = 2;
        let depth = rng.range(1, 4);
        let spatial = r % 3 != 0;
        let input = if spatial { Sh::Sp(rng.range(1, 2), rng.range(2, 6), rng.range(2, 6)) } else { Sh::Flat(rng.range(1, 7)) };
        let kinds: Vec<&str> = if spatial { vec!["conv", "deconv", "maxpool", "dense", "conv"] } else { vec!["dense"] };
        let end_dense = r % 2 == 0;
        if let Some((mut spec, shapes)) = rand_seq(rng, &o, input, depth, &kinds, end_dense) {
            spec.obj = ALL_OBJS[r % 7];
            if end_dense && r % 4 == 0 {
                // soft-max output under cross-entropy
                if let Some(LayerSpec::One(Simple::Dense { act, .. })) = spec.layers.last_mut() {
                    *act = Act::Softmax;
                }
                spec.obj = Obj::CE;
            }
            let x = rand_input(rng, shapes[0], 2);
            let t = rand_target(rng, *shapes.last().unwrap(), spec.obj);
            let tag = if spec.obj == Obj::CE && end_dense && r % 4 == 0 { "net-bwd-softmax-ce" } else { "net-bwd" };
            out.push((tag.into(), Case::Net(spec, NetCmd::Backward(x, t))));
        }
    }
    // gradients after `set_activation` (across the soft-max boundary in both directions, on the output and on a
    // hidden layer), on ONE network object: backward, switch, backward, learn
    for r in 0..(if thorough { 18 } else { 6 }) {
        let k = 3usize;
        let mut spec = NetSpec::new(Sh::Flat(2).to_shape());
        let first_softmax = r % 2 == 0;
        let d1 = Simple::Dense { out: 3, act: if r % 3 == 2 { Act::Softmax } else { Act::Tanh }, bias: true, dropout: None };
        let d2 = Simple::Dense { out: k, act: if first_softmax { Act::Softmax } else { [Act::Linear, Act::Sigmoid, Act::Tanh][(r / 2) % 3] }, bias: true, dropout: None };
        spec.weights = Some(vec![LW::One(rand_w(rng, &d1, Sh::Flat(2), 2)), LW::One(rand_w(rng, &d2, Sh::Flat(3), 2))]);
        spec.layers.push(LayerSpec::One(d1));
        spec.layers.push(LayerSpec::One(d2));
        spec.obj = if first_softmax { Obj::CE } else { Obj::MSE };
        let x = rand_input(rng, Sh::Flat(2), 2);
        let mut t = vec![0.0f32; k];
        t[r % k] = 1.0;
        let t = t1(t);
        let other = if first_softmax { [Act::Sigmoid, Act::Tanh, Act::Linear][(r / 2) % 3] } else { Act::Softmax };
        let ops = vec![
            NetCmd::Backward(x.clone(), t.clone()),
            NetCmd::SetActivation(1, other),
            NetCmd::SetObjective(if first_softmax { Obj::MSE } else { Obj::CE }, None),
            NetCmd::Backward(x.clone(), t.clone()),
            NetCmd::SetActivation(0, Act::Sigmoid),
            NetCmd::Backward(x.clone(), t.clone()),
            NetCmd::Learn { data: vec![(x.clone(), t.clone())], val: None, batch: 1, epochs: 2 },
            NetCmd::SetActivation(1, if first_softmax { Act::Softmax } else { Act::Linear }),
            NetCmd::SetObjective(if first_softmax { Obj::CE } else { Obj::MSE }, None),
            NetCmd::Backward(x, t),
        ];
        out.push(("gradients-after-set-activation".into(), Case::Net(spec, NetCmd::Script(ops))));
    }
    // boundary configurations visited deterministically (see gen_c02): layer-level backward
    let spatial_cases: Vec<(Sh, Simple)> = vec![
        (Sh::Sp(3, 3, 4), Simple::Conv { filters: 3, kernel: (5, 5), stride: (1, 1), padding: (2, 2), dilation: (1, 1), act: Act::Linear, dropout: None }),
        (Sh::Sp(2, 2, 3), Simple::Conv { filters: 2, kernel: (4, 6), stride: (1, 2), padding: (2, 3), dilation: (1, 1), act: Act::Tanh, dropout: None }),
        (Sh::Sp(1, 7, 6), Simple::Conv { filters: 2, kernel: (2, 2), stride: (4, 3), padding: (0, 1), dilation: (1, 1), act: Act::Linear, dropout: None }),
        (Sh::Sp(4, 7, 7), Simple::Conv { filters: 1, kernel: (3, 2), stride: (1, 1), padding: (0, 0), dilation: (3, 3), act: Act::Linear, dropout: None }),
        (Sh::Sp(2, 5, 5), Simple::Conv { filters: 3, kernel: (3, 3), stride: (2, 1), padding: (3, 0), dilation: (2, 1), act: Act::Sigmoid, dropout: None }),
        (Sh::Sp(3, 2, 3), Simple::Deconv { filters: 2, kernel: (5, 4), stride: (3, 2), padding: (2, 1), act: Act::Linear, dropout: None }),
        (Sh::Sp(1, 3, 1), Simple::Deconv { filters: 3, kernel: (1, 5), stride: (2, 3), padding: (0, 2), act: Act::Sigmoid, dropout: None }),
        (Sh::Sp(4, 1, 1), Simple::Deconv { filters: 1, kernel: (3, 3), stride: (1, 1), padding: (1, 1), act: Act::Linear, dropout: None }),
        (Sh::Sp(3, 4, 5), Simple::Maxpool { kernel: (4, 5), stride: (1, 1) }),
        (Sh::Sp(2, 5, 6), Simple::Maxpool { kernel: (3, 2), stride: (1, 2) }),
        (Sh::Sp(1, 6, 6), Simple::Maxpool { kernel: (2, 2), stride: (3, 3) }),
        (Sh::Sp(2, 1, 7), Simple::Maxpool { kernel: (1, 3), stride: (1, 2) }),
    ];
    for (inp, l) in spatial_cases {
        let osh = match out_shape(&l, inp) { Some(s) => s, None => continue };
        let mut spec = NetSpec::new(inp.to_shape());
        spec.weights = Some(vec![LW::One(rand_w(rng, &l, inp, 1))]);
        let kind = l.kind();
        spec.layers.push(LayerSpec::One(l));
        let x = rand_input(rng, inp, 2);
        let g = rand_input(rng, osh, 1);
        out.push((format!("{}-boundary-layer-bwd", kind), Case::Net(spec, NetCmd::LayerBackward(0, x, g))));
    }
    // parameters in a special relation (see netgen::special_relation_layers): layer-level backward, and the
    // layer inside a network (behind a 1x1 convolution, so that the input gradient is used as well)
    for (k, (inp, l)) in special_relation_layers().into_iter().enumerate() {
        let osh = match out_shape(&l, inp) { Some(s) => s, None => continue };
        let mut spec = NetSpec::new(inp.to_shape());
        spec.weights = Some(vec![LW::One(rand_w(rng, &l, inp, 1))]);
        let kind = l.kind();
        spec.layers.push(LayerSpec::One(l.clone()));
        let x = rand_input(rng, inp, 2);
        let g = rand_input(rng, osh, 1);
        out.push((format!("{}-special-relation-layer-bwd", kind), Case::Net(spec, NetCmd::LayerBackward(0, x, g))));
        if let Sh::Sp(c, _, _) = inp {
            let first = Simple::Conv { filters: c, kernel: (1, 1), stride: (1, 1), padding: (0, 0), dilation: (1, 1), act: Act::Tanh, dropout: None };
            let mut net = NetSpec::new(inp.to_shape());
            net.weights = Some(vec![LW::One(rand_w(rng, &first, inp, 1)), LW::One(rand_w(rng, &l, inp, 1))]);
            net.layers.push(LayerSpec::One(first));
            net.layers.push(LayerSpec::One(l));
            net.obj = Obj::MSE;
            if k % 2 == 0 || thorough {
                out.push((format!("{}-special-relation-net-bwd", kind), Case::Net(net, NetCmd::Backward(rand_input(rng, inp, 2), rand_target(rng, osh, Obj::MSE)))));
            }
        }
    }
    for &n in &[31usize, 32, 33, 65] {
        let d = Simple::Dense { out: 3, act: Act::Tanh, bias: true, dropout: None };
        let mut spec = NetSpec::new(Sh::Flat(n).to_shape());
        spec.weights = Some(vec![LW::One(rand_w(rng, &d, Sh::Flat(n), 1))]);
        spec.layers.push(LayerSpec::One(d));
        out.push(("dense-wide-layer-bwd".into(), Case::Net(spec, NetCmd::LayerBackward(0, rand_input(rng, Sh::Flat(n), 2), rand_input(rng, Sh::Flat(3), 1)))));
    }
    // threshold sweep (see gen_c02), layer-level backward
    let thr: Vec<(Sh, Simple)> = vec![
        (Sh::Sp(8, 3, 3), Simple::Conv { filters: 9, kernel: (2, 2), stride: (1, 1), padding: (0, 0), dilation: (1, 1), act: Act::Tanh, dropout: None }),
        (Sh::Sp(9, 2, 3), Simple::Conv { filters: 8, kernel: (1, 2), stride: (1, 1), padding: (0, 1), dilation: (1, 1), act: Act::Linear, dropout: None }),
        (Sh::Sp(17, 2, 2), Simple::Conv { filters: 2, kernel: (2, 2), stride: (1, 1), padding: (1, 1), dilation: (1, 1), act: Act::Linear, dropout: None }),
        (Sh::Sp(1, 17, 9), Simple::Conv { filters: 1, kernel: (3, 3), stride: (2, 1), padding: (1, 0), dilation: (1, 1), act: Act::Sigmoid, dropout: None }),
        (Sh::Sp(9, 2, 2), Simple::Deconv { filters: 8, kernel: (2, 2), stride: (2, 2), padding: (0, 0), act: Act::Linear, dropout: None }),
        (Sh::Sp(1, 9, 5), Simple::Deconv { filters: 1, kernel: (3, 2), stride: (1, 2), padding: (1, 0), act: Act::Tanh, dropout: None }),
        (Sh::Sp(9, 4, 4), Simple::Maxpool { kernel: (2, 2), stride: (2, 2) }),
        (Sh::Sp(1, 17, 9), Simple::Maxpool { kernel: (3, 2), stride: (2, 1) }),
    ];
    for (inp, l) in thr {
        let osh = match out_shape(&l, inp) { Some(s) => s, None => continue };
        let mut spec = NetSpec::new(inp.to_shape());
        spec.weights = Some(vec![LW::One(rand_w(rng, &l, inp, 1))]);
        let kind = l.kind();
        spec.layers.push(LayerSpec::One(l));
        out.push((format!("{}-threshold-layer-bwd", kind), Case::Net(spec, NetCmd::LayerBackward(0, rand_input(rng, inp, 2), rand_input(rng, osh, 1)))));
    }
    for &(i, o_) in &[(63usize, 2usize), (64, 3), (65, 2), (129, 1), (2, 63), (3, 64), (2, 129), (33, 33)] {
        let d = Simple::Dense { out: o_, act: Act::Sigmoid, bias: true, dropout: None };
        let mut spec = NetSpec::new(Sh::Flat(i).to_shape());
        spec.weights = Some(vec![LW::One(rand_w(rng, &d, Sh::Flat(i), 1))]);
        spec.layers.push(LayerSpec::One(d));
        out.push(("dense-threshold-layer-bwd".into(), Case::Net(spec, NetCmd::LayerBackward(0, rand_input(rng, Sh::Flat(i), 2), rand_input(rng, Sh::Flat(o_), 1)))));
    }
    // many OUTPUTS (the input gradient goes through the transposed weight matrix), layer level and inside a network
    for &m in &[64usize, 65, 70, 130] {
        let d = Simple::Dense { out: m, act: Act::Tanh, bias: true, dropout: None };
        let mut spec = NetSpec::new(Sh::Flat(5).to_shape());
        spec.weights = Some(vec![LW::One(rand_w(rng, &d, Sh::Flat(5), 1))]);
        spec.layers.push(LayerSpec::One(d.clone()));
        out.push(("dense-many-outputs-layer-bwd".into(), Case::Net(spec, NetCmd::LayerBackward(0, rand_input(rng, Sh::Flat(5), 2), rand_input(rng, Sh::Flat(m), 1)))));
        let d0 = Simple::Dense { out: 5, act: Act::Sigmoid, bias: true, dropout: None };
        let d2 = Simple::Dense { out: 2, act: Act::Linear, bias: false, dropout: None };
        let mut net = NetSpec::new(Sh::Flat(3).to_shape());
        net.weights = Some(vec![LW::One(rand_w(rng, &d0, Sh::Flat(3), 2)), LW::One(rand_w(rng, &d, Sh::Flat(5), 2)), LW::One(rand_w(rng, &d2, Sh::Flat(m), 2))]);
        net.layers.push(LayerSpec::One(d0));
        net.layers.push(LayerSpec::One(d));
        net.layers.push(LayerSpec::One(d2));
        net.obj = Obj::MSE;
        out.push(("net-bwd-wide-hidden-layer".into(), Case::Net(net, NetCmd::Backward(rand_input(rng, Sh::Flat(3), 2), rand_target(rng, Sh::Flat(2), Obj::MSE)))));
    }
    // two feedback blocks of different depth and loop count in one network
    for r in 0..(if thorough { 40 } else { 8 }) {
        o.wkind = 2;
        let n = rng.range(2, 4);
        let input = Sh::Flat(n);
        let mut spec = NetSpec::new(input.to_shape());
        let mut ws = vec![];
        let acts = [Act::Tanh, Act::Sigmoid, Act::Linear];
        let mut push_block = |spec: &mut NetSpec, ws: &mut Vec<LW>, rng: &mut Rng, nl: usize, loops: usize| {
            let ls: Vec<Simple> = (0..nl).map(|_| Simple::Dense { out: n, act: *rng.pick(&acts), bias: rng.coin(), dropout: None }).collect();
            let bw: Vec<W> = ls.iter().map(|l| rand_w(rng, l, Sh::Flat(n), 2)).collect();
            ws.push(LW::Block(bw));
            spec.layers.push(LayerSpec::Block { layers: ls, loops, inskips: false, outskips: false, acc: crate::spec::Acc::Mean });
        };
        push_block(&mut spec, &mut ws, rng, 1 + r % 2, 1 + r % 3);
        if r % 3 == 0 {
            let d = Simple::Dense { out: n, act: Act::Tanh, bias: true, dropout: None };
            ws.push(LW::One(rand_w(rng, &d, Sh::Flat(n), 2)));
            spec.layers.push(LayerSpec::One(d));
        }
        push_block(&mut spec, &mut ws, rng, 2 - r % 2, 1 + (r + 1) % 3);
        let d = Simple::Dense { out: rng.range(1, 3), act: Act::Linear, bias: true, dropout: None };
        let outn = if let Simple::Dense { out, .. } = &d { *out } else { 1 };
        ws.push(LW::One(rand_w(rng, &d, Sh::Flat(n), 2)));
        spec.layers.push(LayerSpec::One(d));
        spec.weights = Some(ws);
        spec.obj = Obj::MSE;
        let x = rand_input(rng, input, 2);
        let t = rand_target(rng, Sh::Flat(outn), Obj::MSE);
        out.push(("net-bwd-two-blocks".into(), Case::Net(spec, NetCmd::Backward(x, t))));
    }
    // saturated units: pre-activations far out on both sides (|pre| between 19 and 60) for every activation
    // and layer kind (the derivative there is tiny or zero, never huge)
    for a in ALL_ACTS {
        if a == Act::Softmax {
            continue;
        }
        for (k, &shift) in [-60.0f32, -30.0, -21.0, -19.5, 19.5, 21.0, 30.0, 60.0].iter().enumerate() {
            // dense: bias = shift
            let d = Simple::Dense { out: 2, act: a, bias: true, dropout: None };
            let mut spec = NetSpec::new(Sh::Flat(3).to_shape());
            spec.weights = Some(vec![LW::One(W::Dense(t2(2, 3, &[0.25, -0.5, 0.125, -0.25, 0.5, 0.0625]), Some(t1(vec![shift, shift * 0.5]))))]);
            spec.layers.push(LayerSpec::One(d));
            out.push((format!("dense-saturated-{:?}-layer-bwd", a), Case::Net(spec.clone(), NetCmd::LayerBackward(0, t1(vec![0.5, -0.25, 1.0]), t1(vec![1.0, -0.5])))));
            // the same layer inside a network, under MSE
            let d2 = Simple::Dense { out: 1, act: Act::Linear, bias: true, dropout: None };
            let mut net = spec.clone();
            let mut ws = net.weights.take().unwrap();
            ws.push(LW::One(rand_w(rng, &d2, Sh::Flat(2), 2)));
            net.layers.push(LayerSpec::One(d2));
            net.weights = Some(ws);
            net.obj = Obj::MSE;
            out.push((format!("net-bwd-saturated-{:?}", a), Case::Net(net, NetCmd::Backward(t1(vec![0.5, -0.25, 1.0]), t1(vec![0.25])))));
            // convolution: a large kernel entry on a constant-sign input
            if k % 2 == 0 {
                let c = Simple::Conv { filters: 1, kernel: (2, 2), stride: (1, 1), padding: (0, 0), dilation: (1, 1), act: a, dropout: None };
                let mut cs = NetSpec::new(Sh::Sp(1, 3, 3).to_shape());
                cs.weights = Some(vec![LW::One(W::Kernels(vec![t3(1, 2, 2, &[shift, 0.5, -0.25, 0.125])]))]);
                cs.layers.push(LayerSpec::One(c));
                let x = t3(1, 3, 3, &[1.0, 0.9, 1.1, 0.95, 1.05, 1.0, 0.9, 1.1, 1.0]);
                out.push((format!("conv-saturated-{:?}-layer-bwd", a), Case::Net(cs, NetCmd::LayerBackward(0, x, t3(1, 2, 2, &[1.0, -1.0, 0.5, 0.25])))));
            }
        }
    }
    // feedback blocks that contain a max-pool layer (1x1 and real windows), with and without skips
    for r in 0..(if thorough { 64 } else { 16 }) {
        if let Some((mut spec, input, outsh)) = crate::gen_net2::pool_block_net(rng, r, 2, false) {
            spec.obj = Obj::MSE;
            let x = rand_input(rng, input, 2);
            let t = rand_target(rng, outsh, Obj::MSE);
            out.push(("net-bwd-block-with-maxpool".into(), Case::Net(spec, NetCmd::Backward(x, t))));
        }
    }
    out
}
