//! Token streams shared with the Coq driver (coq/Driver.v): every case and every result is a
//! list of integers; floats travel as IEEE-754 bit patterns.
use neurons::tensor::{Data, Shape, Tensor};

pub type Tok = Vec<i128>;

pub const CANON_NAN: u32 = 0x7FC0_0000;

pub fn fbits(x: f32) -> i128 {
    if x.is_nan() {
        CANON_NAN as i128
    } else {
        x.to_bits() as i128
    }
}

pub fn push_f(t: &mut Tok, x: f32) {
    t.push(fbits(x));
}
/// Floats in RESULT lines carry an offset of 2^40 so that the comparison knows which tokens
/// may be compared up to rounding; every integer token is below 2^40.
pub const FLOAT_TAG: i128 = 1 << 40;
pub fn out_f(t: &mut Tok, x: f32) {
    t.push(FLOAT_TAG + fbits(x));
}
pub fn push_n(t: &mut Tok, n: usize) {
    t.push(n as i128);
}
pub fn push_b(t: &mut Tok, b: bool) {
    t.push(b as i128);
}
pub fn push_optf(t: &mut Tok, o: Option<f32>) {
    match o {
        Some(x) => {
            t.push(1);
            push_f(t, x)
        }
        None => t.push(0),
    }
}

pub fn enc_shape(t: &mut Tok, s: &Shape) {
    match s {
        Shape::Single(n) => {
            t.push(1);
            push_n(t, *n)
        }
        Shape::Double(r, c) => {
            t.push(2);
            push_n(t, *r);
            push_n(t, *c)
        }
        Shape::Triple(c, h, w) => {
            t.push(3);
            push_n(t, *c);
            push_n(t, *h);
            push_n(t, *w)
        }
        Shape::Quadruple(a, b, c, d) => {
            t.push(4);
            push_n(t, *a);
            push_n(t, *b);
            push_n(t, *c);
            push_n(t, *d)
        }
        Shape::Nested(n) => {
            t.push(5);
            push_n(t, *n)
        }
        _ => t.push(99),
    }
}

/// Input encoding of a (well-formed, rectangular) tensor: rank, dims, row-major values.
pub fn enc_tensor_in(t: &mut Tok, x: &Tensor) {
    match &x.data {
        Data::Single(v) => {
            t.push(1);
            push_n(t, v.len());
            v.iter().for_each(|e| push_f(t, *e));
        }
        Data::Double(v) => {
            t.push(2);
            push_n(t, v.len());
            push_n(t, v.first().map_or(0, |r| r.len()));
            v.iter().flatten().for_each(|e| push_f(t, *e));
        }
        Data::Triple(v) => {
            t.push(3);
            push_n(t, v.len());
            push_n(t, v.first().map_or(0, |r| r.len()));
            push_n(t, v.first().and_then(|r| r.first()).map_or(0, |r| r.len()));
            v.iter().flatten().flatten().for_each(|e| push_f(t, *e));
        }
        Data::Quadruple(v) => {
            t.push(4);
            push_n(t, v.len());
            push_n(t, v.first().map_or(0, |r| r.len()));
            push_n(t, v.first().and_then(|r| r.first()).map_or(0, |r| r.len()));
            push_n(
                t,
                v.first()
                    .and_then(|r| r.first())
                    .and_then(|r| r.first())
                    .map_or(0, |r| r.len()),
            );
            v.iter().flatten().flatten().flatten().for_each(|e| push_f(t, *e));
        }
        _ => panic!("enc_tensor_in: unsupported data"),
    }
}

fn enc_v1(t: &mut Tok, v: &Vec<f32>) {
    push_n(t, v.len());
    v.iter().for_each(|e| out_f(t, *e));
}
pub fn enc_v3(t: &mut Tok, v: &Vec<Vec<Vec<f32>>>) {
    push_n(t, v.len());
    for c in v {
        push_n(t, c.len());
        for r in c {
            enc_v1(t, r)
        }
    }
}

/// Output encoding: the recorded shape, then the data with explicit lengths at every level.
pub fn enc_tensor_out(t: &mut Tok, x: &Tensor) {
    enc_shape(t, &x.shape);
    match &x.data {
        Data::Single(v) => {
            t.push(1);
            enc_v1(t, v)
        }
        Data::Double(v) => {
            t.push(2);
            push_n(t, v.len());
            v.iter().for_each(|r| enc_v1(t, r));
        }
        Data::Triple(v) => {
            t.push(3);
            enc_v3(t, v)
        }
        Data::Quadruple(v) => {
            t.push(4);
            push_n(t, v.len());
            v.iter().for_each(|c| enc_v3(t, c));
        }
        _ => t.push(98),
    }
}

pub fn enc_list_tensor_out(t: &mut Tok, xs: &[Tensor]) {
    push_n(t, xs.len());
    xs.iter().for_each(|x| enc_tensor_out(t, x));
}
pub fn enc_opt_tensor_out(t: &mut Tok, x: &Option<Tensor>) {
    match x {
        Some(x) => {
            t.push(1);
            enc_tensor_out(t, x)
        }
        None => t.push(0),
    }
}

pub fn line(id: &str, t: &Tok) -> String {
    let mut s = String::with_capacity(t.len() * 8 + id.len());
    s.push_str(id);
    for x in t {
        s.push(' ');
        s.push_str(&x.to_string());
    }
    s
}

// ---- tensor construction helpers ----
pub fn t1(v: Vec<f32>) -> Tensor {
    Tensor { shape: Shape::Single(v.len()), data: Data::Single(v) }
}
pub fn t2(r: usize, c: usize, v: &[f32]) -> Tensor {
    Tensor {
        shape: Shape::Double(r, c),
        data: Data::Double((0..r).map(|i| v[i * c..(i + 1) * c].to_vec()).collect()),
    }
}
pub fn t3(c: usize, h: usize, w: usize, v: &[f32]) -> Tensor {
    Tensor {
        shape: Shape::Triple(c, h, w),
        data: Data::Triple(
            (0..c)
                .map(|k| (0..h).map(|i| v[(k * h + i) * w..(k * h + i + 1) * w].to_vec()).collect())
                .collect(),
        ),
    }
}
pub fn t4(a: usize, c: usize, h: usize, w: usize, v: &[f32]) -> Tensor {
    Tensor {
        shape: Shape::Quadruple(a, c, h, w),
        data: Data::Quadruple(
            (0..a)
                .map(|q| {
                    (0..c)
                        .map(|k| {
                            (0..h)
                                .map(|i| {
                                    let o = ((q * c + k) * h + i) * w;
                                    v[o..o + w].to_vec()
                                })
                                .collect()
                        })
                        .collect()
                })
                .collect(),
        ),
    }
}
pub fn shape_numel(s: &Shape) -> usize {
    match s {
        Shape::Single(n) => *n,
        Shape::Double(a, b) => a * b,
        Shape::Triple(a, b, c) => a * b * c,
        Shape::Quadruple(a, b, c, d) => a * b * c * d,
        _ => 0,
    }
}
pub fn tensor_of_shape(s: &Shape, v: &[f32]) -> Tensor {
    match s {
        Shape::Single(_) => t1(v.to_vec()),
        Shape::Double(r, c) => t2(*r, *c, v),
        Shape::Triple(c, h, w) => t3(*c, *h, *w, v),
        Shape::Quadruple(a, c, h, w) => t4(*a, *c, *h, *w, v),
        _ => panic!("tensor_of_shape"),
    }
}
pub fn flat_of(x: &Tensor) -> Vec<f32> {
    match &x.data {
        Data::Single(v) => v.clone(),
        Data::Double(v) => v.iter().flatten().cloned().collect(),
        Data::Triple(v) => v.iter().flatten().flatten().cloned().collect(),
        Data::Quadruple(v) => v.iter().flatten().flatten().flatten().cloned().collect(),
        _ => vec![],
    }
}
