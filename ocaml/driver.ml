(* Reads one case per line (space separated integers), runs the extracted model, prints the
   result tokens on one line. *)
open Model

external expf_bits : int -> int = "caml_expf_bits" [@@noalloc]
external logf_bits : int -> int = "caml_logf_bits" [@@noalloc]
external tanhf_bits : int -> int = "caml_tanhf_bits" [@@noalloc]
external coshf_bits : int -> int = "caml_coshf_bits" [@@noalloc]
external powf2_bits : int -> int = "caml_powf2_bits" [@@noalloc]

let rec pos_of_int n = if n = 1 then XH else if n land 1 = 0 then XO (pos_of_int (n lsr 1)) else XI (pos_of_int (n lsr 1))
let z_of_int n = if n = 0 then Z0 else if n > 0 then Zpos (pos_of_int n) else Zneg (pos_of_int (-n))
let rec int_of_pos = function XH -> 1 | XO p -> 2 * int_of_pos p | XI p -> 2 * int_of_pos p + 1
let int_of_z = function Z0 -> 0 | Zpos p -> int_of_pos p | Zneg p -> - (int_of_pos p)

(* arbitrary-size decimal strings (u64 seeds, saturated casts) go through a small bignum-free path:
   tokens are at most 2^64, which fits Z built from two halves *)
let z_of_string s =
  match int_of_string_opt s with
  | Some n -> z_of_int n
  | None ->
    (* > max_int: split as hi * 2^32 + lo using string arithmetic on unsigned 64 *)
    let u = Int64.of_string ("0u" ^ s) in
    let hi = Int64.to_int (Int64.shift_right_logical u 32) and lo = Int64.to_int (Int64.logand u 0xFFFFFFFFL) in
    let rec shl z k = if k = 0 then z else shl (match z with Z0 -> Z0 | Zpos p -> Zpos (XO p) | Zneg p -> Zneg (XO p)) (k - 1) in
    let zh = shl (z_of_int hi) 32 in
    (* zh + lo : lo < 2^32 and the low 32 bits of zh are zero, so addition is a bitwise or; do it via positives *)
    let rec add_low p lo k = (* p has k low zero bits left to fill from lo *)
      if k = 0 then p else
      match p with
      | XO q -> if (lo lsr (32 - k)) land 1 = 1 then XI (add_low q lo (k - 1)) else XO (add_low q lo (k - 1))
      | _ -> p in
    (match zh with Zpos p -> Zpos (add_low p lo 32) | _ -> z_of_int lo)

let string_of_z z =
  (* results are bit patterns, counts, or u64 states: print through Int64 when large *)
  let rec go p = match p with XH -> (1L) | XO q -> Int64.mul 2L (go q) | XI q -> Int64.add (Int64.mul 2L (go q)) 1L in
  match z with
  | Z0 -> "0"
  | Zpos p -> Printf.sprintf "%Lu" (go p)
  | Zneg p -> "-" ^ Printf.sprintf "%Lu" (go p)

let libm = { l_exp = (fun z -> z_of_int (expf_bits (int_of_z z)));
             l_ln = (fun z -> z_of_int (logf_bits (int_of_z z)));
             l_tanh = (fun z -> z_of_int (tanhf_bits (int_of_z z)));
             l_cosh = (fun z -> z_of_int (coshf_bits (int_of_z z)));
             l_powf2 = (fun z -> z_of_int (powf2_bits (int_of_z z))) }

let () =
  let ic = if Array.length Sys.argv > 1 then open_in Sys.argv.(1) else stdin in
  let oc = if Array.length Sys.argv > 2 then open_out Sys.argv.(2) else stdout in
  (try
    while true do
      let line = input_line ic in
      let toks = List.filter (fun s -> s <> "") (String.split_on_char ' ' line) in
      match toks with
      | [] -> output_string oc "\n"
      | id :: rest ->
        let zs = List.map z_of_string rest in
        let out = run_case libm zs in
        output_string oc id;
        List.iter (fun z -> output_char oc ' '; output_string oc (string_of_z z)) out;
        output_char oc '\n'
    done
  with End_of_file -> ());
  close_out oc
