/* glibc single-precision libm on bit patterns: the same functions Rust's f32 methods call. */
#include <math.h>
#include <stdint.h>
#include <string.h>
#include <caml/mlvalues.h>

static inline float of_bits(value v) { uint32_t u = (uint32_t)Long_val(v); float f; memcpy(&f, &u, 4); return f; }
static inline value to_bits(float f) { uint32_t u; memcpy(&u, &f, 4); return Val_long((long)u); }

value caml_expf_bits(value v) { return to_bits(expf(of_bits(v))); }
value caml_logf_bits(value v) { return to_bits(logf(of_bits(v))); }
value caml_tanhf_bits(value v) { return to_bits(tanhf(of_bits(v))); }
value caml_coshf_bits(value v) { return to_bits(coshf(of_bits(v))); }
/* the exponent is read through a volatile so that the C compiler cannot fold powf(x, 2.0f) into x * x
   (gcc -O2 does; glibc's powf differs from x * x in the last bit for about 0.08 % of the inputs) */
static volatile float two_f = 2.0f;
value caml_powf2_bits(value v) { return to_bits(powf(of_bits(v), two_f)); }
