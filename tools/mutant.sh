#!/bin/bash
# tools/mutant.sh <ID> [dir]: confirm a seeded change (compiles, suite passes, demo fails with / passes
# without), store it under /verif/seeded/<name>/, then run the property's quick check against it.
ID=$1; NAME=${2:-$1}; W=/tmp/mut/$NAME; OUT=$W/out
export CARGO_TARGET_DIR=/tmp/mut/target_$NAME CARGO_NET_OFFLINE=true
cd $W || exit 2
git checkout -q -- src 2>/dev/null; rm -rf tests
git apply --check $OUT/patch.diff || { echo "patch does not apply"; exit 2; }
mkdir -p tests; cp $OUT/demo.rs tests/demo.rs
echo "--- demo WITHOUT change"; cargo test --offline --features verif --test demo 2>&1 | grep -E "^test result|error" | head -3
git apply $OUT/patch.diff
echo "--- demo WITH change"; cargo test --offline --features verif --test demo 2>&1 | grep -E "^test result|error" | head -3
rm -rf tests
echo "--- suite WITH change"; cargo test --offline 2>&1 | grep -E "^test result" | head -3
cargo build --offline --features verif 2>&1 | tail -1
git checkout -q -- src
mkdir -p /verif/seeded/$NAME; cp $OUT/patch.diff $OUT/demo.rs /verif/seeded/$NAME/; cp $OUT/meta.json /verif/seeded/$NAME/meta.agent.json
echo "--- check $ID against the change"
unset CARGO_TARGET_DIR; cd /verif; git -C /repo apply $OUT/patch.diff && { timeout 3000 ./check $ID --tier quick 2>&1 | grep -v "Stopping training\|Validation loss" | tail -8; echo "check exit: ${PIPESTATUS[0]}"; }; git -C /repo checkout -- .
