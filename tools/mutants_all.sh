#!/bin/bash
# tools/mutants_all.sh: applies every stored seeded change that still applies to /repo's HEAD, runs the
# property's quick check and expects exit 1 (VIOLATION); restores /repo after each. Prints one line each.
cd /verif
for d in seeded/*/; do
  n=$(basename $d); p=${n:0:3}
  if ! git -C /repo apply --check /verif/$d/patch.diff 2>/dev/null; then echo "$n SKIP (does not apply)"; continue; fi
  git -C /repo apply /verif/$d/patch.diff
  out=$(timeout 1500 ./check $p --tier quick 2>&1); rc=$?
  git -C /repo checkout -- .
  echo "$n exit=$rc $(echo "$out" | grep -c '^VIOLATION') violation line(s); $(echo "$out" | tail -1 | cut -c1-150)"
done
