#!/usr/bin/env python3
"""Rewrites the seeded-change table of DESIGN.md (section D5) from seeded/*/meta.json."""
import json, glob, re
s = open('/verif/DESIGN.md').read()
rows = []
metas = [(f.split('/')[-2], json.load(open(f))) for f in sorted(glob.glob('/verif/seeded/*/meta.json'))]
for d, m in metas:
    rows.append("| `seeded/%s` | %s | %s | %s |" % (d, m.get('property'), str(m.get('detected_by')).replace('\n', ' ').replace('|', '/'),
                "yes" if m.get('applies_to_repo_head') else "no (the code it patches was replaced by a fix)"))
n = len(metas)
late = sum(1 for _, m in metas if 'strengthen' in str(m.get('status')) or 'strengthen' in str(m.get('detected_by')))
head = ("%d changes written by sub-agents that saw only the property text (and, from the third round on, one-line\n"
        "summaries of the earlier changes for the same property, so as not to repeat them) and a scratch\n"
        "worktree: three rounds per property. Each was confirmed by its own `demo.rs` against the patched\n"
        "library, applied to `/repo`, checked, and reverted (`tools/mutant.sh`). %d of them led to a\n"
        "strengthened generator or falsifier (missed, or caught by one of tie/falsifier only) and are\n"
        "caught after the change named in the table. Two round-1 patches no longer apply because the code\n"
        "they patch was replaced by a fix commit.\n\n"
        "| change | property | caught by | applies to HEAD |\n|---|---|---|---|\n") % (n, late)
a = s.index("### D5. Seeded changes: which check catches which")
b = s.index("When a check reports a seeded change through the tie")
s = s[:a] + "### D5. Seeded changes: which check catches which\n\n" + head + "\n".join(rows) + "\n\n" + s[b:]
open('/verif/DESIGN.md', 'w').write(s)
print(n, "changes,", late, "after strengthening")
