#!/usr/bin/env python3
"""Rewrites the seeded-change table of DESIGN.md (section D5) from seeded/*/meta.json."""
import json, glob, re
s = open('/verif/DESIGN.md').read()
rows = []
metas = [(f.split('/')[-2], json.load(open(f))) for f in sorted(glob.glob('/verif/seeded/*/meta.json'))]
for d, m in metas:
    rows.append("| `seeded/%s` | %s | %s | %s |" % (d, m.get('property'), str(m.get('detected_by')).replace('\n', ' ').replace('|', '/'),
                "yes" if m.get('applies_to_repo_head') else "no (the code it patches was replaced by a fix)"))
n = len(metas)
late = sum(1 for _, m in metas if 'strengthen' in str(m.get('status')) or 'strengthen' in str(m.get('detected_by')))
rounds = max(int(m.get('round', 1)) for _, m in metas)
missed = sum(1 for _, m in metas if str(m.get('detected_by')).startswith('missed'))
head = ("%d changes written by sub-agents that saw only the property text (and, from the third round on, one-line\n"
        "summaries of the earlier changes for the same property, so as not to repeat them; from the fourth round\n"
        "on they were asked for changes that need a RARE condition to manifest) and a scratch worktree: %d rounds\n"
        "per property. Each was confirmed by its own `demo.rs` against the patched library, applied to `/repo`,\n"
        "checked, and reverted (`tools/mutant.sh`). %d were missed by the check as committed at the time and %d more\n"
        "were caught by only one of tie/falsifier or by a single case; each of these led to a new generator or\n"
        "falsifier class (named in the table), after which it is caught. The classes that were missing are the\n"
        "lesson of these rounds: extents beyond internal block sizes (64 samples per group, 32/128 rows, 8 lanes),\n"
        "two instances of a structure (two feedback blocks, two loop connections, a shared skip source), special\n"
        "float values in every tensor path, optional arguments (`print`, one-sided clamps), architectures without\n"
        "a dense layer, exact zeros in optimizer state, equal element counts with different dimensions; from round 6\n"
        "on: extents beyond 2^10 and 2^16 elements, many repetitions / iterations / epochs, degenerate arguments\n"
        "(tolerances, dropout rates, hyper-parameters, step numbers, early-stopping windows, empty tensors),\n"
        "saturated and subnormal values, every activation on every layer kind, and - the largest group in the last\n"
        "rounds - CALL HISTORY and ALIASING: gradients after the library's own updates, a second call of learn,\n"
        "validate after learn, a refused call before valid ones, one tensor object passed several times. For call\n"
        "history the tie has driver commands 10-12 (two learns, two learns with validation, a script of learn /\n"
        "validate / predict / backward / predict_batch calls on ONE network object). They are now\n"
        "generated deterministically in the quick tier. Rounds 9-12 added: every ENTRY POINT on structured networks\n"
        "(predict / predict_batch / gradients, not only forward) and DIRECT WRITES of the public maps `connect` /\n"
        "`loopbacks`; RECONFIGURATION between calls (set_activation, set_optimizer, set_objective, set_accumulation,\n"
        "an optimizer attached again); parameters in a SPECIAL RELATION (stride == kernel, 1x1 kernels with padding\n"
        "and stride, overhanging kernels, nested connections and loops); quantities BEYOND THE MODEL'S UNARY NUMBERS\n"
        "(batch size usize::MAX - by theorem -, reshape dimensions near 2^64 - by an implementation-only falsifier);\n"
        "values that are NEARLY EQUAL (the crate's own tolerant `==` on tensor data is a trap for fast paths: inputs,\n"
        "loop iterates and predictions less than 1e-5 apart); exactly-zero gradients, whole channels of zeros, zero\n"
        "dimensions; runs that DIVERGE (overflowing steps, NaN losses); and again sizes (2^15-element matrices, 4160\n"
        "evaluation samples, 96-class soft-max, 2^16-element flat sizes). Two round-1 patches no longer apply because the code they\n"
        "patch was replaced by a fix commit. `tools/mutants_all.sh` re-applies every stored change and expects\n"
        "exit 1 from the property's check.\n\n"
        "| change | property | caught by | applies to HEAD |\n|---|---|---|---|\n") % (n, rounds, missed, late - missed)
a = s.index("### D5. Seeded changes: which check catches which")
b = s.index("When a check reports a seeded change through the tie")
s = s[:a] + "### D5. Seeded changes: which check catches which\n\n" + head + "\n".join(rows) + "\n\n" + s[b:]
open('/verif/DESIGN.md', 'w').write(s)
print(n, "changes,", late, "after strengthening")
