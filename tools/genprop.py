#!/usr/bin/env python3
"""Prints `Theorem <name> : <statement of lemma>. Proof. exact <lemma>. Qed. Print Assumptions` blocks
   from `Check` output (a writing aid; the generated file is reviewed and committed by hand)."""
import subprocess, sys, re
imports = sys.argv[1]
pairs = [a.split('=') for a in sys.argv[2:]]
src = imports + "\nSet Printing Width 110.\nSet Printing Depth 1000.\n" + "\n".join("Check @%s." % l for _, l in pairs)
out = subprocess.run(["coqtop", "-Q", ".", "NV", "-quiet"], input=src, capture_output=True, text=True, cwd="/verif/coq").stdout
# split on "Coq < " prompts is unreliable; split on lines starting with '@lemma' or 'lemma'
blocks = re.split(r"\n(?=@?[A-Za-z_0-9']+\n?\s+: )", "\n" + out)
res = {}
for b in blocks:
    m = re.match(r"\s*@?([A-Za-z_0-9']+)\s*\n?\s+: (.*)", b, re.S)
    if m: res[m.group(1)] = m.group(2).strip()
for name, l in pairs:
    st = res.get(l)
    if st is None:
        print("(* MISSING %s *)" % l); continue
    print("Theorem %s :\n  %s.\nProof. exact %s. Qed.\nPrint Assumptions %s.\n" % (name, st.replace("\n", "\n  "), "@" + l, name))
