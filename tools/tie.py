#!/usr/bin/env python3
"""dev helper: tools/tie.py PROP [tier] [seed] — runs generator + model and summarises disagreements"""
import sys, os, subprocess
import importlib.machinery, importlib.util
root = os.path.dirname(os.path.dirname(os.path.abspath(__file__)))
loader = importlib.machinery.SourceFileLoader('check', os.path.join(root, 'check')); spec = importlib.util.spec_from_loader('check', loader); ck = importlib.util.module_from_spec(spec); loader.exec_module(ck)
prop = sys.argv[1]; tier = sys.argv[2] if len(sys.argv) > 2 else 'quick'; seed = sys.argv[3] if len(sys.argv) > 3 else '1'
w = os.path.join(root, 'work', 'dev_' + prop); os.makedirs(w, exist_ok=True)
r = subprocess.run([os.path.join(root, 'harness/target/debug/nverif'), 'gen', prop, tier, seed, w], capture_output=True, text=True)
print(r.stdout.strip(), r.stderr.strip()[-500:])
lines = open(os.path.join(w, 'cases.txt')).read().splitlines()
n = 16
ps = []
for k in range(n):
    open(os.path.join(w, 'c%d' % k), 'w').write("\n".join(lines[k::n]) + "\n")
    ps.append(subprocess.Popen([os.path.join(root, 'ocaml/driver'), os.path.join(w, 'c%d' % k), os.path.join(w, 'm%d' % k)]))
for p in ps: p.wait()
with open(os.path.join(w, 'model.txt'), 'w') as f:
    for k in range(n): f.write(open(os.path.join(w, 'm%d' % k)).read())
impl, order = ck.parse_lines(os.path.join(w, 'impl.txt')); model, _ = ck.parse_lines(os.path.join(w, 'model.txt'))
mode = ck.PROPS[prop]['mode']
bad = {}; ex = dr = pan = 0
for c in order:
    v, e = ck.compare_tokens(impl[c], model.get(c, []), mode)
    if impl[c][0] == 1: pan += 1
    if v != 'ok': bad.setdefault(c.split('#')[2], []).append((c, v))
    elif e: ex += 1
    else: dr += 1
print(len(order), 'cases; exact', ex, 'drift', dr, 'impl panics', pan, 'bad', {k: len(v) for k, v in bad.items()})
for k, v in list(bad.items())[:8]:
    c = v[0][0]; print(' ', c, v[0][1], '\n    impl ', impl[c][:16], '\n    model', model.get(c, [])[:16])
if os.path.exists(os.path.join(w, 'falsify.jsonl')):
    import json
    fs = [json.loads(l) for l in open(os.path.join(w, 'falsify.jsonl')) if l.strip()]
    fails = [f for f in fs if not f.get('ok', True)]
    keys = {}
    for f in fails: keys[f['key']] = keys.get(f['key'], 0) + 1
    print('falsifier records', len(fs), 'failures', keys)
    for f in fails[:6]: print('  ', json.dumps(f)[:400])
