#!/bin/bash
# tools/round_prepare.sh <suffix> <ID>...: scratch worktrees /tmp/mut/<ID><suffix> with PROPERTY.json and a
# prompt file /tmp/mut/PROMPT_<ID>.txt listing the changes already tried (from seeded/*/meta.json)
SUF=$1; shift
mkdir -p /tmp/mut
for p in "$@"; do
  git -C /repo worktree add --detach /tmp/mut/${p}${SUF} HEAD >/dev/null 2>&1; mkdir -p /tmp/mut/${p}${SUF}/out
  python3 - "$p" "$SUF" <<'PY'
import json,sys,glob
p,suf=sys.argv[1],sys.argv[2]
for l in open('/verif/properties.jsonl'):
    d=json.loads(l)
    if d['id']==p: open('/tmp/mut/%s%s/out/PROPERTY.json'%(p,suf),'w').write(json.dumps(d,indent=1))
tried=[]
for f in sorted(glob.glob('/verif/seeded/%s*/meta.json'%p)):
    m=json.load(open(f)); tried.append("   - "+m['breaks'][:300].replace('\n',' '))
t=open('/verif/tools/round_prompt.tmpl').read().replace('@@NAME@@',p+suf).replace('@@PROP@@',p).replace('@@TRIED@@',"\n".join(tried))
open('/tmp/mut/PROMPT_%s.txt'%p,'w').write(t)
PY
done
git -C /repo worktree list | wc -l
