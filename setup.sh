#!/bin/sh
# Builds the framework from files on disk only (offline): Coq development (full .vo build),
# extraction + OCaml driver, Rust harness against /repo.
set -e
cd "$(dirname "$0")"
export CARGO_NET_OFFLINE=true
what="${1:-all}"
if [ "$what" = all ] || [ "$what" = coq ] || [ "$what" = ocaml ]; then
  (cd coq && coq_makefile -f _CoqProject -o Makefile >/dev/null && timeout 7000 make -j16 >make.log 2>&1) || { tail -40 coq/make.log; exit 1; }
fi
if [ "$what" = all ] || [ "$what" = ocaml ]; then
  (cd ocaml && timeout 900 coqc -Q ../coq NV ../coq/Extract/Extract.v >/dev/null \
     && ocamlfind ocamlopt -O3 -c model.mli model.ml 2>/dev/null \
     && ocamlfind ocamlopt -O3 -o driver stubs.c model.cmx driver.ml -cclib -lm 2>/dev/null)
fi
if [ "$what" = all ] || [ "$what" = harness ]; then
  cp /repo/Cargo.lock harness/Cargo.lock; export CARGO_TARGET_DIR="$PWD/harness/target"
  (cd harness && cargo build --offline 2>&1 | tail -3)
fi
echo "setup done"
