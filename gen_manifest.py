#!/usr/bin/env python3
"""Writes MANIFEST.json from the table below (kept in one place so it stays valid)."""
import json, subprocess

TB = ("Trusted: Coq 8.16.1 kernel (vm_compute used, no native_compute), Flocq as the definition of binary32, the standard-library axioms listed by Print Assumptions in the evidence file (classic, sig_forall_dec, sig_not_dec, functional_extensionality_dep through Reals/Flocq only), extraction with ExtrOcamlBasic, ocamlopt, glibc libm through ocaml/stubs.c, the Rust harness. The theorems are about the hand-written Gallina model coq/*.v; the model is tied to /repo's current source by a differential run (extracted model vs. implementation on the same generated cases) on every check, and model-free falsifiers evaluate the property on the implementation.")

def C(text, technique, ref, note=""):
    return dict(text=text, note=(note + " " if note else "") + TB, technique=technique, ref=ref)

CLAIMED = {
 "C14": C("Coq theorems (generic in the number structure, axiom-free) prove for every shape and content that flatten/get_flat give the row-major sequence, that reshape succeeds exactly on equal element counts, yields the requested shape, a well-formed tensor and the same sequence, that there-and-back is the identity and that unequal counts are refused. Tie: every source shape up to 4x4x4 (6x6x6 thorough) with all equal-count and unequal-count targets, compared exactly (recorded shape and nested lengths included).",
          "Coq proof by list induction + model/code differential run", "3/C14",
          "Single->Single reshape returns the tensor unchanged without checking the length (stated in C14_reshape_ok/refused)."),
 "C15": C("Coq theorems: shape-mismatched operands are refused; for equal shapes the result keeps the shape and every element is the operator applied to the two elements at its position, for ranks 1-4; mean over k tensors (k=0 and mismatches refused; closed form (self + ((-0+o1)+...))/(k+1)); outer product, matrix-vector product, transpose by their definitions; and over Flocq binary32: add/sub/mul/div ARE the correctly rounded IEEE-754 operations, clamp lies in the interval. Tie: every operation x rank x value stream (random bits, +-0, denormals, huge) and every single-dimension shape perturbation, compared bit for bit.",
          "Coq proof (lists + Flocq) + exact differential run", "3/C15"),
 "C13": C("Coq theorems about the generic epoch loop (arbitrary per-sample, step and validate functions, hence every validation-loss trajectory, tolerance and epoch budget): history lengths, stop only if the closed-form rule stop_at holds at the last epoch run, rule false at every earlier epoch, all epochs without validation data; the rule is proved equal to 'more than T epochs and no loss <= its predecessor in the last T'. Tie + falsifier: a 1->1 linear network steered through rising/falling/oscillating/plateau trajectories for T in 1..6, E in 1..12.",
          "Coq proof by induction over epochs + exact differential run + trajectory oracle", "3/C13"),
 "C04": C("Coq theorems about the generic training loop (arbitrary gradient, accumulation and optimizer functions): chunks partition the samples in order (non-empty, <= B, all but the last full, ceil(N/B) of them), zipping chunked inputs/targets = chunking the pairs, one epoch = for each group one step with step number = epoch on the in-order gradient sum evaluated at the weights before the step, epoch loss = mean of group means, E epochs = E iterations; trace instance: exactly one step per group seeing exactly its samples. Tie: learn (and two consecutive learns) on dense/conv nets for N in 1..7, B in {1,2,3,4,8}, all optimizers; falsifier: bit-exact hand replay with forward/backward/update.",
          "Coq proof (refinement of the model's loop to a pure spec) + differential run + bit-exact replay", "3/C04"),
 "C12": C("Coq theorems for any ordered parallel map: predict_batch = map predict (any length; the 64-chunking is invisible), validate = in-order means of loss(predict) and per-sample accuracy over the zipped samples, predict = last activation of forward. Tie: soft-max and tolerance accuracy, data-set sizes {1,2,63,64,65,127,128,129,200}, networks with skip/loop connections; falsifier recomputes both means from predict and objective.loss.",
          "Coq proof (chunk/concat lemmas) + differential run + recomputation oracle", "3/C12"),
 "C05": C("Model-level proof + schedule exploration. Coq: an ordered collect along ANY split tree equals the sequential map; learn, validate and predict_batch of the model instantiated with any per-region schedule are equal (hence bit-identical); contrast lemma: a binary32 tree reduction does depend on the tree. Runtime part (cannot be exhibited by the model): the same training/validation/prediction job in rayon pools of 1,2,3,5,8,16,33 threads, repeated, with a seeded perturbation hook in every parallel work item; all losses, accuracies, weights and ordered predictions must be bit-identical.",
          "Coq proof of schedule independence of the model + thread-pool/perturbation exploration of the implementation", "3/C05",
          "Partial: rayon's work stealing itself, data races (excluded by Rust's typing) and HashMap iteration order are not modelled; they are explored, not proved."),
 "C10": C("Coq invariant proof (no assumption on the optimizer step): feedback_create yields pairwise disjoint couples of same-kind layers holding identical parameters; one update re-establishes tying WITHOUT assuming it; hence tied after any history of updates (any gradients, batch sizes, step numbers, accumulation in {add, subtract, multiply, mean}); the parameter count sums one repetition. Tie: learn on dense/conv/deconv blocks x loops 1..4 x 4 accumulations x 5 optimizers, weights of every unrolled copy and the parameter count; falsifier: bitwise equality of all copies.",
          "Coq inductive invariant over update histories + differential run + invariant check on the implementation", "3/C10"),
 "C03": C("Coq theorems: the vector, matrix and 3-D copies of the update apply one scalar rule position by position to weights, mutated gradient and state (closed forms row_fun/mat_fun/cube_fun), so results do not depend on the rank; an update leaves every other (layer, filter, bias) slot of every state array unchanged. The scalar rules transcribe the documented equations. Tie: histories of up to 40 steps, every option combination x rank, interleavings over slots, non-monotone step numbers, network-level multi-filter layers; falsifiers: f64 reference of the documented equations, rank independence, slot isolation, NaN scan (centred RMSprop regression).",
          "Coq proof (element-wise lifting + frame) + bit-exact differential run + reference equations", "3/C03",
          "Partial: the no-NaN clause is checked by the falsifier only (no Flocq proof of finiteness across histories)."),
 "C18": C("Coq theorems: every state lies in [0,m); the u64 product of a step cannot overflow for any seed and a seed is equivalent to its residue; the sequence is a function of the seed; over Flocq binary32, for EVERY state and all finite min <= max, generate(min,max) is finite and lies in [min,max]; shuffle never panics for any seed and length and returns a permutation. Tie: seeds small / reaching the 64 largest states / above 2^64/48271 / u64::MAX; falsifier over 2^16..2^22 states x 10 intervals.",
          "Coq proof (Z arithmetic, Flocq order reasoning, Permutation) + exact differential run + state sweep", "3/C18"),
 "C06": C("Coq theorems over the model instantiated at the real numbers (the same generic definitions whose binary32 instance is tied to the code): each of the seven objectives returns its documented formula (KL with the 0*ln 0 = 0 convention of the repaired code); for AE (away from the kink), MSE, BCE and KL (inside the clamp) the returned gradient component IS the Coquelicot derivative of the reported loss with respect to that prediction component, for every vector length and position; the 3-D arm computes the flat arm's numbers in row-major order; a configured clamp limits each gradient component and leaves the loss unchanged. Tie: all objectives x ranks x value streams (probabilities, zeros, ones, out-of-range, huge), with/without clamp; falsifiers: f64 reference formulas and central finite differences of the library's own loss.",
          "Coq proof (Coquelicot derivatives over NumR, list lemmas) + differential run + finite-difference oracle", "3/C06",
          "Partial: the derivative theorems cover exactly the four objectives the property names; finiteness of the binary32 loss at boundary values (components exactly 0 or 1) and the gradient having the prediction's shape are decided by the tie and falsifier streams (exact 0/1 components, both ranks), not by a theorem; rounding error of the binary32 instance is measured by the tie (1e-4 relative), not bounded by proof."),
 "C07": C("Coq theorems over the model at the real numbers: sigmoid = 1/(1+e^-x) with range (0,1) and derivative s(1-s); tanh' = 1/cosh^2; ReLU = max(0,x) and leaky ReLU with their derivatives away from 0; soft-max has the closed form e^x_i / sum e^x_j (the subtracted maximum cancels), is non-negative, sums to 1 and is invariant under a common shift, for every non-empty vector. Tie: every activation x rank x value stream (tiny, huge, +-0, ties in the maximum) forward and backward; falsifiers: f64 references, finite differences, soft-max sum/shift on the implementation.",
          "Coq proof (Coquelicot derivatives, exp/ln algebra) + differential run + reference oracle", "3/C07",
          "Partial: binary32 rounding of libm exp/tanh is outside the proof (glibc is called by both sides of the tie); the real-number theorems and the measured 1e-4 agreement together support 'up to rounding'."),
 "C09": C("Coq theorems, generic in the number structure and for arbitrary architectures (any mix of dense/conv/deconv/max-pool/feedback layers, skip and loop connections, dropout on any subset): learn returns with every training flag off whether it ran all epochs or stopped early; validate evaluates every sample on a network whose flags are all off (also when called from inside learn); with all flags off forward/predict equal those of the identical network configured without dropout. Tie: learn with and without validation data and early stopping, dropout in plain layers and inside feedback blocks, flags read back after each call; falsifier: predict twice after learn/validate must be bit-identical and equal to the dropout-free twin.",
          "Coq proof (structural induction over layers and the epoch loop) + differential run + flag/twin oracle", "3/C09"),
 "C02": C("Coq theorems, for every configuration (non-square inputs and kernels, asymmetric stride/padding/dilation) and any number structure: the dense layer returns activation(W x + b) with each row sum taken left to right; the convolution returns the zero-padded, strided, dilated cross-correlation (the bounds guard of the loop is proved always true, so no tap is dropped); the deconvolution returns, per output cell, the sum of x[c][i][j]*K[k][c][oi+p-i*s][oj+p-j*s] with output extent (i-1)*s+k-2p; the max-pool returns for each window a value that dominates every window element and is attained at the recorded coordinates (proved over the reals and over all finite binary32 inputs); a flat vector is re-chunked to exactly the tensor it was flattened from, so the three spatial layers give identical results for both representations; a network without skip/loop connections predicts the left-to-right composition of its layers. Tie: every layer kind x configuration lattice x both representations, plus sequential networks, compared with the implementation (1e-4; in practice bit-exact); falsifier: independent direct-definition implementations in f64.",
          "Coq proof (index arithmetic, list/chunk lemmas, order reasoning with Flocq) + differential run + reference operators", "3/C02"),
 "C08": C("Coq theorems for every configuration: a size computation that succeeds IS the standard formula under its guard (conv: (i+2p-d(k-1)-1)/s+1, deconv: (i-1)s+k-2p, pool: (i-k)/s+1); for a layer returned by the constructor (kernels drawn by the constructor proved to have the requested dimensions) the pre-activation the forward pass produces has exactly the announced output shape, for convolution, deconvolution, max-pool and dense layers; the builders give each new layer the previous layer's output shape and switch the previous spatial layer to flatten before a dense layer of exactly c*h*w inputs; flatten is the row-major sequence and a flat vector of c*h*w elements is re-read as the tensor with that row-major sequence (nothing lost); a flat size is accepted only as 1 x r x r with r*r = size and rejected when it is no perfect square; over binary32, r*r is accepted for every r <= 8192 (finite sweep evaluated by the kernel, bound in the statement); kernel/weight/input gradients have the dimensions of the kernels/weights/input. Tie + falsifier: configuration lattice incl. odd sizes, non-dividing strides, large paddings, dense->spatial transitions, non-square flat sizes; announced vs produced shapes and panics compared exactly.",
          "Coq proof (nat arithmetic, constructor/forward refinement, vm_compute sweep for the f32 square root) + exact differential run", "3/C08",
          "The acceptance of r*r beyond r = 8192 is not proved (it depends on binary32 rounding of sizes above 2^26)."),
 "C11": C("Coq theorems, generic in the number structure, for every layer list, L >= 1, all four skip-flag combinations, all five accumulations, flat and spatial blocks: the block built by the constructor (layout L copies of the list; skip table proved entry by entry: position r*len -> [block input] for 1 <= r < L with input skips, position L*len -> outputs of repetitions 1..L-1 with output skips when L > 1, nothing else) computes exactly the recursive specification `reps`: repetition 1 gets the input, every later repetition gets accumulate(previous output, [block input]) when input skips are on, the result is accumulate(last output, outputs of all earlier repetitions) when output skips are on, flattened when a dense layer follows (the builder is proved to set the flag); without skips this is the L-fold iteration of the plain sequential pass. Equality includes every recorded pre-/post-activation and panic. Tie: blocks of dense/conv/deconv/max-pool layers x loops 1..4 x skips x accumulations x flat/spatial inputs; falsifier: independent unrolled evaluation with the public tensor operations.",
          "Coq proof (induction over repetitions with an invariant on the activation list, association-list lemmas) + differential run + unrolled oracle", "3/C11"),
}
PENDING = {}

def main():
    props = [json.loads(l) for l in open("properties.jsonl")]
    repo_commits = subprocess.run("git -C /repo log --format=%H --grep='^verif hooks' ", shell=True, capture_output=True, text=True).stdout.split()
    checks = []
    na = []
    for p in props:
        pid = p["id"]
        if pid in CLAIMED:
            c = CLAIMED[pid]
            checks.append(dict(
                property_id=pid,
                quick_cmd="./check %s --tier quick" % pid,
                thorough_cmd="./check %s --tier thorough" % pid,
                evidence_file="evidence/%s.json" % pid,
                replay_cmd_template="./check %s --replay {path}" % pid,
                engine="coq-model",
                level_claimed=dict(category="proof", text=c["text"], design_ref="DESIGN.md section " + c["ref"]),
                level_note=c["note"],
                technique=c["technique"]))
        else:
            na.append(dict(property_id=pid, reason=PENDING.get(pid, "check under construction in this round: the Coq model covers the anchored code, the property theorems and the tie generator are not registered yet")))
    m = dict(
        version=1,
        setup_cmd="./setup.sh",
        hooks=dict(guard="cargo feature `verif`",
                   enable="the harness crate depends on neurons = { path = \"/repo\", features = [\"verif\"] }",
                   baseline_off_cmd="cd /repo && cargo test --workspace --no-fail-fast --offline",
                   source_commits=repo_commits, add_only=True),
        engines=[dict(name="coq-model", path="coq/", serves_properties=sorted(CLAIMED), kind_free_text="hand-written Gallina model generic over a number structure; theorems in coq/Properties; extracted binary32 instance"),
                 dict(name="ocaml-driver", path="ocaml/", serves_properties=sorted(CLAIMED), kind_free_text="extracted model + libm stubs, evaluates the cases of the tie"),
                 dict(name="rust-harness", path="harness/", serves_properties=sorted(CLAIMED), kind_free_text="case generators, implementation runs, model-free falsifiers")],
        checks=checks,
        not_applicable=na,
        notes="./check <ID> decides one property: proofs (make + Print Assumptions + grep gate), tie (harness vs extracted model), falsifiers, known findings, evidence. See DESIGN.md.")
    json.dump(m, open("MANIFEST.json", "w"), indent=1)
    print("claimed", len(checks), "not_applicable", len(na))

main()
