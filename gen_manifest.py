#!/usr/bin/env python3
"""Writes MANIFEST.json from the table below (kept in one place so it stays valid)."""
import json, subprocess

CLAIMED = {
 "C14": dict(
   text="Coq theorems (generic in the number structure, axiom-free) prove for every shape and content that flatten/get_flat give the row-major sequence, that reshape succeeds exactly on equal element counts, yields the requested shape, a well-formed tensor and the same sequence, that there-and-back is the identity and that unequal counts are refused; the hand-written Gallina model is tied to src/tensor.rs by a differential run (extracted model vs. implementation, bit-exact) over every source shape up to 4x4x4 (6x6x6 thorough) and all equal-count and unequal-count targets.",
   note="Theorems are about the Gallina model coq/Tensor.v; the tie to src/tensor.rs is differential (exact comparison). Trusted: Coq kernel, extraction (ExtrOcamlBasic), ocamlopt, the Rust harness. Single->Single reshape returns the tensor unchanged without checking the length (stated in C14_reshape_ok/refused).",
   technique="Coq proof by list induction + model/code differential run", ref="3/C14"),
}
PENDING = {}

def main():
    props = [json.loads(l) for l in open("properties.jsonl")]
    repo_commits = subprocess.run("git -C /repo log --format=%H --grep='^verif hooks' ", shell=True, capture_output=True, text=True).stdout.split()
    checks = []
    na = []
    for p in props:
        pid = p["id"]
        if pid in CLAIMED:
            c = CLAIMED[pid]
            checks.append(dict(
                property_id=pid,
                quick_cmd="./check %s --tier quick" % pid,
                thorough_cmd="./check %s --tier thorough" % pid,
                evidence_file="evidence/%s.json" % pid,
                replay_cmd_template="./check %s --replay {path}" % pid,
                engine="coq-model",
                level_claimed=dict(category="proof", text=c["text"], design_ref="DESIGN.md section " + c["ref"]),
                level_note=c["note"],
                technique=c["technique"]))
        else:
            na.append(dict(property_id=pid, reason=PENDING.get(pid, "check under construction in this round: the Coq model covers the anchored code, the property theorems and the tie generator are not registered yet")))
    m = dict(
        version=1,
        setup_cmd="./setup.sh",
        hooks=dict(guard="cargo feature `verif`",
                   enable="the harness crate depends on neurons = { path = \"/repo\", features = [\"verif\"] }",
                   baseline_off_cmd="cd /repo && cargo test --workspace --no-fail-fast --offline",
                   source_commits=repo_commits, add_only=True),
        engines=[dict(name="coq-model", path="coq/", serves_properties=sorted(CLAIMED), kind_free_text="hand-written Gallina model generic over a number structure; theorems in coq/Properties; extracted binary32 instance"),
                 dict(name="ocaml-driver", path="ocaml/", serves_properties=sorted(CLAIMED), kind_free_text="extracted model + libm stubs, evaluates the cases of the tie"),
                 dict(name="rust-harness", path="harness/", serves_properties=sorted(CLAIMED), kind_free_text="case generators, implementation runs, model-free falsifiers")],
        checks=checks,
        not_applicable=na,
        notes="./check <ID> decides one property: proofs (make + Print Assumptions + grep gate), tie (harness vs extracted model), falsifiers, known findings, evidence. See DESIGN.md.")
    json.dump(m, open("MANIFEST.json", "w"), indent=1)
    print("claimed", len(checks), "not_applicable", len(na))

main()
